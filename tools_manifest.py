#!/venv/bin/python
"""Regenerates MANIFEST.json from harness/props/*.py (claimed) and the table below."""
import json, os, importlib, sys
sys.path.insert(0, os.path.dirname(os.path.abspath(__file__)))
ALL = ['C%02d' % i for i in range(1, 21)]
PENDING_REASON = ('not claimed yet: model/theorem/correspondence for this property are still '
                  'being built (DESIGN.md section 8, build order); the technique applies')
NOTES = json.load(open(os.path.join(os.path.dirname(__file__), 'manifest_notes.json')))
checks, na = [], []
for pid in ALL:
    if os.path.exists('harness/props/%s.py' % pid.lower()) and pid in NOTES:
        n = NOTES[pid]
        checks.append(dict(
            property_id=pid,
            quick_cmd='./check %s quick' % pid,
            thorough_cmd='./check %s thorough' % pid,
            evidence_file='/verif/evidence/%s.json' % pid,
            replay_cmd_template='./check replay {path}',
            engine='coq-acceptor',
            level_claimed=dict(category='proof', text=n['text'], design_ref=n['design_ref']),
            level_note=n['note'], technique=n['technique']))
    else:
        na.append(dict(property_id=pid, reason=PENDING_REASON))
m = dict(
    version=1,
    setup_cmd='cd /verif/coq && coq_makefile -f _CoqProject -o Makefile && timeout 3000 make -j16',
    hooks=dict(guard='DESPER_VERIF', enable='no hooks: every observation goes through the public API '
               'and harness-side doubles; DESPER_VERIF is reserved and unused by /repo',
               baseline_off_cmd='cd /repo && /venv/bin/python -m pytest -ra -q -p no:cacheprovider --timeout=900',
               source_commits=[], add_only=True),
    engines=[dict(name='coq-acceptor', path='/verif/check',
                  serves_properties=[c['property_id'] for c in checks],
                  kind_free_text='Coq 8.16 proofs about executable Gallina models + correspondence '
                  'evaluated by vm_compute on traces of the real implementation')],
    checks=checks, not_applicable=na,
    notes='fix: commits in /repo are listed in known_findings.json (fixed entries); see DESIGN.md')
json.dump(m, open('MANIFEST.json', 'w'), indent=1)
print(len(checks), 'claimed;', len(na), 'not claimed')
