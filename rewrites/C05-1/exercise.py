"""Exercise deferred / immediate entity deletion through the public API.

Prints a canonical transcript: everything whose order depends on set
iteration (order in which dead entities are finalized) is sorted.
"""
import desper

LOG = []


def flush(title):
    """Print buffered notifications sorted (order among entities is
    unspecified), then reset the buffer."""
    print(title, sorted(LOG))
    LOG.clear()


class Plain:
    def __init__(self, tag=0):
        self.tag = tag

    def __repr__(self):
        return f'Plain({self.tag!r})'


class PlainChild(Plain):
    def __repr__(self):
        return f'PlainChild({self.tag!r})'


class Left(Plain):
    pass


class Right(Plain):
    pass


class Diamond(Left, Right):
    def __repr__(self):
        return f'Diamond({self.tag!r})'


@desper.event_handler('on_add', 'on_remove', 'ping')
class Noisy:
    def __init__(self, tag):
        self.tag = tag

    def on_add(self, entity, world):
        LOG.append(('add', self.tag, repr(entity)))

    def on_remove(self, entity, world):
        LOG.append(('remove', self.tag, repr(entity),
                    world.entity_exists(entity),
                    len(world.get_components(entity))))

    def ping(self):
        LOG.append(('ping', self.tag))

    def __repr__(self):
        return f'Noisy({self.tag!r})'


@desper.event_handler('on_remove')
class Chain:
    """on_remove deletes (deferred or immediately) another entity."""

    def __init__(self, victim, immediate):
        self.victim = victim
        self.immediate = immediate

    def on_remove(self, entity, world):
        try:
            world.delete_entity(self.victim, immediate=self.immediate)
            LOG.append(('chain', repr(entity), repr(self.victim), 'ok'))
        except KeyError:
            LOG.append(('chain', repr(entity), repr(self.victim), 'KeyError'))

    def __repr__(self):
        return f'Chain({self.victim!r})'


@desper.event_handler('on_remove')
class Boom:
    def on_remove(self, entity, world):
        LOG.append(('boom', repr(entity)))
        raise RuntimeError('boom')

    def __repr__(self):
        return 'Boom()'


@desper.event_handler('on_remove')
class OnlyRemove:
    def on_remove(self, entity, world):
        LOG.append(('only_remove', repr(entity)))


class Counter(desper.Processor):
    def __init__(self):
        self.seen = []

    def process(self, dt):
        w = self.world
        self.seen.append((dt, sorted(map(repr, w.entities)),
                          sorted(repr(c) for _, c in w.get(Plain)),
                          sorted(repr(c) for _, c in w.get(Noisy))))


def snapshot(world, ids):
    out = []
    for e in ids:
        out.append((repr(e), world.entity_exists(e),
                    sorted(map(repr, world.get_components(e))),
                    world.has_component(e, Plain),
                    repr(world.get_component(e, Plain, 'dflt'))))
    print('  entities', sorted(map(repr, world.entities)))
    for row in out:
        print('  ', row)
    print('  get(Plain)', sorted((repr(e), repr(c))
                                 for e, c in world.get(Plain)))
    print('  get(Noisy)', sorted((repr(e), repr(c))
                                 for e, c in world.get(Noisy)))


def run_process(world, dt=1):
    try:
        world.process(dt)
        print('  process ok')
    except Exception as ex:
        print('  process raised', type(ex).__name__, ex)


# --- 1. basic two-step deletion -----------------------------------
print('== 1 basic')
w = desper.World()
counter = Counter()
w.add_processor(counter)
a = w.create_entity(Plain(1), Noisy('a'))
b = w.create_entity(PlainChild(2))
c = w.create_entity(Diamond(3), Noisy('c'))
flush('created')
w.delete_entity(a)
flush('after deferred delete')
snapshot(w, [a, b, c])
run_process(w, 0.5)
flush('process 1')
snapshot(w, [a, b, c])
run_process(w, 0.25)
flush('process 2')
print('  seen', counter.seen)
# identifier is free again
a2 = w.create_entity(Plain('again'), entity_id=a)
print('  reuse', a2 == a, w.entity_exists(a))
snapshot(w, [a])

# --- 2. falsy / unusual ids ---------------------------------------
print('== 2 falsy ids')
w = desper.World()
ids = [0, '', (), frozenset(), 0.5, 'x/y', ('deep', ('key', 1)), -1]
for i, e in enumerate(ids):
    w.create_entity(Plain(i), Noisy(i), entity_id=e)
flush('created')
for e in ids[::2]:
    w.delete_entity(e)
snapshot(w, ids)
run_process(w)
flush('process')
snapshot(w, ids)
run_process(w)
flush('process again')

# --- 3. histories between delete and process ----------------------
print('== 3 histories')
w = desper.World()
e1 = w.create_entity(Plain(1), Noisy('e1'))
e2 = w.create_entity(Plain(2), Noisy('e2'))
e3 = w.create_entity(Plain(3), Noisy('e3'))
e4 = w.create_entity(Plain(4), Noisy('e4'))
e5 = w.create_entity(Plain(5), Noisy('e5'))
flush('created')
for e in (e1, e2, e3, e4, e5):
    w.delete_entity(e)
# e1: components removed one by one
print('  rm', w.remove_component(e1, Plain), w.remove_component(e1, Noisy),
      w.remove_component(e1, Noisy))
# e2: deleted again (deferred)
w.delete_entity(e2)
# e3: deleted immediately
w.delete_entity(e3, immediate=True)
# e4: component replaced (stays dead), and a new one added
w.add_component(e4, Plain('replaced'))
w.add_component(e4, PlainChild('extra'))
# e5: one component removed, one remains
print('  rm', w.remove_component(e5, Noisy))
flush('histories')
snapshot(w, [e1, e2, e3, e4, e5])
run_process(w)
flush('process')
snapshot(w, [e1, e2, e3, e4, e5])
for _ in range(3):
    run_process(w)
flush('more processes')

# --- 4. errors -----------------------------------------------------
print('== 4 errors')
w = desper.World()
for immediate in (True, False):
    try:
        w.delete_entity(12345, immediate=immediate)
        print('  delete missing', immediate, 'ok')
    except Exception as ex:
        print('  delete missing', immediate, type(ex).__name__, ex.args)
run_process(w)
run_process(w)
try:
    w.delete_entity([], immediate=True)
except Exception as ex:
    print('  unhashable', type(ex).__name__)
w = desper.World()
x = w.create_entity(Plain(0))
w.delete_entity(x, immediate=True)
try:
    w.delete_entity(x, immediate=True)
except Exception as ex:
    print('  twice immediate', type(ex).__name__, ex.args)

# --- 5. dispatching disabled --------------------------------------
print('== 5 dispatch disabled')
w = desper.World()
p = w.create_entity(Noisy('p'), Plain(0), OnlyRemove())
q = w.create_entity(Noisy('q'))
flush('created')
w.dispatch_enabled = False
w.delete_entity(p)
w.delete_entity(q, immediate=True)
flush('disabled, deleted')
run_process(w)
flush('disabled, processed')
snapshot(w, [p, q])
w.dispatch('ping')
w.dispatch_enabled = True
flush('enabled')
w.dispatch('ping')
flush('ping after (handlers removed)')

# --- 6. re-entrant callbacks --------------------------------------
print('== 6 re-entrant')
for immediate in (False, True):
    w = desper.World()
    v = w.create_entity(Plain('victim'), Noisy('v'))
    k = w.create_entity(Chain(v, immediate), Noisy('k'))
    flush('created')
    w.delete_entity(k)
    run_process(w)
    flush(f'process 1 immediate={immediate}')
    snapshot(w, [v, k])
    run_process(w)
    flush('process 2')
    snapshot(w, [v, k])
    run_process(w)
    flush('process 3')

# chain onto itself, and onto an entity dead as well
# (integer ids: the order in which a set of small ints is popped does not
# depend on the hash seed, unlike strings)
w = desper.World()
s = w.create_entity(Noisy('s'), entity_id=100)
w.add_component(s, Chain(100, True))
t = w.create_entity(Chain(100, False), Noisy('t'), entity_id=101)
flush('created')
w.delete_entity(s)
w.delete_entity(t)
run_process(w)
flush('self chain')
snapshot(w, [100, 101])
run_process(w)
flush('self chain 2')
# the same, one dead entity at a time
w = desper.World()
s = w.create_entity(Noisy('s'), entity_id='self')
w.add_component(s, Chain('self', True))
w.delete_entity(s)
run_process(w)
flush('self chain alone')
t = w.create_entity(Chain('gone', False), Noisy('t'), entity_id='t')
w.delete_entity(t)
run_process(w)
flush('chain to a missing entity')
run_process(w)
run_process(w)
flush('afterwards')
snapshot(w, ['self', 't', 'gone'])

# --- 7. failing process does not poison the world -----------------
print('== 7 failing')
w = desper.World()
counter = Counter()
w.add_processor(counter)
good = w.create_entity(Plain('good'), Noisy('good'))
bad = w.create_entity(Boom(), Plain('bad'))
flush('created')
w.delete_entity(bad)
run_process(w)
flush('failing process')
snapshot(w, [good, bad])
run_process(w)
run_process(w)
flush('later')
print('  seen', counter.seen)

# --- 8. clear with pending deletions ------------------------------
print('== 8 clear')
w = desper.World()
m = w.create_entity(Plain(1), Noisy('m'))
n = w.create_entity(Plain(2), Noisy('n'))
w.delete_entity(m)
flush('created')
w.clear()
flush('cleared')
snapshot(w, [m, n])
run_process(w)
print('  new id', w.create_entity(Plain(9)))
run_process(w)

# --- 9. component value None and falsy components -----------------
print('== 9 falsy components')
w = desper.World()
z = w.create_entity(None, 0, '', (), entity_id='z')
print('  comps', sorted(map(repr, w.get_components(z))))
w.delete_entity(z)
print('  exists', w.entity_exists(z), w.entities)
print('  rm', repr(w.remove_component(z, int)),
      repr(w.remove_component(z, type(None))))
print('  comps', sorted(map(repr, w.get_components(z))))
run_process(w)
print('  comps', sorted(map(repr, w.get_components(z))), w.entity_exists(z))
y = w.create_entity(None, entity_id='y')
w.delete_entity(y)
w.remove_component(y, type(None))
print('  y', w.entity_exists(y), w.get_components(y))
run_process(w)
y = w.create_entity(0, entity_id='y')
print('  y', w.entity_exists(y), w.get_components(y))
