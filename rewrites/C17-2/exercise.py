"""Exercise ResourceMap.get_static_map and StaticResourceMap.

Prints a canonical transcript; names are visited in the (insertion) order
of the source map, which both trees share.
"""
import keyword
from collections import ChainMap

import desper
from desper import ResourceMap, Handle, StaticResourceMap


class Res(Handle):
    """Handle counting its loads; the loaded value can be falsy."""

    def __init__(self, value):
        self.value = value
        self.loads = 0

    def load(self):
        self.loads += 1
        return self.value

    def __repr__(self):
        return f'Res({self.value!r})'


def outcome(fn, *args):
    try:
        return ('ok', fn(*args))
    except Exception as ex:     # noqa
        return (type(ex).__name__, str(ex))


def same(a, b):
    """Compare two outcomes: same exception type, or identical object."""
    if a[0] != b[0]:
        return False
    if a[0] != 'ok':
        return True
    return a[1] is b[1] or (isinstance(a[1], StaticResourceMap)
                            and isinstance(b[1], (ResourceMap,
                                                  StaticResourceMap)))


def describe(value):
    if isinstance(value, frozenset):
        return repr(sorted(value))
    if isinstance(value, StaticResourceMap):
        return '<static>'
    if isinstance(value, ResourceMap):
        return '<map>'
    return repr(value)


def walk(source, static, path=''):
    """Compare map and snapshot on every name, recursively."""
    cls = type(static)
    print(f'[{path or "<root>"}]', cls.__name__, cls.__qualname__,
          'slots', cls.__slots__,
          'has dict', hasattr(static, '__dict__'),
          'isinstance', isinstance(static, StaticResourceMap),
          'handle names', sorted(object.__getattribute__(static,
                                                         '_handle_names')))
    if hasattr(static, '__dict__'):
        print('   dict keys', list(object.__getattribute__(static,
                                                           '__dict__')))
    names = list(source.handles) + list(source.maps)
    for name in names:
        item = outcome(static.__getitem__, name)
        attr = outcome(getattr, static, name)
        got = outcome(static.get, name)
        src_item = outcome(source.__getitem__, name)
        src_get = outcome(source.get, name)
        print('  ', repr(name),
              'item', item[0], describe(item[1]),
              'attr', attr[0], describe(attr[1]),
              'get', got[0], describe(got[1]),
              '| item~map', same(item, src_item),
              'attr~item', same(attr, item),
              'get is map.get', got[1] is src_get[1]
              or isinstance(got[1], StaticResourceMap))
    # absent names
    for name in ('absent', 'not there', '', '__absent', 'a/b'):
        if name in names:
            continue
        print('   absent', repr(name), outcome(static.__getitem__, name)[0],
              outcome(getattr, static, name)[0],
              outcome(static.get, name)[0], describe(source.get(name)))
    # immutability
    for name in names[:3] + ['brand_new', '_handle_names', '__dict__']:
        before = outcome(static.get, name)
        s = outcome(setattr, static, name, 1)
        d = outcome(delattr, static, name)
        after = outcome(static.get, name)
        print('   immutable', repr(name), s, d,
              'unchanged', before[0] == after[0]
              and (before[0] != 'ok' or before[1] is after[1]
                   or before[1] == after[1]))
    for name, submap in source.maps.items():
        sub = static.get(name)
        walk(submap, sub, f'{path}/{name}' if path else name)


def build(spec):
    """spec: nested dict, leaves are values to wrap in Res."""
    rmap = ResourceMap()
    for key, value in spec.items():
        if isinstance(value, dict):
            rmap[key] = build(value)
        else:
            rmap[key] = Res(value)
    return rmap


def handles_of(rmap, acc=None):
    acc = [] if acc is None else acc
    for layer in rmap.handles.maps:
        acc.extend(layer.values())
    for sub in rmap.maps.values():
        handles_of(sub, acc)
    return acc


def check(title, rmap):
    print('==', title)
    static = rmap.get_static_map()
    print('   loads before', [(h, h.loads) for h in handles_of(rmap)])
    walk(rmap, static)
    print('   loads after', [(h, h.loads) for h in handles_of(rmap)])
    # a second snapshot is a distinct object of a distinct class
    again = rmap.get_static_map()
    print('   distinct', again is not static, type(again) is not type(static))
    return static


# 1. empty map
check('empty', ResourceMap())

# 2. identifiers only, falsy resources
check('identifiers', build({'a': 0, 'b': '', 'c': None, 'd': [], 'e': False,
                            'f': 1.5}))

# 3. names that are not identifiers
check('non identifiers', build({'a b': 1, '1x': 2, 'x.y': 3, 'x-y': 4,
                                'ok': 5, 'é': 6, 'naïve_name': 7,
                                ' ': 8, '𝓍': 9}))

# 4. keywords, dunder and private-looking names
check('special names', build({'class': 1, 'for': 2, 'None': 3, '_single': 4,
                              '__private': 5, '__dunder__': 6, '__': 7,
                              '___': 8, '_': 9, '__x_': 10, 'match': 11,
                              'sub': {'__inner': 1, 'plain': 2,
                                      '__deep': {'__deeper': {'x': 0}}}}))
print('   keywords', [k for k in ('class', 'for', 'None', 'match')
                      if keyword.iskeyword(k)])

# 5. deep and wide trees, composite keys
deep = ResourceMap()
deep['a/b/c/d/e/f/g/h'] = Res('bottom')
deep['a/b/c/x'] = Res('x')
deep['a/b/sibling/y y'] = Res('yy')
deep['a/top'] = Res('top')
deep['z'] = ResourceMap()
deep['z/empty'] = ResourceMap()
static = check('deep', deep)
print('   chain attr', static.a.b.c.d.e.f.g.h, static.a.b.c.x, static.a.top)
print('   chain item', static['a']['b']['c']['d']['e']['f']['g']['h'],
      static['a']['b']['sibling']['y y'])
print('   chain get', static.get('a').get('b').get('c').get('x')
      is deep.get('a/b/c/x'))
print('   composite on static', outcome(static.__getitem__, 'a/b')[0],
      outcome(static.get, 'a/b')[0])

# 6. layered handles (ChainMap children), shadowing
layered = build({'shared': 'base', 'only_base': 'ob', 'sub': {'k': 'base k'}})
layered.handles = layered.handles.new_child()
layered['shared'] = Res('override')
layered['only_top'] = Res('ot')
layered['not ident'] = Res('ni')
layered.handles = layered.handles.new_child()
layered['shared'] = Res('override 2')
sub = layered.get('sub')
sub.handles = sub.handles.new_child({'k': Res('top k'), 'k 2': Res('top k2')})
static = check('layered', layered)
print('   values', static.shared, static.only_base, static.only_top,
      static['not ident'], static.sub.k, static.sub['k 2'])
# the snapshot is not affected by later changes of the map
layered['later'] = Res('later')
layered['shared'] = Res('override 3')
del layered.handles.maps[1]['only_top']
layered.get('sub').clear()
print('   after changes', static.shared, static.only_top, static.sub.k,
      outcome(getattr, static, 'later')[0], layered['shared'],
      sorted(layered.get('sub').handles))

# 7. handle replaced by map and map by handle before the snapshot
mixed = ResourceMap()
mixed['n'] = Res('handle first')
mixed['n/inner'] = Res('now a map')
mixed['m/inner'] = Res('map first')
mixed['m'] = Res('now a handle')
check('mixed', mixed)

# 8. cached / cleared handles are loaded lazily through the snapshot
lazy = build({'one': 1, 'two': 2, 'sub': {'three': 3}})
static = lazy.get_static_map()
hs = handles_of(lazy)
print('== lazy')
print('   loads', [h.loads for h in hs], [h.cached for h in hs])
print('   access', static.one, static.one, static['two'], static.sub.three)
print('   loads', [h.loads for h in hs], [h.cached for h in hs])
for h in hs:
    h.clear()
print('   access', static.one, static.get('two')(), static.sub['three'])
print('   loads', [h.loads for h in hs], [h.cached for h in hs])

# 9. the global default map
desper.resource_map['global/res'] = Res('g')
print('== global', desper.resource_map.get_static_map()['global'].res)

# 10. attribute protocol of snapshots and of hand-made static maps
print('== attribute protocol')


class HandMade(StaticResourceMap):
    __slots__ = ('h', 'plain', 'unset', 'lying')

    def __init__(self, handle, plain):
        super().__init__()
        object.__setattr__(self, 'h', handle)
        object.__setattr__(self, 'plain', plain)
        # 'lying' is declared a handle but holds a non callable,
        # 'ghost' is declared a handle but does not exist
        object.__setattr__(self, 'lying', 3)
        object.__setattr__(self, '_handle_names',
                           frozenset(['h', 'lying', 'ghost', 'unset']))

    def method(self):
        return 'method result'


res = Res('hand made')
hm = HandMade(res, 'plain value')
for name in ('h', 'plain', 'unset', 'lying', 'ghost', 'missing', 'method',
             'get', '__class__', '__slots__', '_handle_names', '__doc__',
             '__init__', '__dict__', '__weakref__'):
    attr = outcome(getattr, hm, name)
    item = outcome(hm.__getitem__, name)
    got = outcome(hm.get, name)
    print('  ', name, attr[0], item[0], got[0],
          describe(attr[1]) if name in ('h', 'plain', '_handle_names')
          else '', 'loads', res.loads)
print('   method', hm.method(), hm.get('h') is res, getattr(hm, 'h', 'dflt'),
      getattr(hm, 'ghost', 'dflt'), getattr(hm, 'unset', 'dflt'),
      hasattr(hm, 'missing'), hasattr(hm, 'h'))
base = StaticResourceMap()
print('   base', outcome(getattr, base, 'x')[0], outcome(base.get, 'x')[0],
      outcome(base.__getitem__, 'x')[0], outcome(setattr, base, 'x', 1),
      outcome(delattr, base, '_handle_names'),
      sorted(object.__getattribute__(base, '_handle_names')))


class RaisingHandle(Handle):
    def load(self):
        raise OSError('cannot load resource')


class AttrErrorHandle(Handle):
    def load(self):
        raise AttributeError('raised by load')


failing = ResourceMap()
failing['bad'] = RaisingHandle()
failing['worse'] = AttrErrorHandle()
failing['fine'] = Res('fine')
failing['sub/bad one'] = RaisingHandle()
static = failing.get_static_map()
print('   failing', outcome(getattr, static, 'bad'),
      outcome(static.__getitem__, 'bad'), outcome(static.get, 'bad')[0],
      outcome(getattr, static, 'worse'),
      getattr(static, 'worse', 'default used'),
      hasattr(static, 'worse'),
      outcome(static.sub.__getitem__, 'bad one'), static.fine)
# snapshot of a snapshot's source after clear(): empty, old one intact
old = failing.get_static_map()
failing.clear()
new = failing.get_static_map()
print('   cleared', type(new).__slots__, outcome(getattr, new, 'fine')[0],
      old.fine, outcome(old.sub.get, 'bad one')[0])
# many names: frozenset of handle names equals the map's
big = ResourceMap()
for i in range(200):
    big[f'n{i}' if i % 3 else f'n {i}'] = Res(i) if i % 2 else ResourceMap()
static = big.get_static_map()
names = object.__getattribute__(static, '_handle_names')
print('   big', len(names), names == frozenset(big.handles),
      sum(static[n] for n in sorted(names)),
      all(isinstance(static[k], StaticResourceMap) for k in big.maps),
      all(static.get(n) is big.get(n) for n in names))
