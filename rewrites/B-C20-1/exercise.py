"""Exercise Transform2D / Transform3D setters and their events.

Canonical transcript: when several listeners receive the same event
the order in which they are served is unspecified, so the lines logged
during one assignment are sorted. Floats are printed with float.hex.
"""
from fractions import Fraction

import desper
from desper import Transform2D, Transform3D
from desper.math import Vec2, Vec3

LOG = []


def fmt(value):
    if isinstance(value, float):
        return '%r[%s]' % (value, value.hex())
    if isinstance(value, (tuple, list)):
        return '%s(%s)' % (type(value).__name__,
                           ', '.join(fmt(v) for v in value))
    return '%s:%r' % (type(value).__name__, value)


def flush(title, sort=True):
    print('--', title)
    for line in (sorted(LOG) if sort else LOG):
        print('   ', line)
    LOG.clear()


@desper.event_handler('on_position_change', 'on_rotation_change',
                      'on_scale_change')
class Listener:
    def __init__(self, name, transform=None):
        self.name = name
        self.transform = transform

    def check(self, attribute, value):
        if self.transform is None:
            return ''
        return ' same-as-read=%s' % (getattr(self.transform, attribute)
                                     is value)

    def on_position_change(self, value):
        LOG.append('%s position %s%s' % (self.name, fmt(value),
                                         self.check('position', value)))

    def on_rotation_change(self, value):
        LOG.append('%s rotation %s%s' % (self.name, fmt(value),
                                         self.check('rotation', value)))

    def on_scale_change(self, value):
        LOG.append('%s scale %s%s' % (self.name, fmt(value),
                                      self.check('scale', value)))


@desper.event_handler('on_rotation_change')
class RotationOnly:
    def __init__(self, name):
        self.name = name

    def on_rotation_change(self, value):
        LOG.append('%s rotation-only %s' % (self.name, fmt(value)))


def read(transform):
    return 'position=%s rotation=%s scale=%s' % (
        fmt(transform.position), fmt(transform.rotation),
        fmt(transform.scale))


def assign(transform, attribute, value, title=None):
    try:
        setattr(transform, attribute, value)
        stored = getattr(transform, attribute)
        LOG.append('~ read back %s%s' % (
            fmt(stored), ' (same object)' if stored is value else ''))
    except Exception as exc:
        LOG.append('~ raised %s: %s' % (type(exc).__name__, exc))
    flush(title or '%s.%s = %s' % (type(transform).__name__, attribute,
                                   fmt(value)))


# 1. construction and defaults -----------------------------------------------------
t1, t2 = Transform2D(), Transform2D()
u1, u2 = Transform3D(), Transform3D()
print('-- defaults')
print('   ', read(t1))
print('   ', read(u1))
print('    shared position objects:', t1.position is t2.position,
      u1.position is u2.position, u1.rotation is u2.rotation)
for args in (((1, 2), -90, [3, 4]), (Vec2(0.5, -0.5), 725.25, Vec2(2, 2)),
             ((0, 0), 360, (1, 1)), ((0, 0), -0.0, (1, 1)),
             (iter((7, 8)), Fraction(-1, 3), range(2)),
             ((1, 2), float('inf'), (1, 1)), ((1, 2), True, (1, 1))):
    print('    Transform2D ->', read(Transform2D(*args)))
for args in (((1, 2, 3), (-90, 400, 0.5), [3, 4, 5]),
             (Vec3(1, 1, 1), Vec3(), iter((1, 2, 3)))):
    print('    Transform3D ->', read(Transform3D(*args)))
for bad in (lambda: Transform2D((1, 2, 3)), lambda: Transform2D(rotation='x'),
            lambda: Transform3D(scale=5), lambda: Transform2D(None)):
    try:
        print('    bad ->', read(bad()))
    except Exception as exc:
        print('    bad -> raised', type(exc).__name__)
kw = Transform2D(scale=(2, 3), rotation=-1)
print('    keywords ->', read(kw))

# 2. one transform, several listeners ---------------------------------------------
t = Transform2D()
listeners = [Listener('l%d' % i, t) for i in range(3)] + [RotationOnly('r')]
for listener in listeners:
    t.add_handler(listener)
for rotation in (0, 0.0, -0.0, 90, 360, 360.0, -360, 720.5, -0.5, -1e-20,
                 1e-320, 359.99999999999994, 360 - 1e-14, 1e300, -1e300,
                 12345678.9, float('inf'), float('nan'), True,
                 Fraction(721, 2), -725, 2 ** 70):
    assign(t, 'rotation', rotation)
for position in (Vec2(1, 2), (3, 4), [5, 6], None, 0, 'text', Vec2()):
    assign(t, 'position', position)
for scale in (Vec2(2, 2), (0, 0), (-1, 1.5), None):
    assign(t, 'scale', scale)
assign(t, 'rotation', 'ninety')
assign(t, 'rotation', None)
assign(t, 'rotation', [1])
print('    finally', read(t))

# 3. 3D: rotation is a vector, stored as given -----------------------------------
u = Transform3D()
for listener in (Listener('m0', u), Listener('m1', u)):
    listeners.append(listener)
    u.add_handler(listener)
for rotation in (Vec3(0, 400, -90), (1, 2, 3), 725.0, None):
    assign(u, 'rotation', rotation)
assign(u, 'position', Vec3(1, 2, 3))
assign(u, 'scale', [9, 9, 9])
print('    finally', read(u))

# 4. several transforms, listeners only hear their own -------------------------
a, b = Transform2D(), Transform2D()
la, lb, lab = Listener('only-a', a), Listener('only-b', b), Listener('both')
a.add_handler(la)
b.add_handler(lb)
a.add_handler(lab)
b.add_handler(lab)
assign(a, 'rotation', 450)
assign(b, 'rotation', -450)
assign(b, 'position', (1, 1))
a.remove_handler(lab)
assign(a, 'scale', (5, 5))
a.remove_handler(la)
assign(a, 'scale', (6, 6), 'nobody listens to a any more')
del lb
assign(b, 'rotation', 1, 'listener of b garbage collected')
print('    a:', read(a))
print('    b:', read(b))

# 5. re-entrant and raising listeners ---------------------------------------------
c = Transform2D()


@desper.event_handler('on_rotation_change', 'on_position_change')
class Clamp:
    """Re-assigns from inside the callback."""

    def on_rotation_change(self, value):
        LOG.append('clamp sees %s, reads %s' % (fmt(value), fmt(c.rotation)))
        if value > 180:
            c.rotation = value / 2 - 400
        LOG.append('clamp done with %s, reads %s' % (fmt(value),
                                                     fmt(c.rotation)))

    def on_position_change(self, value):
        LOG.append('clamp position %s' % fmt(value))
        if value != (0, 0):
            c.scale = value
            c.position = (0, 0)


@desper.event_handler('on_scale_change')
class Fragile:
    def on_scale_change(self, value):
        LOG.append('fragile scale %s' % fmt(value))
        if value[0] < 0:
            raise ValueError('negative scale')


clamp, fragile = Clamp(), Fragile()
c.add_handler(clamp)
c.add_handler(fragile)
for value in (270, 90, 539.5, -90):
    c.rotation = value
    LOG.append('~ read back %s' % fmt(c.rotation))
    flush('re-entrant rotation %r' % value, sort=False)
c.position = (3, 4)
LOG.append('~ ' + read(c))
flush('re-entrant position', sort=False)
assign(c, 'scale', (-1, 1), 'raising listener: value is stored anyway')
print('    finally', read(c))
try:
    c.position = (-2, 2)
except ValueError as exc:
    LOG.append('~ raised ValueError: %s' % exc)
LOG.append('~ ' + read(c))
flush('position -> scale raises inside nested callback', sort=False)

# 6. disabled dispatching: events are kept and released in order ------------
d = Transform2D()
ld = Listener('d')
d.add_handler(ld)
d.dispatch_enabled = False
d.rotation = 370
d.position = (1, 1)
d.rotation = -10
d.scale = (2, 2)
d.rotation = 725
LOG.append('~ while disabled: ' + read(d))
flush('disabled', sort=False)
d.dispatch_enabled = True
flush('released in order', sort=False)
d.clear()
d.rotation = 5
LOG.append('~ after clear: ' + read(d))
flush('cleared dispatcher notifies nobody', sort=False)

# 7. inside a world -----------------------------------------------------------------
world = desper.World()
tw = Transform2D((1, 1), 45)
lw = Listener('w', tw)
entity = world.create_entity(tw, lw)
tw.add_handler(lw)
tw.rotation -= 90
tw.position = tw.position + Vec2(1, 1)
LOG.append('~ ' + read(world.get_component(entity, Transform2D)))
flush('component of a world', sort=False)
