"""Exercise Handle caching through every access path (handle call, [] on
enclosing maps, static maps, the loop) and print a canonical transcript."""
import random

import desper


class Weird:
    """Never equal to anything (itself included), falsy, unhashable."""

    def __eq__(self, other):
        return False

    def __ne__(self, other):
        return True

    def __bool__(self):
        return False

    __hash__ = None

    def __repr__(self):
        return 'Weird()'


class Grumpy:
    """Truth value and comparison are errors."""

    def __bool__(self):
        raise RuntimeError('no truth value')

    def __eq__(self, other):
        raise RuntimeError('no comparison')

    __hash__ = object.__hash__

    def __repr__(self):
        return 'Grumpy()'


class AlwaysEqual:
    def __eq__(self, other):
        return True

    __hash__ = object.__hash__

    def __len__(self):
        return 0

    def __repr__(self):
        return 'AlwaysEqual()'


class Counting(desper.Handle):
    """Handle building a brand new value at every load."""

    def __init__(self, name, factory):
        self.name = name
        self.factory = factory
        self.loads = 0

    def load(self):
        self.loads += 1
        return self.factory()


class Flaky(desper.Handle):
    """Fails the first `failures` loads."""

    def __init__(self, failures, error):
        self.failures = failures
        self.error = error
        self.loads = 0

    def load(self):
        self.loads += 1
        if self.loads <= self.failures:
            raise self.error('load %d failed' % self.loads)
        return ['loaded at attempt', self.loads]


class Plain(desper.Handle):
    """load() not overridden: the resource is None."""


FACTORIES = [
    ('none', lambda: None), ('zero', lambda: 0), ('false', lambda: False),
    ('empty_str', lambda: ''), ('empty_list', list), ('empty_dict', dict),
    ('empty_tuple', tuple), ('nan', lambda: float('nan')),
    ('zero_float', lambda: 0.0), ('weird', Weird), ('grumpy', Grumpy),
    ('always_equal', AlwaysEqual), ('object', object),
    ('big_int', lambda: 10 ** 30), ('handle', lambda: Plain()),
    ('callable', lambda: (lambda: 'not called')),
]


def show(label, fn):
    try:
        value = fn()
    except Exception as ex:
        print(label, 'raised', type(ex).__name__, ex)
        return None
    print(label, '->', type(value).__name__)
    return value


def build():
    root = desper.ResourceMap()
    handles = {}
    for i, (name, factory) in enumerate(FACTORIES):
        h = Counting(name, factory)
        handles[name] = h
        if i % 3 == 0:
            root[name] = h
            path = name
        elif i % 3 == 1:
            root[f'sub/{name}'] = h
            path = f'sub/{name}'
        else:
            root[f'sub/deep/er/{name}'] = h
            path = f'sub/deep/er/{name}'
        h.path = path
    return root, handles


def paths(root, static, h):
    """All the ways to reach the resource of handle h."""
    keys = h.path.split('/')
    ways = [
        ('call', lambda: h()),
        ('root[path]', lambda: root[h.path]),
        ('get()()', lambda: root.get(h.path)()),
        ('parent[key]', lambda: h.parent[h.key]),
    ]

    def chained():
        value = root
        for k in keys:
            value = value[k]
        return value

    def static_attr():
        value = static
        for k in keys:
            value = getattr(value, k)
        return value

    def static_item():
        value = static
        for k in keys:
            value = value[k]
        return value

    def static_mixed():
        value = static
        for k in keys[:-1]:
            value = value.get(k)
        return value[keys[-1]]

    def static_get_call():
        value = static
        for k in keys:
            value = value.get(k)
        return value()
    ways += [('chained []', chained), ('static attr', static_attr),
             ('static []', static_item), ('static mixed', static_mixed),
             ('static get()()', static_get_call)]
    return ways


def scenario_all_paths():
    root, handles = build()
    static = root.get_static_map()
    for name, h in handles.items():
        print(f'=== {name} at {h.path}')
        print('cached before', h.cached, 'loads', h.loads)
        ways = paths(root, static, h)
        for first_index in range(len(ways)):
            h.clear()
            before = h.loads
            print(' cleared: cached', h.cached)
            first_label, first_way = ways[first_index]
            first = first_way()
            print(f' first via {first_label}: loads +{h.loads - before}',
                  'cached', h.cached, type(first).__name__)
            same = [label for label, way in ways if way() is first]
            print(f' identical via {len(same)}/{len(ways)} paths,',
                  f'loads +{h.loads - before}', 'cached', h.cached)
            # get() of the handle itself never loads
            assert root.get(h.path) is h
        h.clear()
        h.clear()                       # clearing twice is fine
        print('cleared twice: cached', h.cached, 'loads', h.loads)
        fresh = h()
        print('fresh object after clear', fresh is not first
              or name in ('none', 'zero', 'false', 'empty_str',
                          'empty_tuple', 'zero_float', 'big_int'),
              'loads', h.loads)


def scenario_random(seed):
    rng = random.Random(seed)
    root, handles = build()
    static = root.get_static_map()
    names = sorted(handles)
    current = {}
    for step in range(400):
        name = rng.choice(names)
        h = handles[name]
        if rng.random() < 0.2:
            h.clear()
            current.pop(name, None)
            assert h.cached is False
            continue
        ways = paths(root, static, h)
        label, way = rng.choice(ways)
        before, was_cached = h.loads, h.cached
        value = way()
        loaded = h.loads - before
        assert loaded == (0 if was_cached else 1), (name, label)
        assert was_cached == (name in current)
        if name in current:
            assert value is current[name], (name, label)
        current[name] = value
        assert h.cached is True
    print(f'random {seed}: loads',
          [(n, handles[n].loads, handles[n].cached) for n in names])


def scenario_failures():
    root = desper.ResourceMap()
    root['a/flaky'] = Flaky(2, KeyError)
    root['a/flaky2'] = Flaky(1, AttributeError)
    root['plain'] = Plain()
    static = root.get_static_map()
    h = root.get('a/flaky')
    show('flaky call', h)
    print(' cached', h.cached, 'loads', h.loads)
    show('flaky []', lambda: root['a/flaky'])
    print(' cached', h.cached, 'loads', h.loads)
    v1 = show('flaky static', lambda: static.a.flaky)
    print(' cached', h.cached, 'loads', h.loads)
    v2 = show('flaky again', lambda: root['a']['flaky'])
    print(' same', v1 is v2, v1, 'loads', h.loads)
    h2 = root.get('a/flaky2')
    show('flaky2 static attr', lambda: static.a.flaky2)
    print(' cached', h2.cached, 'loads', h2.loads)
    show('flaky2 static item', lambda: static['a']['flaky2'])
    print(' cached', h2.cached, 'loads', h2.loads)
    p = root.get('plain')
    print('plain', p.cached, p(), p.cached, root['plain'], static.plain,
          static['plain'], p.cached)
    p.clear()
    print('plain cleared', p.cached, static.plain, p.cached)
    # lookups that fail do not load anything
    show('missing []', lambda: root['a/nothing'])
    show('missing deep []', lambda: root['x/y/z'])
    show('missing through handle', lambda: root['plain/child'])
    print('missing get', root.get('a/nothing'), root.get('x/y/z', 'dflt'),
          root.get('plain/child', 'dflt'))
    show('missing static attr', lambda: static.nothing)
    show('missing static item', lambda: static['nothing'])
    show('static set', lambda: setattr(static, 'plain', 1))
    show('static del', lambda: delattr(static, 'plain'))
    print('loads', h.loads, h2.loads)
    # keys that are not identifiers live in the static map's dict
    root['1 odd key!'] = Counting('odd', lambda: [])
    root['__private'] = Counting('private', lambda: {})
    root['__dunder__'] = Counting('dunder', lambda: set())
    static = root.get_static_map()
    for key in ('1 odd key!', '__private', '__dunder__'):
        hh = root.get(key)
        a = static[key]
        b = getattr(static, key)
        c = root[key]
        print('odd key', repr(key), a is b is c is hh(), hh.loads, hh.cached,
              static.get(key) is hh)


def scenario_replacement():
    """Replacing or re-parenting handles does not mix the caches up."""
    root = desper.ResourceMap()
    h1 = Counting('one', lambda: ['one'])
    h2 = Counting('two', lambda: ['two'])
    root['k'] = h1
    a = root['k']
    root['k'] = h2
    b = root['k']
    print('replaced', a, b, h1.cached, h2.cached, h1.loads, h2.loads,
          root.get('k') is h2, h1() is a)
    other = desper.ResourceMap()
    other['deep/k'] = h1
    print('shared handle', other['deep/k'] is a, other['deep']['k'] is a,
          h1.loads, h1.key, h1.parent is other.get('deep'))
    other.get('deep').clear()
    print('map cleared', h1.cached, h1() is a, h1.parent, h1.key, h1.loads)
    root['k/child'] = Counting('child', lambda: 'child')   # k becomes a map
    print('handle shadowed by map', type(root['k']).__name__,
          root['k/child'], h2.cached, h2() is b, h2.loads)
    # split_char
    root2 = desper.ResourceMap()
    hh = Counting('dotted', lambda: 0)
    root2['x/y'] = hh
    desper.ResourceMap.split_char = '.'
    try:
        print('split char', root2['x.y'] is root2['x']['y'], hh.loads,
              root2.get('x/y'), root2.get('x.y') is hh)
    finally:
        desper.ResourceMap.split_char = '/'
    print('split char restored', root2['x/y'], hh.loads)


class WorldHandle(desper.Handle):
    def __init__(self):
        self.loads = 0

    def load(self):
        self.loads += 1
        return desper.World()


def scenario_loop():
    loop = desper.SimpleLoop()
    h1, h2 = WorldHandle(), WorldHandle()
    loop.switch(h1)
    w1 = loop.current_world
    print('switch 1', w1 is h1(), h1.loads, h1.cached, h2.cached)
    loop.switch(h2)
    w2 = loop.current_world
    print('switch 2', w2 is h2(), h1.cached, h1() is w1, h1.loads, h2.loads)
    loop.switch(h1, clear_current=True)
    print('switch 1 clear current', loop.current_world is w1, h2.cached,
          h1.loads, h2.loads)
    loop.switch(h2)
    print('switch 2 reloaded', loop.current_world is not w2,
          loop.current_world is h2(), h2.loads)
    loop.switch(h1, clear_next=True)
    print('switch 1 clear next', loop.current_world is not w1,
          loop.current_world is h1(), h1.loads, h2.cached)
    loop.switch(h1, clear_current=True, clear_next=True)
    print('switch self clear both', loop.current_world is h1(), h1.loads,
          loop.current_world_handle is h1)
    loop.switch(h1)
    print('switch self', loop.current_world is h1(), h1.loads)


scenario_all_paths()
for seed in (1, 2, 3):
    scenario_random(seed)
scenario_failures()
scenario_replacement()
scenario_loop()
