"""Exercise CoroutineProcessor scheduling (C08) through the public API."""
from fractions import Fraction

import desper

LOG = []
FRAME = [0]


def log(*items):
    LOG.append(' '.join(str(i) for i in items))


def script(name, yields, result=None):
    """Coroutine yielding the given values, logging every step."""
    for step, value in enumerate(yields):
        log(f'  f{FRAME[0]} {name} step{step} yields {value!r}')
        if value == 'bare':
            yield
        else:
            yield value
    log(f'  f{FRAME[0]} {name} returns {result!r}')
    return result


def run(proc, dts, promises=()):
    for dt in dts:
        FRAME[0] += 1
        log(f' frame {FRAME[0]} dt={dt!r}')
        proc.process(dt)
        for name, promise in promises:
            log(f'  state {name} {promise.state.name} value={promise.value!r}')


def fresh():
    FRAME[0] = 0
    return desper.CoroutineProcessor()


log('== 1 round robin order, bare/zero/negative/None yields')
p = fresh()
ps = [(n, p.start(script(n, y, r))) for n, y, r in [
    ('a', ['bare', 0, -1, None, 0.0, -0.5], 'ra'),
    ('b', [None], 0),
    ('c', [0, 0, 0], ''),
    ('d', [], None),
    ('e', [False, 'bare', 0], [])]]
run(p, [1, 0, 0.5, 1, 2, 1, 1, 1], ps)

log('== 2 waits wake exactly on time, mixed with others')
p = fresh()
ps = [(n, p.start(script(n, y, n.upper()))) for n, y in [
    ('w3', [3, 'bare', 1]),
    ('w1', [1, 1, 1, 1]),
    ('w2', [2, 0.5, 0.25]),
    ('run', ['bare'] * 7),
    ('whalf', [0.5, 0.5, 2.5]),
    ('wtrue', [True, 4]),
    ('wfrac', [Fraction(3, 2), Fraction(1, 4)])]]
run(p, [1, 0.5, 0.5, 0, 1, 0.25, 0.25, 0.5, 2, 0, 1, 8], ps)

log('== 3 zero dt never wakes early, equal wake times keep heap order')
p = fresh()
ps = [(n, p.start(script(n, y))) for n, y in [
    ('x1', [2, 2]), ('x2', [2, 1]), ('x3', [2, 3]), ('x4', [1, 1]),
    ('x5', [2]), ('x6', [4]), ('x7', [2, 2, 2])]]
run(p, [0, 0, 1, 0, 1, 0, 1, 1, 1, 1, 1, 1], ps)

log('== 4 timer resets when nobody waits, late starters')
p = fresh()
p1 = p.start(script('t1', [2]))
run(p, [1, 1, 1, 5, 5], [('t1', p1)])
p2 = p.start(script('t2', [3, 'bare', 3]))
p3 = p.start(script('t3', ['bare', 'bare', 5]))
run(p, [1, 1, 1, 1, 1, 1, 1, 1, 1], [('t2', p2), ('t3', p3)])

log('== 5 kill active, kill paused, restart killed, double kill')
p = fresh()
g1 = script('k1', ['bare'] * 6)
g2 = script('k2', [2, 2, 2])
g3 = script('k3', ['bare', 3, 'bare'])
g4 = script('k4', [1, 1, 1, 1])
pr = [('k1', p.start(g1)), ('k2', p.start(g2)), ('k3', p.start(g3)),
      ('k4', p.start(g4))]
run(p, [1], pr)
pr[0][1].kill()
p.kill(g2)
for g in (g1, g2):
    try:
        p.kill(g)
    except ValueError as err:
        log('  double kill', err)
run(p, [1], pr)
log('  restart k1 (dropped) and k2 (still recorded as waiting)')
pr[0] = ('k1', p.start(g1))
pr[1] = ('k2', p.start(g2))
run(p, [1, 1], pr)
p.kill(g3)
log('  kill then restart before any process')
pr[2] = ('k3', p.start(g3))
p.kill(g4)
pr[3] = ('k4', p.start(g4))
run(p, [1, 1, 1, 1, 1, 1, 1], pr)
try:
    p.start(script('dup', []).__class__)
except TypeError as err:
    log('  type error', err)
try:
    p.kill(script('never', []))
except ValueError as err:
    log('  never started', err)

log('== 6 re-entrant: coroutines start/kill others and themselves')
p = fresh()
children = {}


def parent():
    log(f'  f{FRAME[0]} parent starts child1')
    children['c1'] = p.start(script('child1', ['bare', 2, 'bare']))
    yield
    log(f'  f{FRAME[0]} parent starts child2, waits 2')
    children['c2'] = p.start(script('child2', [1, 'bare', 'bare', 'bare']))
    yield 2
    log(f'  f{FRAME[0]} parent kills child2: {children["c2"].state.name}')
    children['c2'].kill()
    yield
    log(f'  f{FRAME[0]} parent done')
    return 'parent result'


def suicidal(me):
    yield
    log(f'  f{FRAME[0]} suicidal kills itself and returns')
    me[0].kill()
    return 'dead'


def suicidal_then_yield(me):
    yield 1
    log(f'  f{FRAME[0]} suicidal2 kills itself and yields')
    me[0].kill()
    yield
    log('  NEVER REACHED')


me, me2 = [], []
pp = p.start(parent())
me.append(p.start(suicidal(me)))
me2.append(p.start(suicidal_then_yield(me2)))
bystander = p.start(script('bystander', ['bare'] * 8))
run(p, [1, 1, 1, 1, 1, 1, 1, 1],
    [('parent', pp), ('suicidal', me[0]), ('suicidal2', me2[0]),
     ('bystander', bystander)])
for name, promise in sorted(children.items()):
    log(f'  {name} {promise.state.name} {promise.value!r}')

log('== 7 inside a world, decorator, processors with priority')
world = desper.World()
proc = desper.CoroutineProcessor()
world.add_processor(proc)


@desper.coroutine
def decorated(tag, world=None):
    log(f'  f{FRAME[0]} {tag} first')
    got = yield 1.5
    log(f'  f{FRAME[0]} {tag} second {got!r}')
    yield
    return tag * 2


FRAME[0] = 0
d1 = decorated('d1', world=world)
d2 = decorated(tag='d2', world=world)
for dt in [1, 0.25, 0.25, 1, 1]:
    FRAME[0] += 1
    log(f' frame {FRAME[0]} dt={dt!r}')
    world.process(dt)
    log(f'  d1 {d1.state.name} {d1.value!r} d2 {d2.state.name} {d2.value!r}')
log('  processor', d1.processor is proc, d1.generator is not d2.generator)

log('== 8 many coroutines, deterministic pseudo-random schedule')
p = fresh()
seed = 12345
ps = []


def rnd(n):
    global seed
    seed = (seed * 1103515245 + 12345) % (2 ** 31)
    return (seed >> 8) % n


for i in range(12):
    ys = [[None, 0, 0.25, 0.5, 1, 2, 3, -2][rnd(8)]
          for _ in range(rnd(6))]
    ps.append((f'r{i}', p.start(script(f'r{i}', ys, i))))
run(p, [[0, 0.25, 0.5, 1, 2][rnd(5)] for _ in range(25)])
for name, promise in ps:
    log(f'  {name} {promise.state.name} {promise.value!r}')

print('\n'.join(LOG))
