"""Exercise static resource maps through the public API only."""
import desper

LOADS = []


class Res(desper.Handle):
    def __init__(self, value, hook=None):
        self.value = value
        self.hook = hook
        self.loads = 0

    def load(self):
        self.loads += 1
        LOADS.append(repr(self.value))
        if self.hook is not None:
            self.hook(self)
        return self.value


class LoggingMap(desper.ResourceMap):
    """User subclass: sees every request for a static map."""

    def get_static_map(self):
        print('      (static map requested for %r)' % (self.key,))
        return super().get_static_map()


def paths_of(resource_map, prefix=()):
    """All (path, is_handle) of a map, walking layers and submaps."""
    for key in resource_map.handles:
        yield prefix + (key,), True
    for key, submap in resource_map.maps.items():
        yield prefix + (key,), False
        yield from paths_of(submap, prefix + (key,))


def attempt(label, function):
    try:
        result = function()
    except Exception as ex:
        print('   %s -> raised %s' % (label, type(ex).__name__))
    else:
        print('   %s -> %r' % (label, result))


def describe(static):
    cls = type(static)
    return (cls.__name__, isinstance(static, desper.StaticResourceMap),
            cls.__slots__, hasattr(static, '__dict__'))


def mirror_check(title, resource_map):
    print('=====', title)
    static = resource_map.get_static_map()
    print('   root', describe(static))
    for path, is_handle in sorted(paths_of(resource_map)):
        node_map, node_static = resource_map, static
        for key in path[:-1]:
            node_map = node_map.maps[key]
            node_static = node_static.get(key)
        key = path[-1]
        line = ['/'.join(path) if all(path) else repr(path)]
        if is_handle:
            handle = node_map.get(key)
            before = handle.loads
            same_handle = node_static.get(key) is handle
            value = node_static[key]
            line += ['handle', same_handle, repr(value),
                     value is node_map[key], 'loads %d->%d' % (before,
                                                               handle.loads)]
            if key.isidentifier():
                line.append(getattr(node_static, key) is value)
            # walking item by item from the root
            walked = static
            for step in path:
                walked = walked[step]
            line.append(walked is value)
        else:
            sub = node_static.get(key)
            line += ['map', describe(sub), sub is node_static[key],
                     sub is node_static.get(key)]
            if key.isidentifier():
                line.append(getattr(node_static, key) is sub)
        print('  ', *line)
    return static


def immutability_check(static, names, absent):
    for name in names:
        before = static.get(name)
        attempt('set %r' % name, lambda: setattr(static, name, 1))
        attempt('del %r' % name, lambda: delattr(static, name))
        print('   unchanged', static.get(name) is before)
    for name in absent:
        attempt('set absent %r' % name, lambda: setattr(static, name, 1))
        attempt('del absent %r' % name, lambda: delattr(static, name))
        attempt('getattr absent %r' % name, lambda: getattr(static, name))
        attempt('item absent %r' % name, lambda: static[name])
        attempt('get absent %r' % name, lambda: static.get(name))
    attempt('set _handle_names', lambda: setattr(static, '_handle_names', ()))
    attempt('del _handle_names', lambda: delattr(static, '_handle_names'))


# 1. empty map ----------------------------------------------------------------
empty = desper.ResourceMap()
static = mirror_check('1 empty', empty)
immutability_check(static, [], ['x', 'not an identifier', ''])

# 2. flat, identifiers only, falsy resources -------------------------------------
flat = desper.ResourceMap()
for key, value in [('zero', 0), ('empty', ''), ('nothing', None),
                   ('lst', []), ('true', True), ('obj', object)]:
    flat[key] = Res(value)
static = mirror_check('2 flat identifiers, falsy values', flat)
immutability_check(static, ['zero', 'nothing'], ['missing'])
print('   loads', LOADS)
LOADS.clear()

# 3. deep tree -----------------------------------------------------------------
deep = desper.ResourceMap()
deep['a/b/c/d/e/f/leaf'] = Res('deep leaf')
deep['a/b/side'] = Res('side')
deep['a/b/c/other'] = Res(('tuple', 1))
deep['top'] = Res('top')
deep['a/empty'] = desper.ResourceMap()
static = mirror_check('3 deep', deep)
print('   chained', static.a.b.c.d.e.f.leaf, static['a']['b']['c'].other,
      static.a['b'].get('c').d['e'].f.get('leaf')())
immutability_check(static.a.b.c, ['d', 'other'], ['leaf'])
immutability_check(static.a.empty, [], ['anything'])
LOADS.clear()

# 4. names which are not identifiers, keywords, underscores ---------------------
odd = desper.ResourceMap()
for key in ['my file.png', '1abc', 'a-b', 'class', 'None', '_single',
            '__private', '__dunder__', 'trailing__', 'ünï', ' ',
            'plain']:
    odd[key] = Res('value of ' + key)
odd['sub map/inner one/x y'] = Res('xy')
odd['sub map/ok'] = Res('ok')
odd['def/__hidden/leaf'] = Res('hidden leaf')
odd['mixed/good'] = Res('good')
odd['mixed/not good'] = desper.ResourceMap()
static = mirror_check('4 odd names', odd)
print('   attribute access where possible', static._single, static.plain,
      static.__dunder__, static.trailing__, getattr(static, 'class'),
      getattr(static, '__private'), getattr(static, 'my file.png'),
      static['def']['__hidden'].leaf)
immutability_check(static, ['my file.png', '__private', 'plain', 'sub map'],
                   ['absent name', '__absent', 'absent'])
immutability_check(static.get('sub map'), ['inner one', 'ok'], ['x y'])
LOADS.clear()

# 5. layered handles -------------------------------------------------------------
layered = desper.ResourceMap()
layered['shadowed'] = Res('bottom shadowed')
layered['bottom_only'] = Res('bottom only')
layered['sub/inner'] = Res('inner bottom')
layered.handles = layered.handles.new_child()
layered['shadowed'] = Res('top shadowed')
layered['top only'] = Res('top only')
layered.maps['sub'].handles = layered.maps['sub'].handles.new_child(
    {'inner': Res('inner top'), 'extra layer': Res('extra')})
layered.handles.maps.append({'base': Res('base'), 'shadowed': Res('lowest')})
static = mirror_check('5 layered', layered)
immutability_check(static, ['shadowed', 'base'], ['lowest'])
LOADS.clear()

# 6. shared handles, user subclasses, snapshot independence -----------------------
shared = Res('shared value')
tree = LoggingMap()
tree['one'] = shared
tree['two/alias'] = shared            # same handle under another path
tree['logging'] = LoggingMap()
tree['logging/deeper/leaf'] = Res('leaf')
tree.maps['logging'].maps['deeper2'] = LoggingMap()
tree['logging/deeper2/x'] = Res('x')
first = mirror_check('6 shared handles and subclasses', tree)
second = tree.get_static_map()
print('   two snapshots differ', first is not second,
      first.get('one') is second.get('one'),
      first.two is not second.two, first.two.alias is second.two.alias)
print('   shared loaded once', shared.loads)
# the map changes, the snapshot does not
tree['added'] = Res('added later')
tree['two/added'] = Res('added later')
del tree.maps['logging']
tree['one'] = Res('replaced')
attempt('snapshot added', lambda: first.added)
attempt('snapshot two.added', lambda: first.two['added'])
print('   snapshot keeps', first.one, first.logging.deeper.leaf,
      first.get('one') is shared)
third = tree.get_static_map()
print('   new snapshot', third.one, third.added, third.two.added)
attempt('new snapshot logging', lambda: third.logging)
# clearing caches shows through (same handle objects)
shared.clear()
print('   reloaded through the old snapshot', first.one, shared.loads)
LOADS.clear()

# 7. load() that re-enters or raises -------------------------------------------------
holder = {}


def reenter(handle):
    snapshot = holder['static']
    print('      re-entrant access from load():', snapshot.plain,
          snapshot.get('self') is handle, snapshot.sub.leaf)
    holder['map']['created/by/load'] = Res('created by load')


def fail_once(handle):
    if handle.loads == 1:
        raise LookupError('first load fails')


risky = desper.ResourceMap()
risky['plain'] = Res('plain value')
risky['self'] = Res('re-entrant value', reenter)
risky['sub/leaf'] = Res('leaf value')
risky['flaky'] = Res('flaky value', fail_once)
risky['not ident/flaky too'] = Res('flaky two', fail_once)
holder['map'] = risky
holder['static'] = risky.get_static_map()
snapshot = holder['static']
attempt('re-entrant', lambda: snapshot.self)
attempt('re-entrant again (cached)', lambda: snapshot['self'])
attempt('created by load is absent', lambda: snapshot.created)
print('   but present in the map:', risky['created/by/load'])
attempt('flaky 1', lambda: snapshot.flaky)
attempt('flaky 2', lambda: snapshot.flaky)
attempt('flaky item 1', lambda: snapshot['not ident']['flaky too'])
attempt('flaky item 2', lambda: snapshot['not ident']['flaky too'])
immutability_check(snapshot, ['flaky', 'self'], ['created'])
print('   loads', LOADS)

# 8. the default global map ---------------------------------------------------------
desper.resource_map['global/thing'] = Res('global thing')
static = mirror_check('8 default resource map', desper.resource_map)
desper.resource_map.clear()
print('   after clear', static['global'].thing,
      describe(desper.resource_map.get_static_map()))

# 9. user subclasses of StaticResourceMap, members of the snapshot ---------------------
print('===== 9 subclasses and members')


class Manual(desper.StaticResourceMap):
    __slots__ = ('res', 'sub', 'plain_value')

    def __init__(self, res, sub=None):
        super().__init__()
        object.__setattr__(self, 'res', res)
        object.__setattr__(self, 'sub', sub)
        object.__setattr__(self, 'plain_value', 42)
        object.__setattr__(self, '_handle_names', frozenset(['res']))


class Fallback(Manual):
    __slots__ = ()

    def __getattr__(self, name):
        return 'fallback for ' + name


inner_handle = Res('manual inner')
manual = Manual(Res('manual outer'), Manual(inner_handle))
print('  ', manual.res, manual['res'], manual.sub.res, manual['sub']['res'],
      manual.get('sub').get('res') is inner_handle, manual.plain_value,
      manual['plain_value'], manual.sub.sub, inner_handle.loads)
attempt('manual missing attr', lambda: manual.missing)
attempt('manual missing item', lambda: manual['missing'])
attempt('manual missing get', lambda: manual.get('missing'))
attempt('manual set', lambda: setattr(manual, 'res', 1))
attempt('manual del', lambda: delattr(manual.sub, 'res'))
fallback = Fallback(Res('fb'))
print('  ', fallback.res, fallback.missing, fallback['missing'],
      fallback['res'], fallback.plain_value)
attempt('fallback get missing', lambda: fallback.get('missing'))
# members of every snapshot are still reachable and are not resources
snap = flat.get_static_map()
print('  ', callable(snap.get), snap.get.__name__, type(snap).__mro__[1].__name__,
      sorted(snap._handle_names), snap.__class__ is type(snap),
      snap.__slots__, snap.get('_handle_names') == snap._handle_names)
attempt('non string item', lambda: snap[5])
attempt('non string get', lambda: snap.get(5))
attempt('non string getattribute', lambda: snap.__getattribute__(5))
attempt('unhashable getattribute', lambda: snap.__getattribute__([]))
