"""Exercise weakly held handlers through the public API only.

Listeners of one event are called in no particular order, so what is
logged during one dispatch is printed sorted, and the scenarios are
built so that their outcome does not depend on that order.
"""
import gc

import desper

LOG = []


def flush(title):
    print('>>', title, sorted(LOG))
    LOG.clear()


@desper.event_handler('ev', 'other', renamed='on_renamed')
class H:
    def __init__(self, name, action=None):
        self.name = name
        self.action = action

    def ev(self, *args, **kwargs):
        LOG.append(('ev', self is None, self.name, args, sorted(kwargs)))
        if self.action is not None:
            self.action(self)

    def other(self):
        LOG.append(('other', self is None, self.name))

    def on_renamed(self, value):
        LOG.append(('renamed', self is None, self.name, value))


@desper.event_handler('extra')
class SubH(H):
    def extra(self):
        LOG.append(('extra', self.name))


class FalsyH(H):
    def __bool__(self):
        return False

    def __len__(self):
        return 0


class Plain:
    pass


class EqualH(H):
    """All instances are equal to each other."""

    def __eq__(self, other):
        return isinstance(other, EqualH)

    def __hash__(self):
        return 7


# 1. dropped between operations -----------------------------------------
d = desper.EventDispatcher()
a, b, c = H('a'), SubH('b'), FalsyH('c')
for handler in (a, b, c):
    d.add_handler(handler)
d.add_handler(a)                   # twice: still called once
print('handlers', [d.is_handler(h) for h in (a, b, c)], d.is_handler(H('x')))
d.dispatch('ev', 1, key=2)
flush('1 all three')
del a
d.dispatch('ev')
d.dispatch('extra')
d.dispatch('renamed', 5)
d.dispatch('unknown', 5)
flush('1 without a')
d.remove_handler(b)
d.remove_handler(b)                # twice is fine
d.remove_handler(H('never added'))
print('handlers', d.is_handler(b), d.is_handler(c))
d.dispatch('ev')
d.dispatch('extra')
flush('1 without a and b')
del c, handler
d.dispatch('ev')
d.dispatch('other')
flush('1 nobody')
d.add_handler(b)
d.dispatch('ev')
flush('1 b again')

# 2. equal handlers, cycles ---------------------------------------------
d = desper.EventDispatcher()
e1, e2 = EqualH('e1'), EqualH('e2')
d.add_handler(e1)
d.add_handler(e2)                  # equal to e1: nothing new
print('equal', d.is_handler(e1), d.is_handler(e2))
d.dispatch('ev')
flush('2 equal handlers')
del e1
d.dispatch('ev')
flush('2 first one dropped')
d.add_handler(e2)
d.dispatch('ev')
flush('2 second one added')
cyc = H('cyc')
cyc.me = cyc
d.add_handler(cyc)
del cyc
d.dispatch('ev')
flush('2 cycle not collected yet')
gc.collect()
d.dispatch('ev')
flush('2 cycle collected')

# 3. dropped in the middle of a dispatch ----------------------------------
d = desper.EventDispatcher()
owners = {}


def drop_everybody(me):
    owners.clear()


for i in range(6):
    owners[i] = H('k%d' % i, drop_everybody)
    d.add_handler(owners[i])
owners['falsy'] = FalsyH('kf', drop_everybody)
d.add_handler(owners['falsy'])
d.dispatch('ev')
print('3 calls while everybody is dropped by the first:', len(LOG),
      [entry[1] for entry in LOG])
LOG.clear()
d.dispatch('ev')
d.dispatch('other')
flush('3 later')

# 4. same thing in a world: the owner entity is deleted --------------------
for how in ('delete', 'remove', 'clear'):
    w = desper.World()

    def kill_the_others(me, how=how, w=w):
        if how == 'clear':
            w.clear()
            return
        for entity, comp in w.get(H):
            if comp is not me and comp in w.get_components(entity):
                if how == 'delete':
                    w.delete_entity(entity, immediate=True)
                else:
                    w.remove_component(entity, type(comp))
            del comp

    for i in range(5):
        w.create_entity(H('w%d' % i, kill_the_others))
    w.create_entity(SubH('ws', kill_the_others), Plain())
    w.create_entity(Plain(), FalsyH('wf', kill_the_others), entity_id=0)
    w.dispatch('ev', 'x')
    print('4', how, 'calls:', len(LOG), [entry[1] for entry in LOG],
          'left:', len(w.get(H)))
    LOG.clear()
    w.dispatch('ev')
    w.dispatch('other')
    print('4', how, 'later calls:', len(LOG))
    LOG.clear()
    # deferred deletion: handlers stay until the next frame
    w.clear()
    survivor = H('survivor')
    e = w.create_entity(H('doomed'), SubH('doomed too'))
    w.create_entity(survivor)
    w.delete_entity(e)
    w.dispatch('ev')
    flush('4 %s pending deletion' % how)
    w.process()
    w.dispatch('ev')
    w.dispatch('extra')
    flush('4 %s after the frame' % how)

# 5. disabled dispatching and queued events --------------------------------
w = desper.World()
keep = H('keep')
w.add_handler(keep)
gone = H('gone')
w.add_handler(gone)
e = w.create_entity(H('comp'))
w.dispatch_enabled = False
w.dispatch('ev', 'queued')
w.dispatch('renamed', 'queued')
del gone
w.delete_entity(e, immediate=True)
flush('5 nothing yet')
w.dispatch_enabled = True
flush('5 released')
print('world is its own handler', w.is_handler(w))

# 6. re-entrant callbacks ---------------------------------------------------
d = desper.EventDispatcher()
late = H('late')


def add_late(me):
    d.add_handler(late)


def remove_me(me):
    d.remove_handler(me)


def remove_victim(me):
    d.remove_handler(victim)


def nested(me):
    d.dispatch('extra')          # only SubH instances listen to it


def disable(me):
    d.dispatch_enabled = False
    d.dispatch('renamed', 'while disabled')


victim = H('victim')
actors = [H('adder', add_late), H('selfremover', remove_me),
          H('remover', remove_victim), H('nester', nested), victim,
          SubH('sub'), SubH('subnester', nested)]
for actor in actors:
    d.add_handler(actor)
d.dispatch('ev', 'first')
flush('6 first')
print('handlers', [d.is_handler(h) for h in actors], d.is_handler(late))
d.dispatch('ev', 'second')
flush('6 second')
d.clear()
d.dispatch('ev')
flush('6 cleared')
switcher = H('switcher', disable)
d.add_handler(switcher)
d.add_handler(late)
d.dispatch('ev')
d.dispatch('ev', 'queued')
flush('6 disabled from a callback')
del late
switcher.action = None
d.dispatch_enabled = True
flush('6 enabled again')

# 7. raising callbacks ---------------------------------------------------------


def boom(me):
    raise RuntimeError('boom')


d = desper.EventDispatcher()
r = H('raiser', boom)
d.add_handler(r)
for attempt in range(2):
    try:
        d.dispatch('ev')
    except RuntimeError as ex:
        LOG.append(('raised', type(ex).__name__))
flush('7 raised')
d.dispatch('other')
flush('7 still working')
d.dispatch_enabled = False
d.dispatch('ev')
d.dispatch('other')
try:
    d.dispatch_enabled = True
except RuntimeError as ex:
    LOG.append(('raised', type(ex).__name__))
flush('7 raised on release')
print('enabled', d.dispatch_enabled)
del r
d.dispatch_enabled = True
flush('7 rest of the queue, handler dropped')
w = desper.World()
e = w.create_entity(H('wr', boom), Plain())
try:
    w.dispatch('ev')
except RuntimeError as ex:
    LOG.append(('raised', type(ex).__name__))
flush('7 world')
w.delete_entity(e)
w.process()
w.dispatch('ev')
flush('7 world after deletion')
