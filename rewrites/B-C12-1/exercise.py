"""Exercise resource handles of desper through every access path.

Only the public API is used. Printed values are load counters,
identity checks and exception types: all of them are specified.
"""
import copy

import desper


class Weird:
    """Loaded value that dislikes being compared or tested."""

    def __eq__(self, other):
        raise AssertionError('compared')

    __hash__ = None

    def __bool__(self):
        raise AssertionError('tested')

    def __len__(self):
        raise AssertionError('measured')


class NeverEqual:

    def __eq__(self, other):
        return False

    def __ne__(self, other):
        return False

    def __hash__(self):
        return 0

    def __bool__(self):
        return False


class Counting(desper.Handle):

    def __init__(self, factory):
        self.factory = factory
        self.loads = 0

    def load(self):
        self.loads += 1
        return self.factory()


class Default(desper.Handle):
    """Relies on the default load implementation."""


def attempt(title, function, *args):
    try:
        result = function(*args)
        print(title, 'ok', type(result).__name__)
        return result
    except Exception as ex:     # NOQA
        print(title, type(ex).__name__, ex.args)


FACTORIES = {
    'none': lambda: None,
    'zero': lambda: 0,
    'float_zero': lambda: 0.0,
    'false': lambda: False,
    'empty_str': lambda: '',
    'empty_list': list,
    'empty_dict': dict,
    'empty_tuple': tuple,
    'object': object,
    'weird': Weird,
    'never_equal': NeverEqual,
    'nan': lambda: float('nan'),
    'ellipsis': lambda: ...,
    'not_implemented': lambda: NotImplemented,
    'handle': lambda: Counting(list),
    'map': desper.ResourceMap,
}

# --- 1. the handle alone ----------------------------------------------
for name, factory in FACTORIES.items():
    handle = Counting(factory)
    states = [handle.cached]
    first = handle()
    states.append(handle.cached)
    second = handle()
    third = handle()
    states.append(handle.cached)
    same = first is second is third
    loads = handle.loads
    handle.clear()
    handle.clear()
    states.append(handle.cached)
    fourth = handle()
    fifth = handle()
    states.append(handle.cached)
    print('alone', name, states, same, loads, handle.loads,
          fourth is fifth, type(fourth).__name__,
          # Fresh mutable values are new objects after a clear
          fourth is first)

default = Default()
print('default', default.cached, default(), default.cached, default(),
      type(default.cached).__name__)
default.clear()
print('default cleared', default.cached, default(), default.cached)
never = Counting(list)
never.clear()
print('cleared before use', never.cached, never.loads, never(), never.loads)

# --- 2. every access path ---------------------------------------------
root = desper.ResourceMap()
handles = {}
for name, factory in FACTORIES.items():
    handles[name] = Counting(factory)
    root[f'shallow_{name}'] = handles[name]
deep = {}
for name, factory in FACTORIES.items():
    deep[name] = Counting(factory)
    root[f'a/b/c/d/{name}'] = deep[name]
    root[f'a/b/{name}'] = Counting(factory)
root['a//empty'] = Counting(lambda: 'empty key')
root['not identifier/1st'] = Counting(lambda: 'odd names')
root['__private'] = Counting(lambda: 'private')
root['__dunder__'] = Counting(lambda: 'dunder')

static = root.get_static_map()
for name in FACTORIES:
    handle = deep[name]
    counts = [handle.loads, handle.cached]
    values = [
        root[f'a/b/c/d/{name}'],
        handle(),
        root['a']['b']['c']['d'][name],
        root['a/b']['c/d'][name],
        root.get('a/b/c').get('d')[name],
        root.get(f'a/b/c/d/{name}')(),
        getattr(static.a.b.c.d, name),
        static['a']['b']['c']['d'][name],
        static.a.b.c.d.get(name)(),
        getattr(root['a/b/c'].get_static_map().d, name),
    ]
    counts += [handle.loads, handle.cached]
    identical = all(value is values[0] for value in values)
    root.get(f'a/b/c/d/{name}').clear()
    counts += [handle.loads, handle.cached]
    again = [getattr(static.a.b.c.d, name), root[f'a/b/c/d/{name}'], handle()]
    counts += [handle.loads, handle.cached]
    print('paths', name, counts, identical,
          all(value is again[0] for value in again),
          root.get(f'a/b/c/d/{name}') is handle,
          static.a.b.c.d.get(name) is handle,
          handle.parent is root['a/b/c/d'], handle.key)

for name in FACTORIES:
    handle = handles[name]
    # Static access first this time
    values = [static[f'shallow_{name}'], getattr(static, f'shallow_{name}'),
              root[f'shallow_{name}'], handle()]
    print('shallow', name, handle.loads, handle.cached,
          all(value is values[0] for value in values))
    handle.clear()
    values = [handle(), root[f'shallow_{name}'], static[f'shallow_{name}']]
    print('shallow again', name, handle.loads, handle.cached,
          all(value is values[0] for value in values))

print('odd keys', root['a//empty'], root['a']['']['empty'],
      static.a[''].empty, static.a['']['empty'],
      root['not identifier/1st'], static['not identifier']['1st'],
      getattr(getattr(static, 'not identifier'), '1st'),
      root['__private'], static['__private'], getattr(static, '__private'),
      root['__dunder__'], static.__dunder__,
      root.get('a//empty').loads, root.get('not identifier/1st').loads,
      root.get('__private').loads, root.get('__dunder__').loads)

# --- 3. missing keys, defaults ----------------------------------------
for key in ('missing', 'a/missing', 'a/b/c/d/none/deeper', 'missing/deeper',
            '', '/', 'a/', 'a/b/c/d', 'shallow_none/'):
    attempt(f'root[{key!r}]', root.__getitem__, key)
    print(f'get {key!r}', type(root.get(key)).__name__,
          root.get(key, 'default') == 'default'
          if not isinstance(root.get(key, 'default'),
                            (desper.Handle, desper.ResourceMap)) else 'found')
for key in 'missing', 'shallow_none', 'a', '_handle_names', 'get', '':
    attempt(f'static[{key!r}]', static.__getitem__, key)
    attempt(f'static.get({key!r})', static.get, key)
attempt('static set', setattr, static, 'shallow_none', 1)
attempt('static del', delattr, static, 'shallow_none')
print('loads unchanged', handles['none'].loads, deep['none'].loads)


# --- 4. loads that raise or re-enter -----------------------------------
class Flaky(desper.Handle):

    def __init__(self):
        self.attempts = 0

    def load(self):
        self.attempts += 1
        if self.attempts % 2:
            raise OSError(self.attempts)
        return None


flaky = Flaky()
root['flaky/handle'] = flaky
flaky_static = root.get_static_map()
attempt('flaky call', flaky)
print('flaky', flaky.cached, flaky.attempts)
print('flaky second', root['flaky/handle'], flaky.cached, flaky.attempts)
print('flaky third', flaky_static.flaky.handle, flaky(), flaky.attempts)
flaky.clear()
attempt('flaky item', root.__getitem__, 'flaky/handle')
attempt('flaky static', getattr, flaky_static.flaky, 'handle')
print('flaky', flaky.cached, flaky.attempts, flaky(), flaky.cached,
      flaky.attempts)


class Chained(desper.Handle):
    """Loads through other handles of the same map."""

    def __init__(self, resource_map, keys):
        self.resource_map = resource_map
        self.keys = keys
        self.loads = 0

    def load(self):
        self.loads += 1
        return [self.resource_map[key] for key in self.keys]


root['chain/leaf'] = Counting(lambda: 0)
root['chain/middle'] = Chained(root, ['chain/leaf', 'chain/leaf',
                                      'shallow_none'])
root['chain/top'] = Chained(root, ['chain/middle', 'chain/leaf',
                                   'chain/middle'])
top = root['chain/top']
print('chain', top, top[0] is top[2], root['chain/top'] is top,
      root.get('chain/top').loads, root.get('chain/middle').loads,
      root.get('chain/leaf').loads, handles['none'].loads)
root.get('chain/middle').clear()
print('chain middle cleared', root['chain/top'] is top,
      root['chain/middle'] is top[0], root['chain/middle'] == top[0],
      root.get('chain/top').loads, root.get('chain/middle').loads,
      root.get('chain/leaf').loads)


class SelfClearing(desper.Handle):
    """Clears itself while loading."""
    loads = 0

    def load(self):
        self.loads += 1
        self.clear()
        return self.loads


self_clearing = SelfClearing()
print('self clearing', self_clearing(), self_clearing.cached,
      self_clearing(), self_clearing.loads)


class Recursive(desper.Handle):
    """Asks for its own value while loading (once)."""
    depth = 0

    def load(self):
        self.depth += 1
        if self.depth < 3:
            return [self.depth, self()]
        return [self.depth]


recursive = Recursive()
print('recursive', recursive(), recursive.cached, recursive() is recursive(),
      recursive.depth)

# --- 5. copies ---------------------------------------------------------
original = Counting(list)
value = original()
shallow, deepcopy = copy.copy(original), copy.deepcopy(original)
print('copies', shallow.cached, deepcopy.cached, shallow() is value,
      deepcopy() is value, deepcopy() == value, original.loads,
      shallow.loads, deepcopy.loads)
original.clear()
cleared_copy = copy.deepcopy(original)
print('cleared copy', cleared_copy.cached, cleared_copy() is value,
      cleared_copy.loads, original.cached)

# --- 6. shadowed handles, replaced handles -----------------------------
layered = desper.ResourceMap()
front, back = Counting(lambda: 'front'), Counting(lambda: 'back')
layered['name'] = back
layered.handles.maps.insert(0, {'name': front})
layered_static = layered.get_static_map()
print('layered', layered['name'], layered_static.name, layered.get('name')(),
      front.loads, back.loads, back.cached)
replacement = Counting(lambda: 'replacement')
layered['name'] = replacement
print('replaced', layered['name'], layered_static.name,
      layered.get_static_map().name, front.loads, back.loads,
      replacement.loads)
layered.clear()
attempt('cleared map', layered.__getitem__, 'name')
print('after map clear', replacement.cached, replacement(),
      replacement.loads, replacement.parent, replacement.key,
      layered_static.name, front.loads)


class Dotted(desper.ResourceMap):
    split_char = '.'


dotted = Dotted()
dotted['x.y/z.w'] = Counting(lambda: ())
print('dotted', dotted['x.y/z.w'] is dotted['x'].maps['y/z']['w'],
      dotted.get('x.y/z.w').loads, sorted(dotted['x'].maps),
      dotted.get_static_map().x['y/z'].w is dotted['x.y/z.w'])

# --- 7. worlds in handles, switched by a loop ---------------------------
world_loads = []


class WorldHandle(desper.Handle):

    def __init__(self, name):
        self.name = name

    def load(self):
        world_loads.append(self.name)
        world = desper.World()
        world.name = f'{self.name}{len(world_loads)}'
        return world


loop = desper.SimpleLoop()
one, two = WorldHandle('one'), WorldHandle('two')
root['worlds/one'] = one
root['worlds/two'] = two
loop.switch(one)
print('switch', loop.current_world.name, loop.current_world is one(),
      loop.current_world is root['worlds/one'], loop.current_world_handle is one,
      world_loads)
loop.switch(two, clear_current=True)
print('switch', loop.current_world.name, one.cached, two.cached, world_loads)
loop.switch(two, clear_next=True)
print('switch', loop.current_world.name, loop.current_world is two(),
      world_loads)
loop.switch(two, clear_current=True, clear_next=True)
print('switch', loop.current_world.name, loop.current_world is two(),
      loop.current_world is root['worlds/two'], world_loads)
loop.switch(one)
print('switch', loop.current_world.name, two.cached,
      loop.current_world.dispatch_enabled, world_loads)
attempt('switch to no world', loop.switch, Counting(lambda: None))
print('after failure', type(loop.current_world).__name__, world_loads)
