"""Exercise component lifecycle callbacks (C02) through the public API."""
import desper

LOG = []


def log(*items):
    LOG.append(' '.join(str(i) for i in items))


@desper.event_handler('on_add', 'on_remove', 'ping')
class Both:
    def __init__(self, name):
        self.name = name

    def on_add(self, entity, world):
        log('on_add', self.name, entity, world is WORLD,
            world.is_handler(self))

    def on_remove(self, entity, world):
        log('on_remove', self.name, entity, world is WORLD,
            world.is_handler(self))

    def ping(self, *args):
        log('ping', self.name, *args)


class SubBoth(Both):
    pass


@desper.event_handler('on_add')
class OnlyAdd:
    def __init__(self, name):
        self.name = name

    def on_add(self, entity, world):
        log('on_add', self.name, entity, world.is_handler(self))


@desper.event_handler('on_remove')
class OnlyRemove:
    def __init__(self, name):
        self.name = name

    def on_remove(self, entity, world):
        log('on_remove', self.name, entity, world.is_handler(self))


@desper.event_handler(on_add='added', on_remove='removed')
class Renamed:
    def __init__(self, name):
        self.name = name

    def added(self, entity, world):
        log('added', self.name, entity)

    def removed(self, entity, world):
        log('removed', self.name, entity)


@desper.event_handler('ping')
class OnlyPing:
    """Handler with neither on_add nor on_remove."""
    def __init__(self, name):
        self.name = name

    def ping(self, *args):
        log('ping', self.name, *args)


class Plain:
    def __init__(self, name):
        self.name = name


@desper.event_handler('on_add', 'on_remove')
class Falsy:
    """Component whose truth value is False."""
    def __bool__(self):
        return False

    def __len__(self):
        return 0

    def on_add(self, entity, world):
        log('on_add falsy', entity)

    def on_remove(self, entity, world):
        log('on_remove falsy', entity)


@desper.event_handler('on_add', 'on_remove')
class Reentrant:
    """Adds/removes other components from inside its callbacks."""
    def __init__(self, name):
        self.name = name

    def on_add(self, entity, world):
        log('on_add', self.name, entity)
        world.add_component(entity, OnlyAdd(self.name + '.child'))
        world.create_entity(Both(self.name + '.spawn'),
                            entity_id=('spawn', entity))

    def on_remove(self, entity, world):
        log('on_remove', self.name, entity)
        if world.entity_exists(('spawn', entity)):
            world.delete_entity(('spawn', entity), immediate=True)


@desper.event_handler('on_add')
class Disabler:
    """Disables dispatching from inside on_add."""
    def on_add(self, entity, world):
        log('on_add disabler', entity)
        world.dispatch_enabled = False


class Left(Both):
    pass


class Right(Both):
    pass


class Diamond(Left, Right):
    pass


def section(title):
    # Sort pings inside a section? No: pings are logged separately sorted
    LOG.append('== ' + title)


def ping(world, *args):
    """Dispatch ping, log recipients in sorted order (set iteration)."""
    start = len(LOG)
    world.dispatch('ping', *args)
    LOG[start:] = sorted(LOG[start:])


def snapshot(world):
    log('entities', sorted(map(repr, world.entities)))


WORLD = desper.World()
w = WORLD

section('1 create_entity with mixed components, dispatch enabled')
a, b, c = Both('a'), OnlyAdd('b'), Plain('c')
e1 = w.create_entity(a, b, c, OnlyRemove('d'), Renamed('r'), OnlyPing('p'))
log('e1', e1, w.is_handler(a), w.is_handler(b))
ping(w, 1)

section('2 add_component, replacement of same type')
a2 = Both('a2')
w.add_component(e1, a2)
log('handlers', w.is_handler(a), w.is_handler(a2))
ping(w, 2)
w.add_component(e1, Plain('c2'))
w.add_component(e1, SubBoth('sub'))
ping(w, 3)

section('3 remove_component, exact and via supertype')
log('removed', w.remove_component(e1, Both).name)
log('removed', w.remove_component(e1, Both).name)
log('removed', w.remove_component(e1, Both))
log('removed', w.remove_component(e1, Plain).name)
log('removed', w.remove_component(e1, Renamed).name)
ping(w, 4)

section('4 falsy and None components')
e2 = w.create_entity(Falsy(), None)
w.add_component(e2, Falsy())
log('removed falsy', type(w.remove_component(e2, Falsy)).__name__)
log('removed none', w.remove_component(e2, type(None)))
log('exists', w.entity_exists(e2))

section('5 disabled dispatching: postponed in operation order')
w.dispatch_enabled = False
x, y = Both('x'), Both('y')
e3 = w.create_entity(x, OnlyAdd('z'), Renamed('rr'))
w.add_component(e3, y)                  # replaces x while disabled
w.add_component(e3, OnlyRemove('or'))
w.remove_component(e3, OnlyRemove)
w.delete_entity(e3, immediate=True)
e4 = w.create_entity(Both('late'), entity_id='named')
log('pending, handlers', w.is_handler(x), w.is_handler(y))
log('nothing delivered yet')
w.dispatch_enabled = True
log('enabled')
ping(w, 5)

section('6 re-entrant callbacks')
e5 = w.create_entity(Reentrant('re'), entity_id=0)
snapshot(w)
ping(w, 6)
w.delete_entity(e5)
log('marked dead')
w.process()
snapshot(w)

section('7 re-entrant while disabled')
w.dispatch_enabled = False
e6 = w.create_entity(Reentrant('re2'), Plain('pl'), entity_id=-1)
w.add_component(e6, Reentrant('re3'))
w.dispatch_enabled = True
snapshot(w)
w.delete_entity(e6, immediate=True)
snapshot(w)

section('8 callback that disables dispatching')
e7 = w.create_entity(Disabler(), Both('after-disabler'), OnlyAdd('oa'))
log('enabled?', w.dispatch_enabled)
w.add_component(e7, Both('while-disabled'))
w.dispatch_enabled = True
log('enabled?', w.dispatch_enabled)

section('9 diamond inheritance')
e8 = w.create_entity(Diamond('dia'), Left('left'), Right('right'))
log('removed', w.remove_component(e8, Both).name)
log('removed', w.remove_component(e8, Both).name)
log('removed', w.remove_component(e8, Both).name)
log('exists', w.entity_exists(e8))

section('10 clear and reuse, disabled before clear')
keep = [Both('k1'), Both('k2'), OnlyRemove('k3')]
w.create_entity(*keep)
w.dispatch_enabled = False
w.create_entity(Both('never-added'))
w.clear()
log('cleared', w.entities, w.dispatch_enabled,
    [w.is_handler(k) for k in keep])
w.dispatch_enabled = False
n1, n2 = Both('n1'), OnlyAdd('n2')
e9 = w.create_entity(n1, n2)
w.add_component(e9, Both('n3'))
log('e9', e9)
w.dispatch_enabled = True
ping(w, 10)

section('11 same instance on two entities, empty create')
shared = Both('shared')
s1 = w.create_entity(shared)
s2 = w.create_entity(shared)
e_empty = w.create_entity()
log('empty exists', w.entity_exists(e_empty))
w.delete_entity(s1, immediate=True)
log('still handler', w.is_handler(shared))
w.delete_entity(s2, immediate=True)

section('12 controller helpers')
ctrl = desper.Controller()
e10 = w.create_entity(ctrl)
desper.add_component(ctrl, Both('via-controller'))
desper.remove_component(ctrl, Both)
desper.delete(ctrl)
w.process()
snapshot(w)
w.clear()
snapshot(w)

section('13 queue: kwargs, raising callback, disabling callback')


@desper.event_handler('boom', 'stop', 'note', 'ping')
class Queue:
    def boom(self):
        log('boom')
        raise RuntimeError('boom')

    def stop(self, world):
        log('stop')
        world.dispatch_enabled = False

    def note(self, *args, **kwargs):
        log('note', args, sorted(kwargs.items()))

    def ping(self, *args):
        log('ping queue', *args)


q = Queue()
w2 = desper.World()
w2.add_handler(q)
w2.add_handler(q)                       # Adding twice is idempotent
w2.dispatch_enabled = False
w2.dispatch('note', 1, k=2)
w2.dispatch('unknown', 'dropped')
w2.dispatch('boom')
w2.dispatch('note', 2)
comp = Both('queued')
ent = w2.create_entity(comp)
w2.dispatch('stop', w2)
w2.dispatch('note', 3, z=None, a=0)
w2.remove_component(ent, Both)
WORLD = w2
try:
    w2.dispatch_enabled = True
except RuntimeError as err:
    log('raised', err)
log('enabled?', w2.dispatch_enabled)
w2.dispatch('note', 'live')
w2.dispatch_enabled = True              # Continues after boom, until stop
log('enabled?', w2.dispatch_enabled)
w2.dispatch('note', 'queued again')
w2.dispatch_enabled = True
log('enabled?', w2.dispatch_enabled)
w2.dispatch_enabled = True              # Nothing left
w2.remove_handler(q)
w2.remove_handler(q)                    # Removing twice is harmless
log('is handler', w2.is_handler(q), w2.is_handler(w2))
w2.dispatch('note', 'nobody')

section('14 plain dispatcher, handler released by garbage collection')
d = desper.EventDispatcher()
tmp = OnlyPing('tmp')
d.add_handler(tmp)
d.add_handler(OnlyPing('unreferenced'))     # Collected immediately
d.dispatch_enabled = False
d.dispatch('ping', 'first')
d.dispatch('ping', 'second')
d.dispatch_enabled = True
d.dispatch_enabled = False
d.dispatch('ping', 'third')
del tmp
d.dispatch('ping', 'fourth')
d.dispatch_enabled = True
log('drained')
d.clear()
d.dispatch('ping', 'after clear')

print('\n'.join(LOG))
