"""Exercise Transform2D / Transform3D setters and their events.

Canonical transcript: when several listeners receive the same event
the order in which they are served is unspecified, so the lines logged
during one assignment are sorted. Floats are printed with float.hex.
"""
from fractions import Fraction

import desper
from desper import Transform2D, Transform3D
from desper.math import Vec2, Vec3

LOG = []


def fmt(value):
    if isinstance(value, float):
        return '%r[%s]' % (value, value.hex())
    if isinstance(value, (tuple, list)):
        return '%s(%s)' % (type(value).__name__,
                           ', '.join(fmt(v) for v in value))
    return '%s:%r' % (type(value).__name__, value)


def flush(title, sort=True):
    print('--', title)
    for line in (sorted(LOG) if sort else LOG):
        print('   ', line)
    LOG.clear()


@desper.event_handler('on_position_change', 'on_rotation_change',
                      'on_scale_change')
class Listener:
    def __init__(self, name, transform=None):
        self.name = name
        self.transform = transform

    def check(self, attribute, value):
        if self.transform is None:
            return ''
        return ' same-as-read=%s' % (getattr(self.transform, attribute)
                                     is value)

    def on_position_change(self, value):
        LOG.append('%s position %s%s' % (self.name, fmt(value),
                                         self.check('position', value)))

    def on_rotation_change(self, value):
        LOG.append('%s rotation %s%s' % (self.name, fmt(value),
                                         self.check('rotation', value)))

    def on_scale_change(self, value):
        LOG.append('%s scale %s%s' % (self.name, fmt(value),
                                      self.check('scale', value)))


@desper.event_handler('on_rotation_change')
class RotationOnly:
    def __init__(self, name):
        self.name = name

    def on_rotation_change(self, value):
        LOG.append('%s rotation-only %s' % (self.name, fmt(value)))


def read(transform):
    return 'position=%s rotation=%s scale=%s' % (
        fmt(transform.position), fmt(transform.rotation),
        fmt(transform.scale))


def assign(transform, attribute, value, title=None):
    try:
        setattr(transform, attribute, value)
        stored = getattr(transform, attribute)
        LOG.append('~ read back %s%s' % (
            fmt(stored), ' (same object)' if stored is value else ''))
    except Exception as exc:
        LOG.append('~ raised %s: %s' % (type(exc).__name__, exc))
    flush(title or '%s.%s = %s' % (type(transform).__name__, attribute,
                                   fmt(value)))


# 1. construction and defaults -----------------------------------------------------
t1, t2 = Transform2D(), Transform2D()
u1, u2 = Transform3D(), Transform3D()
print('-- defaults')
print('   ', read(t1))
print('   ', read(u1))
print('    shared position objects:', t1.position is t2.position,
      u1.position is u2.position, u1.rotation is u2.rotation)
for args in (((1, 2), -90, [3, 4]), (Vec2(0.5, -0.5), 725.25, Vec2(2, 2)),
             ((0, 0), 360, (1, 1)), ((0, 0), -0.0, (1, 1)),
             (iter((7, 8)), Fraction(-1, 3), range(2)),
             ((1, 2), float('inf'), (1, 1)), ((1, 2), True, (1, 1))):
    print('    Transform2D ->', read(Transform2D(*args)))
for args in (((1, 2, 3), (-90, 400, 0.5), [3, 4, 5]),
             (Vec3(1, 1, 1), Vec3(), iter((1, 2, 3)))):
    print('    Transform3D ->', read(Transform3D(*args)))
for bad in (lambda: Transform2D((1, 2, 3)), lambda: Transform2D(rotation='x'),
            lambda: Transform3D(scale=5), lambda: Transform2D(None)):
    try:
        print('    bad ->', read(bad()))
    except Exception as exc:
        print('    bad -> raised', type(exc).__name__)
kw = Transform2D(scale=(2, 3), rotation=-1)
print('    keywords ->', read(kw))

# 2. one transform, several listeners ---------------------------------------------
t = Transform2D()
listeners = [Listener('l%d' % i, t) for i in range(3)] + [RotationOnly('r')]
for listener in listeners:
    t.add_handler(listener)
for rotation in (0, 0.0, -0.0, 90, 360, 360.0, -360, 720.5, -0.5, -1e-20,
                 1e-320, 359.99999999999994, 360 - 1e-14, 1e300, -1e300,
                 12345678.9, float('inf'), float('nan'), True,
                 Fraction(721, 2), -725, 2 ** 70):
    assign(t, 'rotation', rotation)
for position in (Vec2(1, 2), (3, 4), [5, 6], None, 0, 'text', Vec2()):
    assign(t, 'position', position)
for scale in (Vec2(2, 2), (0, 0), (-1, 1.5), None):
    assign(t, 'scale', scale)
assign(t, 'rotation', 'ninety')
assign(t, 'rotation', None)
assign(t, 'rotation', [1])
print('    finally', read(t))

# 3. 3D: rotation is a vector, stored as given -----------------------------------
u = Transform3D()
for listener in (Listener('m0', u), Listener('m1', u)):
    listeners.append(listener)
    u.add_handler(listener)
for rotation in (Vec3(0, 400, -90), (1, 2, 3), 725.0, None):
    assign(u, 'rotation', rotation)
assign(u, 'position', Vec3(1, 2, 3))
assign(u, 'scale', [9, 9, 9])
print('    finally', read(u))

# 4. several transforms, listeners only hear their own -------------------------
a, b = Transform2D(), Transform2D()
la, lb, lab = Listener('only-a', a), Listener('only-b', b), Listener('both')
a.add_handler(la)
b.add_handler(lb)
a.add_handler(lab)
b.add_handler(lab)
assign(a, 'rotation', 450)
assign(b, 'rotation', -450)
assign(b, 'position', (1, 1))
a.remove_handler(lab)
assign(a, 'scale', (5, 5))
a.remove_handler(la)
assign(a, 'scale', (6, 6), 'nobody listens to a any more')
del lb
assign(b, 'rotation', 1, 'listener of b garbage collected')
print('    a:', read(a))
print('    b:', read(b))

# 5. re-entrant and raising listeners ---------------------------------------------
c = Transform2D()


@desper.event_handler('on_rotation_change', 'on_position_change')
class Clamp:
    """Re-assigns from inside the callback."""

    def on_rotation_change(self, value):
        LOG.append('clamp sees %s, reads %s' % (fmt(value), fmt(c.rotation)))
        if value > 180:
            c.rotation = value / 2 - 400
        LOG.append('clamp done with %s, reads %s' % (fmt(value),
                                                     fmt(c.rotation)))

    def on_position_change(self, value):
        LOG.append('clamp position %s' % fmt(value))
        if value != (0, 0):
            c.scale = value
            c.position = (0, 0)


@desper.event_handler('on_scale_change')
class Fragile:
    def on_scale_change(self, value):
        LOG.append('fragile scale %s' % fmt(value))
        if value[0] < 0:
            raise ValueError('negative scale')


clamp, fragile = Clamp(), Fragile()
c.add_handler(clamp)
c.add_handler(fragile)
for value in (270, 90, 539.5, -90):
    c.rotation = value
    LOG.append('~ read back %s' % fmt(c.rotation))
    flush('re-entrant rotation %r' % value, sort=False)
c.position = (3, 4)
LOG.append('~ ' + read(c))
flush('re-entrant position', sort=False)
assign(c, 'scale', (-1, 1), 'raising listener: value is stored anyway')
print('    finally', read(c))
try:
    c.position = (-2, 2)
except ValueError as exc:
    LOG.append('~ raised ValueError: %s' % exc)
LOG.append('~ ' + read(c))
flush('position -> scale raises inside nested callback', sort=False)

# 6. disabled dispatching: events are kept and released in order ------------
d = Transform2D()
ld = Listener('d')
d.add_handler(ld)
d.dispatch_enabled = False
d.rotation = 370
d.position = (1, 1)
d.rotation = -10
d.scale = (2, 2)
d.rotation = 725
LOG.append('~ while disabled: ' + read(d))
flush('disabled', sort=False)
d.dispatch_enabled = True
flush('released in order', sort=False)
d.clear()
d.rotation = 5
LOG.append('~ after clear: ' + read(d))
flush('cleared dispatcher notifies nobody', sort=False)

# 7. inside a world -----------------------------------------------------------------
world = desper.World()
tw = Transform2D((1, 1), 45)
lw = Listener('w', tw)
entity = world.create_entity(tw, lw)
tw.add_handler(lw)
tw.rotation -= 90
tw.position = tw.position + Vec2(1, 1)
LOG.append('~ ' + read(world.get_component(entity, Transform2D)))
flush('component of a world', sort=False)

# 8. the dispatcher underneath ----------------------------------------------------
import gc
import weakref

from desper import EventDispatcher


@desper.event_handler('ping', pong='on_pong')
class Node:
    def __init__(self, name, action=None):
        self.name = name
        self.action = action

    def ping(self, *args, **kwargs):
        LOG.append('%s ping %r %r' % (self.name, args, sorted(kwargs.items())))
        if self.action is not None:
            self.action(self)

    def on_pong(self, *args):
        LOG.append('%s pong %r' % (self.name, args))


disp = EventDispatcher()
n1, n2, n3 = Node('n1'), Node('n2'), Node('n3')
for node in (n1, n2, n3, n1, n1):        # adding twice changes nothing
    disp.add_handler(node)
disp.dispatch('ping', 1, 2, key='word')
disp.dispatch('pong')
disp.dispatch('unknown', 'dropped')
flush('broadcast')
disp.remove_handler(n1)
disp.remove_handler(n1)                  # removing twice is harmless
LOG.append('~ is_handler %s' % [disp.is_handler(n) for n in (n1, n2, n3)])
disp.dispatch('ping')
flush('after removing n1')

# Handlers added / removed / released by a callback
late = Node('late')
adder = Node('adder', lambda self: disp.add_handler(late))
disp.add_handler(adder)
disp.dispatch('ping', 'first')
flush('late joins during the first dispatch: not served by it')
disp.dispatch('ping', 'second')
flush('late is served from the next dispatch on')
for node in (adder, late, n2, n3):
    disp.remove_handler(node)
remover = Node('remover', lambda self: disp.remove_handler(self))
disp.add_handler(remover)
disp.dispatch('ping', 'once')
disp.dispatch('ping', 'never')
flush('a handler that removes itself')
doomed = Node('doomed')
doomed_ref = weakref.ref(doomed)
disp.add_handler(doomed)
del doomed
gc.collect()
disp.dispatch('ping', 'nobody')
LOG.append('~ collected %s' % (doomed_ref() is None))
flush('collected handler')


class Broken:
    __events__ = {'ping': 'ping', 'pong': 'missing_method'}

    def ping(self, *args, **kwargs):
        LOG.append('broken ping %r' % (args,))


broken = Broken()
try:
    disp.add_handler(broken)
except AttributeError as exc:
    LOG.append('~ add_handler raised AttributeError')
LOG.append('~ is_handler %s' % disp.is_handler(broken))
disp.dispatch('ping', 'after failed registration')
disp.dispatch('pong', 'after failed registration')
flush('handler whose mapping names a missing method')

# Queue: released first in first out, re-entrancy, clear
disp = EventDispatcher()
keeper = Node('keeper')
disp.add_handler(keeper)
disp.dispatch_enabled = False
for i in range(5):
    disp.dispatch('ping' if i % 2 == 0 else 'pong', i)
disp.dispatch('unknown', 'never queued')
LOG.append('~ enabled %s' % disp.dispatch_enabled)
flush('queued', sort=False)
disp.dispatch_enabled = True
flush('released', sort=False)
disp.dispatch_enabled = True
flush('nothing left', sort=False)


def requeue(self):
    disp.dispatch('pong', 'dispatched from inside the release: immediate')


def stop(self):
    disp.dispatch_enabled = False
    disp.dispatch('pong', 'queued again, at the end')


keeper.action = requeue
disp.dispatch_enabled = False
disp.dispatch('ping', 'a')
disp.dispatch('pong', 'b')
disp.dispatch_enabled = True
flush('callback dispatching during the release', sort=False)
keeper.action = stop
disp.dispatch_enabled = False
disp.dispatch('ping', 'c')
disp.dispatch('pong', 'd')
disp.dispatch_enabled = True
LOG.append('~ enabled %s' % disp.dispatch_enabled)
flush('callback disabling during the release', sort=False)
keeper.action = None
disp.dispatch_enabled = True
flush('rest of the queue', sort=False)


def wipe(self):
    disp.clear()


keeper.action = wipe
disp.dispatch_enabled = False
disp.dispatch('ping', 'e')
disp.dispatch('pong', 'lost with the clear')
disp.dispatch_enabled = True
LOG.append('~ enabled %s, is_handler %s' % (disp.dispatch_enabled,
                                            disp.is_handler(keeper)))
disp.dispatch('ping', 'nobody')
flush('callback clearing the dispatcher during the release', sort=False)


def explode(self):
    raise RuntimeError('listener failed')


disp.add_handler(keeper)
keeper.action = explode
disp.dispatch_enabled = False
disp.dispatch('ping', 'f')
disp.dispatch('pong', 'g')
try:
    disp.dispatch_enabled = True
except RuntimeError as exc:
    LOG.append('~ raised RuntimeError')
LOG.append('~ enabled %s' % disp.dispatch_enabled)
flush('callback raising during the release', sort=False)
disp.dispatch_enabled = True
flush('the failed event is not delivered again', sort=False)
