"""Exercise world loading from dictionaries and JSON files.

Public API only. Prints a canonical transcript (``World.get`` results
are sorted, everything else shown is ordered by specification).
"""
import json
import os
import sys
import tempfile

import desper

LOG = []
THIS = sys.modules[__name__].__name__      # "__main__" when run as a script


def flush(title):
    """Print and forget logged events.

    ``on_world_load`` is broadcast to several handlers in an order
    depending on set iteration: from its first delivery on, lines are
    sorted.
    """
    lines = list(LOG)
    for index, line in enumerate(lines):
        if line.startswith('on_world_load'):
            lines[index:] = sorted(lines[index:])
            break
    print(f'  [{title}]', '; '.join(lines) if lines else '-')
    LOG.clear()


def show(value):
    """Stable description of an argument value."""
    if isinstance(value, desper.Handle):
        return f'<handle {value.key} of {show_parent(value)}>'
    if isinstance(value, desper.ResourceMap):
        return f'<map {value.key} with {sorted(value.maps)} '\
               f'{sorted(value.handles)}>'
    if isinstance(value, desper.World):
        return '<world>'
    if isinstance(value, type):
        return f'<class {value.__name__}>'
    if callable(value):
        return f'<callable {getattr(value, "__name__", "?")}>'
    if isinstance(value, Resource):
        return f'<resource {value.name}>'
    return repr(value)


def show_parent(handle):
    names = []
    node = handle.parent
    while node is not None and node.key is not None:
        names.append(node.key)
        node = node.parent
    return '/'.join(reversed(names)) or '<root>'


class Resource:
    def __init__(self, name):
        self.name = name


class CountingHandle(desper.Handle):
    def __init__(self, name):
        self.name = name
        self.loads = 0

    def load(self):
        self.loads += 1
        LOG.append(f'load {self.name} #{self.loads}')
        return Resource(self.name)


class Comp:
    def __init__(self, *args, **kwargs):
        self.args = args
        self.kwargs = kwargs
        LOG.append(f'new {type(self).__name__}')

    def describe(self):
        args = ', '.join(show(a) for a in self.args)
        kwargs = ', '.join(f'{k}={show(v)}'
                           for k, v in self.kwargs.items())
        return f'{type(self).__name__}({args} | {kwargs})'


class SubComp(Comp):
    pass


class OtherComp(Comp):
    pass


@desper.event_handler('on_add', 'on_remove', 'on_world_load')
class HandlerComp(Comp):
    def on_add(self, entity, world):
        LOG.append(f'on_add {self.describe()}@{entity!r}')

    def on_remove(self, entity, world):
        LOG.append(f'on_remove {self.describe()}@{entity!r}')

    def on_world_load(self, handle, world):
        LOG.append(f'on_world_load {self.args[:1]} handle={type(handle).__name__} '
                   f'world={type(world).__name__} '
                   f'enabled={world.dispatch_enabled}')


class ReenteringComp(HandlerComp):
    """Handler calling back into the world while events are released."""

    def on_add(self, entity, world):
        super().on_add(entity, world)
        world.add_component(entity, OtherComp('added by on_add'))
        world.create_entity(HandlerComp('spawned by on_add'),
                            entity_id=('spawn', entity))

    def on_world_load(self, handle, world):
        super().on_world_load(handle, world)
        world.create_entity(Comp('spawned by on_world_load'))


class Boom(Exception):
    pass


class RaisingOnAdd(HandlerComp):
    def on_add(self, entity, world):
        super().on_add(entity, world)
        raise Boom('on_add')


class RaisingConstructor(Comp):
    def __init__(self, *args, **kwargs):
        super().__init__(*args, **kwargs)
        raise Boom('constructor')


class Proc(desper.Processor):
    def __init__(self, *args, **kwargs):
        self.args = args
        self.kwargs = kwargs
        LOG.append(f'new {type(self).__name__}')

    def process(self, dt):
        LOG.append(f'process {type(self).__name__} {dt!r}')

    describe = Comp.describe


class EarlyProc(Proc):
    priority = -5


class LateProc(Proc):
    priority = 5


@desper.event_handler('on_add')
class HandlerProc(Proc):
    priority = 1

    def on_add(self):
        LOG.append(f'proc on_add world={self.world is not None}')


CONSTANT = ('a', 'constant', 'tuple')
not_callable = 42


def factory(*args, **kwargs):
    """A callable that is not a class."""
    return OtherComp('from factory', *args, **kwargs)


def dump(world, title):
    print(f'  ({title}) dispatch_enabled={world.dispatch_enabled}')
    print('   processors:', [p.describe() if isinstance(p, Proc)
                             else type(p).__name__
                             for p in world.processors])
    print('   entities:', [repr(e) for e in world.entities])
    for entity in world.entities:
        print(f'   {entity!r}:', [c.describe() for c
                                  in world.get_components(entity)])
    print('   get(Comp):', sorted((repr(e), c.describe())
                                  for e, c in world.get(Comp)))


def attempt(title, function, *args, **kwargs):
    try:
        result = function(*args, **kwargs)
    except BaseException as exception:
        cause = exception.__context__
        print(f'  {title} -> raised {type(exception).__name__}'
              f' (context {type(cause).__name__})')
        return None
    print(f'  {title} -> {type(result).__name__}')
    return result


def scenario_dict():
    print('scenario populate_world_from_dict')
    world = desper.World()
    desper.populate_world_from_dict(world, {})
    desper.populate_world_from_dict(world, {'processors': [],
                                            'entities': []})
    dump(world, 'empty')
    description = {
        'processors': [
            {'type': LateProc},
            {'type': Proc, 'args': [1, None], 'kwargs': {'k': ''}},
            {'type': EarlyProc, 'kwargs': {}},
            {'type': HandlerProc, 'args': ()},
        ],
        'entities': [
            {'components': [{'type': Comp, 'args': [0, '', None, [], {}]}]},
            {'id': 'named', 'components': [
                {'type': Comp, 'kwargs': {'x': 1, 'y': [1, {'z': 2}]}},
                {'type': SubComp, 'args': ['${not.resolved.here}']},
                {'type': HandlerComp, 'args': ['h'], 'kwargs': {'k': False}},
            ]},
            {'id': 0, 'components': [{'type': Comp, 'args': ['zero id']}]},
            {'id': '', 'components': [{'type': Comp, 'args': ['empty id']}]},
            {'id': 7, 'components': []},
            {'id': 8},
            {'components': [{'type': Comp, 'args': ['first']},
                            {'type': Comp, 'args': ['second, same type']},
                            {'type': factory, 'args': (1,)}]},
            {'id': None, 'components': [{'type': OtherComp}]},
            {'id': 'named', 'components': [{'type': OtherComp,
                                            'args': ['joins named']}]},
            {'id': 2, 'components': [{'type': Comp, 'args': ['taken id']}]},
            {'components': [{'type': Comp, 'args': ['auto after taken']}]},
        ],
    }
    desper.populate_world_from_dict(world, description)
    flush('populate')
    dump(world, 'populated')
    world.process(0.5)
    flush('process')
    # Dispatching disabled: events are postponed
    world2 = desper.World()
    world2.dispatch_enabled = False
    desper.populate_world_from_dict(world2, description)
    flush('populate disabled')
    world2.dispatch_enabled = True
    flush('enabled')
    attempt('missing type', desper.populate_world_from_dict, desper.World(),
            {'entities': [{'components': [{'args': [1]}]}]})
    attempt('missing processor type', desper.populate_world_from_dict,
            desper.World(), {'processors': [{'args': [1]}]})
    partial = desper.World()
    attempt('raising constructor', desper.populate_world_from_dict, partial,
            {'processors': [{'type': Proc}],
             'entities': [{'components': [{'type': Comp}]},
                          {'components': [{'type': Comp},
                                          {'type': RaisingConstructor},
                                          {'type': SubComp}]},
                          {'components': [{'type': Comp}]}]})
    flush('raising constructor')
    dump(partial, 'partially populated')


WORLD_JSON = {
    'processors': [
        {'type': f'{THIS}.LateProc', 'args': ['${' + THIS + '.CONSTANT}']},
        {'type': f'{THIS}.EarlyProc',
         'kwargs': {'res': '$res{sprites.hero}', 'n': 3}},
        {'type': 'desper.OnUpdateProcessor'},
    ],
    'entities': [
        {'components': [
            {'type': f'{THIS}.Comp', 'args': [
                '${' + THIS + '.Comp}', '${json.dumps}', '${os.path.sep}',
                '$res{sprites.hero}', '$handle{sprites.hero}',
                '$res{deep.a.b.c.leaf}', '$handle{deep.a.b.c.leaf}',
                '$handle{deep.a.b}', '$res{deep.a}',
                '$handle{missing.thing}', '$handle{sprites}',
            ]},
        ]},
        {'id': 'plain', 'components': [
            {'type': f'{THIS}.SubComp', 'args': [
                0, 1.5, None, True, '', 'text', [], {}, ['${json.dumps}'],
                {'k': '$res{sprites.hero}'},
                ' ${json.dumps}', 'x${json.dumps}', '$', '${}', '$res{}',
                '$handle{}', '$res', '$handle', '{json.dumps}', '$ {json}',
                '$RES{sprites.hero}', '$resource{sprites.hero}',
                '\\${json.dumps}',
            ], 'kwargs': {
                'a': '${' + THIS + '.factory}',
                'b': '$res{sprites.hero}',
                'c': 'c',
                'd': None,
                'e': '${json.dumps} trailing',
                'f': '$handle{sprites.hero}tail',
                'g': '$res{sprites/hero}',
            }},
            {'type': f'{THIS}.factory', 'args': ['$handle{world}']},
        ]},
        {'id': 12, 'components': [
            {'type': f'{THIS}.HandlerComp', 'args': ['first handler']},
            {'type': f'{THIS}.ReenteringComp',
             'args': ['reentrant', '$res{sprites.villain}']},
        ]},
        {'id': 'empty'},
        {'components': [{'type': f'{THIS}.OtherComp',
                         'kwargs': {'same': '$res{sprites.villain}'}}]},
    ],
}


def make_tree(directory, description, name='world.json'):
    filename = os.path.join(directory, name)
    with open(filename, 'w') as fout:
        json.dump(description, fout)

    root = desper.ResourceMap()
    handles = {}
    for key in ('sprites/hero', 'sprites/villain', 'deep/a/b/c/leaf',
                'deep/a/b/other'):
        handles[key] = CountingHandle(key)
        root[key] = handles[key]
    world_handle = desper.WorldFromFileHandle(filename)
    root['world'] = world_handle
    return root, world_handle, handles


def scenario_file(directory):
    print('scenario file handle in a resource map')
    root, world_handle, handles = make_tree(directory, WORLD_JSON)
    world = root['world']
    flush('load')
    print('  cached:', world_handle.cached, root['world'] is world,
          {k: h.loads for k, h in handles.items()})
    dump(world, 'loaded')
    shared = [c.kwargs['same'] for _, c in world.get(OtherComp)
              if 'same' in c.kwargs]
    reentrant = world.get(ReenteringComp)[0][1]
    print('  same resource object everywhere:',
          shared[0] is reentrant.args[1], shared[0] is root['sprites/villain'])
    world.dispatch_enabled = True
    flush('enable')
    dump(world, 'enabled')
    world.process(0.25)
    flush('process')
    world_handle.clear()
    world_again = world_handle()
    flush('reload')
    print('  new world:', world_again is not world,
          {k: h.loads for k, h in handles.items()})
    world_again.dispatch_enabled = True
    flush('enable reloaded')

    # Custom split character
    desper.ResourceMap.split_char = ':'
    try:
        root2 = desper.ResourceMap()
        root2['sprites:hero'] = CountingHandle('colon hero')
        root2['sprites:villain'] = CountingHandle('colon villain')
        filename2 = os.path.join(directory, 'colon.json')
        with open(filename2, 'w') as fout:
            json.dump({'entities': [{'components': [
                {'type': f'{THIS}.Comp',
                 'args': ['$res{sprites.hero}', '$handle{sprites.villain}',
                          '$handle{sprites:villain}', '$handle{sprites/hero}',
                          '$handle{levels.one.world}'],
                 'kwargs': {'k': '$res{sprites.villain}'}}]}]}, fout)
        handle2 = desper.WorldFromFileHandle(filename2)
        root2['levels:one:world'] = handle2
        world2 = attempt('split char', handle2)
        flush('split char')
        if world2 is not None:
            dump(world2, 'split char')
    finally:
        desper.ResourceMap.split_char = '/'


def scenario_errors(directory):
    print('scenario errors')
    cases = {
        'unknown module': {'processors': [{'type': 'nonexistent_mod.X'}]},
        'unknown attribute': {'entities': [{'components': [
            {'type': f'{THIS}.Nope'}]}]},
        'not callable': {'entities': [{'components': [
            {'type': f'{THIS}.not_callable'}]}]},
        'unknown object argument': {'entities': [{'components': [
            {'type': f'{THIS}.Comp', 'args': ['$res{sprites.hero}',
                                              '${' + THIS + '.nope}']}]}]},
        'greedy marker': {'entities': [{'components': [
            {'type': f'{THIS}.Comp',
             'kwargs': {'e': '${json.dumps} trailing }'}}]}]},
        'unknown resource': {'entities': [{'components': [
            {'type': f'{THIS}.Comp',
             'kwargs': {'a': '$res{sprites.hero}',
                        'b': '$res{sprites.nobody}'}}]}]},
        'raising constructor': {'entities': [
            {'components': [{'type': f'{THIS}.Comp',
                             'args': ['$res{sprites.hero}']}]},
            {'components': [{'type': f'{THIS}.RaisingConstructor'}]}]},
        'missing type': {'entities': [{'components': [{'args': []}]}]},
        'top level list': [],
        'entities not a list': {'processors': [{'type': f'{THIS}.Proc'}],
                                'entities': 5},
    }
    for title, description in cases.items():
        root, world_handle, handles = make_tree(directory, description,
                                                'broken.json')
        attempt(title, world_handle)
        flush(title)
        print('   cached:', world_handle.cached,
              {k: h.loads for k, h in handles.items() if h.loads})

    lonely = desper.WorldFromFileHandle(
        os.path.join(directory, 'world.json'))
    attempt('handle outside of any map', lonely)
    flush('lonely')
    parent = desper.Handle()
    lonely.parent = parent
    attempt('handle whose root is not a map', lonely)
    flush('lonely 2')
    attempt('missing file', desper.WorldFromFileHandle(
        os.path.join(directory, 'nope.json')))

    root, world_handle, handles = make_tree(directory, {'entities': [
        {'id': 1, 'components': [
            {'type': f'{THIS}.RaisingOnAdd', 'args': ['raises on add']},
            {'type': f'{THIS}.HandlerComp', 'args': ['after raiser']}]}]})
    world = world_handle()
    flush('load with raising on_add')
    try:
        world.dispatch_enabled = True
    except Boom:
        LOG.append('enabling raised Boom')
    flush('enable')
    world.dispatch_enabled = True
    flush('enable again')
    dump(world, 'after raising on_add')


def scenario_transformers(directory):
    print('scenario dict transformers called directly')
    root, world_handle, handles = make_tree(directory, {})
    world = desper.World()

    data = {'type': f'{THIS}.Comp', 'args': ['${json.dumps}', 1],
            'kwargs': {'k': '$res{sprites.hero}'}}
    args_list, kwargs_map = data['args'], data['kwargs']
    desper.type_dict_transformer(world_handle, world, {}, data)
    print('  type:', show(data['type']))
    desper.object_dict_transformer(world_handle, world, {}, data)
    print('  object:', [show(a) for a in data['args']],
          {k: show(v) for k, v in data['kwargs'].items()},
          data['args'] is args_list, data['kwargs'] is kwargs_map)
    desper.resource_dict_transformer(world_handle, world, {}, data)
    flush('resource')
    print('  resource:', [show(a) for a in data['args']],
          {k: show(v) for k, v in data['kwargs'].items()},
          data['args'] is args_list, data['kwargs'] is kwargs_map)
    for transformer in (desper.object_dict_transformer,
                        desper.resource_dict_transformer):
        bare = {'type': Comp}
        transformer(world_handle, world, {}, bare)
        print('  no args:', sorted(bare))

    # A failure leaves the dictionary untouched
    failing = {'args': ['${json.dumps}', '${nonexistent_mod.thing}'],
               'kwargs': {'k': '${json.loads}'}}
    attempt('failing object', desper.object_dict_transformer, world_handle,
            world, {}, failing)
    print('  untouched:', failing)
    failing = {'args': ['$handle{sprites.hero}'],
               'kwargs': {'a': '$res{sprites.villain}',
                          'k': '$res{sprites.nobody}'}}
    attempt('failing resource', desper.resource_dict_transformer,
            world_handle, world, {}, failing)
    flush('failing resource')
    print('  partly done:', [show(a) for a in failing['args']],
          failing['kwargs'])
    tuple_args = {'args': ('$res{deep.a.b.other}',)}
    attempt('tuple args', desper.resource_dict_transformer, world_handle,
            world, {}, tuple_args)
    flush('tuple args')

    class StrSubclass(str):
        pass

    odd = {'args': [StrSubclass('${json.dumps}'), b'${json.dumps}']}
    desper.object_dict_transformer(world_handle, world, {}, odd)
    print('  odd strings:', [show(a) for a in odd['args']])
    print('  object_from_string:',
          show(desper.object_from_string('os.path.join')),
          show(desper.object_from_string(f'{THIS}.Comp.describe')))
    attempt('object_from_string non string', desper.object_from_string, 5)
    attempt('object_from_string empty', desper.object_from_string, '')

    print('scenario custom transformer lists')
    seen = []

    def spy(handle, world, initial, passthrough):
        seen.append((sorted(initial), initial == passthrough,
                     initial is not passthrough))
        initial['poisoned'] = True
        if isinstance(initial.get('args'), list):
            initial['args'].append('poison')

    def renamer(handle, world, initial, passthrough):
        passthrough['kwargs'] = dict(passthrough.get('kwargs', {}),
                                     renamed=len(seen))
        # Re-enter the world being loaded
        if not world.entities:
            world.create_entity(OtherComp('made by a transformer'),
                                entity_id=1)
        world.add_component('x', HandlerComp(f'transformer {len(seen)}'))

    def failing_transformer(handle, world, initial, passthrough):
        if passthrough.get('args') == ['fail here']:
            raise Boom('custom transformer')

    filename = os.path.join(directory, 'custom.json')
    with open(filename, 'w') as fout:
        json.dump({'processors': [{'type': f'{THIS}.Proc', 'args': [1]}],
                   'entities': [
                       {'components': [{'type': f'{THIS}.Comp'},
                                       {'type': f'{THIS}.SubComp',
                                        'args': [2]}]},
                       {'id': 'x', 'components': [
                           {'type': f'{THIS}.OtherComp',
                            'kwargs': {'k': '${json.dumps}'}}]}]}, fout)
    handle = desper.WorldHandle()
    handle.filename = filename
    handle.transform_functions.append(
        lambda h, w: LOG.append('first function'))
    handle.transform_functions.append(desper.WorldFromFileTransformer(
        [spy, desper.type_dict_transformer, renamer, spy,
         desper.object_dict_transformer]))
    handle.transform_functions.append(
        lambda h, w: LOG.append(f'last function {len(w.entities)}'))
    world = handle()
    flush('custom load')
    print('  spy saw:', seen)
    dump(world, 'custom')
    with open(filename, 'w') as fout:
        json.dump({'entities': [{'components': [
            {'type': f'{THIS}.Comp'},
            {'type': f'{THIS}.Comp', 'args': ['fail here']}]}]}, fout)
    handle = desper.WorldHandle()
    handle.filename = filename
    handle.transform_functions.append(desper.WorldFromFileTransformer(
        [desper.type_dict_transformer, failing_transformer]))
    try:
        handle()
    except Boom as exception:
        message = str(exception)
        print('  wrapped Boom:', 'custom transformer' in message,
              filename in message, 'fail here' in message,
              type(exception.__context__).__name__)
    flush('failing transformer')
    no_transformers = desper.World()
    attempt('no dict transformers', desper.WorldFromFileTransformer(),
            handle, no_transformers)
    flush('no dict transformers')


with tempfile.TemporaryDirectory() as directory:
    scenario_dict()
    assert not LOG, LOG
    for scenario in (scenario_file, scenario_errors, scenario_transformers):
        scenario(directory)
        assert not LOG, LOG
