"""Exercise Controller shorthands, Component/ProcessorReference, Prototype
and OnUpdateProcessor through the public API; print a canonical transcript."""
import functools
import types

import desper

LOG = []


def flush(title):
    print(f'--- {title}')
    for entry in LOG:
        print('  ', entry)
    LOG.clear()


def attempt(label, fn):
    try:
        value = fn()
    except Exception as ex:
        LOG.append((label, 'raised', type(ex).__name__, str(ex)))
        return None
    LOG.append((label, 'returned', repr(value)))
    return value


# ---------------------------------------------------------------- Prototype

class Tagged:
    made = 0

    def __init__(self, how='default ctor'):
        Tagged.made += 1
        self.how = how
        LOG.append(('built', type(self).__name__, how))

    def __repr__(self):
        return f'{type(self).__name__}<{self.how}>'


class Alpha(Tagged):
    pass


class Beta(Tagged):
    pass


class Gamma(Tagged):
    pass


class Delta(Gamma):
    pass


def make_prototype(name, in_dict, named, prefix='init_', base=desper.Prototype,
                   types_=(Alpha, Beta, Gamma, Delta)):
    """Build a Prototype subclass: `in_dict` / `named` are sets of types for
    which an init_methods entry / a named init method exists."""
    namespace = {'component_types': tuple(types_), 'init_prefix': prefix}
    if in_dict is not None:
        namespace['init_methods'] = {
            t: (lambda comp_t, t=t: comp_t(f'dict entry of {name}'))
            for t in in_dict}
    for t in named:
        def method(self, comp_t, t=t):
            return comp_t(f'method {prefix}{t.__name__} of {name}')
        namespace[f'{prefix}{t.__name__}'] = method
    return type(name, (base,), namespace)


def scenario_prototype_combinations():
    all_types = (Alpha, Beta, Gamma, Delta)
    n = 0
    for dict_mask in range(4):
        for named_mask in range(4):
            in_dict = [t for i, t in enumerate((Alpha, Gamma)) if dict_mask >> i & 1]
            named = [t for i, t in enumerate((Alpha, Beta)) if named_mask >> i & 1]
            n += 1
            proto_t = make_prototype(f'P{n}', in_dict, named)
            comps = list(proto_t())
            LOG.append(('result', [repr(c) for c in comps],
                        [type(c) is t for c, t in zip(comps, all_types)]))
            flush(f'prototype dict={[t.__name__ for t in in_dict]} '
                  f'named={[t.__name__ for t in named]}')


def scenario_prototype_oddities():
    # custom prefix, an init_ method is then ignored
    p = make_prototype('Custom', [Beta], [Alpha, Beta], prefix='build')
    p.init_Gamma = lambda self, comp_t: comp_t('WRONG: default prefix method')
    LOG.append(('result', [repr(c) for c in p()]))
    flush('custom prefix')
    # subclass overrides: method overridden, dict replaced, types extended
    base = make_prototype('Base', [Gamma], [Alpha, Beta])

    class Child(base):
        component_types = base.component_types + (Alpha,)
        init_methods = {Beta: lambda comp_t: comp_t('child dict')}

        def init_Alpha(self, comp_t):
            return comp_t('child method')
    LOG.append(('result', [repr(c) for c in Child()]))
    LOG.append(('base untouched', [repr(c) for c in base()]))
    flush('subclass overrides')
    # plain Prototype, empty prototype, arguments in __init__
    LOG.append(('empty', list(desper.Prototype())))

    class WithArgs(desper.Prototype):
        component_types = (Alpha, Beta)

        def __init__(self, x):
            self.x = x

        def init_Beta(self, comp_t):
            return comp_t(f'x={self.x}')
    LOG.append(('args', [repr(c) for c in WithArgs(0)],
                [repr(c) for c in WithArgs(None)]))
    flush('plain / empty / args')
    # laziness: one component per step; the type list is fixed by iter()
    proto = make_prototype('Lazy', [], [])()
    it = iter(proto)
    LOG.append(('iter returned', type(it).__name__, it is iter(it)))
    proto.component_types = (Delta,)
    LOG.append(('next', repr(next(it))))
    LOG.append(('next', repr(next(it))))
    proto.init_methods = {Gamma: lambda comp_t: comp_t('late dict entry')}
    proto.init_Delta = lambda comp_t: comp_t('late instance attribute')
    LOG.append(('rest', [repr(c) for c in it]))
    LOG.append(('second iteration', [repr(c) for c in proto]))
    LOG.append(('independent iterators',
                [repr(a) + repr(b) for a, b in zip(proto, proto)]))
    flush('laziness')
    # every lookup happens, in a fixed order, even when the dict wins

    class Spy(desper.Prototype):
        component_types = (Alpha, Beta, Gamma)
        init_methods = {Alpha: lambda comp_t: comp_t('spy dict')}

        def __getattribute__(self, name):
            if not name.startswith('__'):
                LOG.append(('lookup', name))
            return object.__getattribute__(self, name)

        def __getattr__(self, name):
            LOG.append(('missing', name))
            raise AttributeError(name)

        @property
        def init_Alpha(self):
            LOG.append(('property read', 'init_Alpha'))
            return lambda comp_t: comp_t('WRONG: dict entry must win')

        def init_Beta(self, comp_t):
            return comp_t('spy method')
    LOG.append(('result', [repr(c) for c in Spy()]))
    flush('lookup order')
    # things that go wrong, and when
    partial = functools.partial(Alpha, 'partial')

    class NoName(desper.Prototype):
        component_types = (Beta, partial, Gamma)
        init_methods = {partial: lambda comp_t: comp_t()}
    it = iter(NoName())
    attempt('noname 1', lambda: next(it))
    attempt('noname 2', lambda: next(it))
    attempt('noname 3', lambda: next(it))

    class NotIterable(desper.Prototype):
        component_types = None
    attempt('not iterable', lambda: iter(NotIterable()))

    class Lazy(desper.Prototype):
        component_types = (t for t in (Alpha, Beta))    # a one-shot iterable
    attempt('generator types', lambda: [repr(c) for c in Lazy()])
    attempt('generator types again', lambda: [repr(c) for c in Lazy()])

    class IntPrefix(desper.Prototype):
        component_types = (Alpha,)
        init_prefix = 7
    setattr(IntPrefix, '7Alpha', lambda self, comp_t: comp_t('int prefix'))
    attempt('int prefix', lambda: [repr(c) for c in IntPrefix()])

    class BadEntry(desper.Prototype):
        component_types = (Alpha, Beta)
        init_methods = {Alpha: None}
    it2 = iter(BadEntry())
    attempt('none entry', lambda: next(it2))
    attempt('after failure', lambda: next(it2))

    class Raising(desper.Prototype):
        component_types = (Alpha, Beta, Gamma)

        def init_Beta(self, comp_t):
            raise ValueError('cannot build Beta')
    it3 = iter(Raising())
    attempt('raising 1', lambda: next(it3))
    attempt('raising 2', lambda: next(it3))
    attempt('raising 3', lambda: next(it3))

    class Unhashable(desper.Prototype):
        component_types = (Alpha,)
        init_methods = types.MappingProxyType({})
    attempt('mapping proxy', lambda: [repr(c) for c in Unhashable()])
    w = desper.World()
    e = w.create_entity(*make_prototype('InWorld', [Alpha], [Beta])())
    LOG.append(('in world', sorted(repr(c) for c in w.get_components(e))))
    flush('failures')


# ------------------------------------------------- Controllers / references

class Comp:
    def __init__(self, tag):
        self.tag = tag

    def __repr__(self):
        return f'{type(self).__name__}({self.tag})'


class SubComp(Comp):
    pass


class OtherComp:
    def __repr__(self):
        return 'OtherComp()'

    def __bool__(self):
        return False


class Proc(desper.Processor):
    def __init__(self, tag):
        self.tag = tag

    def process(self, dt):
        LOG.append(('proc', self.tag, dt))

    def __repr__(self):
        return f'{type(self).__name__}({self.tag})'


class SubProc(Proc):
    priority = -3


@desper.event_handler('on_remove')
class Ctl(desper.Controller):
    comp = desper.ComponentReference(Comp)
    sub = desper.ComponentReference(SubComp)
    other = desper.ComponentReference(OtherComp)
    proc = desper.ProcessorReference(Proc)
    subproc = desper.ProcessorReference(SubProc)

    def __init__(self, tag):
        self.tag = tag

    def on_remove(self, entity, world):
        LOG.append(('ctl removed', self.tag, repr(entity)))

    def __repr__(self):
        return f'Ctl({self.tag})'


def world_view(w, ids):
    view = []
    for e in ids:
        view.append((repr(e), w.entity_exists(e),
                     sorted(repr(c) for c in w.get_components(e))))
    view.append(('processors', [repr(p) for p in w.processors]))
    return view


def twin_worlds(prepare):
    """Two worlds brought to the same state: one is driven through the
    controller shorthands, the other through World calls."""
    pair = []
    for _ in range(2):
        w = desper.World()
        ctl = Ctl('c')
        prepare(w, ctl)
        pair.append((w, ctl))
    return pair


def compare(title, prepare, ids=(1, 2, 'x', 0)):
    (w1, c1), (w2, c2) = twin_worlds(prepare)
    e = c1.entity
    LOG.append(('knows', repr(c1.entity), c1.world is w1,
                c2.world is w2, repr(c2.entity)))
    steps = [
        ('has Comp', lambda: c1.has_component(Comp),
         lambda: w2.has_component(e, Comp)),
        ('get Comp', lambda: repr(c1.get_component(Comp)),
         lambda: repr(w2.get_component(e, Comp))),
        ('ref comp', lambda: repr(c1.comp),
         lambda: repr(w2.get_component(e, Comp))),
        ('ref sub', lambda: repr(c1.sub),
         lambda: repr(w2.get_component(e, SubComp))),
        ('ref other', lambda: repr(c1.other),
         lambda: repr(w2.get_component(e, OtherComp))),
        ('get comps', lambda: sorted(map(repr, c1.get_components())),
         lambda: sorted(map(repr, w2.get_components(e)))),
        ('add Comp', lambda: c1.add_component(Comp('added')),
         lambda: w2.add_component(e, Comp('added'))),
        ('set sub', lambda: setattr(c1, 'sub', SubComp('set')),
         lambda: w2.add_component(e, SubComp('set'))),
        ('set other', lambda: setattr(c1, 'other', OtherComp()),
         lambda: w2.add_component(e, OtherComp())),
        ('ref comp 2', lambda: repr(c1.comp),
         lambda: repr(w2.get_component(e, Comp))),
        ('remove Comp', lambda: repr(c1.remove_component(Comp)),
         lambda: repr(w2.remove_component(e, Comp))),
        ('del comp', lambda: delattr(c1, 'comp'),
         lambda: (w2.remove_component(e, Comp), None)[1]),
        ('del comp again', lambda: delattr(c1, 'comp'),
         lambda: (w2.remove_component(e, Comp), None)[1]),
        ('has Comp 2', lambda: c1.has_component(Comp),
         lambda: w2.has_component(e, Comp)),
        ('ref proc', lambda: repr(c1.proc),
         lambda: repr(w2.get_processor(Proc))),
        ('set proc', lambda: setattr(c1, 'proc', Proc('set')),
         lambda: w2.add_processor(Proc('set'))),
        ('set subproc', lambda: setattr(c1, 'subproc', SubProc('set')),
         lambda: w2.add_processor(SubProc('set'))),
        ('ref proc 2', lambda: repr(c1.proc),
         lambda: repr(w2.get_processor(Proc))),
        ('del proc', lambda: delattr(c1, 'proc'),
         lambda: (w2.remove_processor(Proc), None)[1]),
        ('ref subproc', lambda: repr(c1.subproc),
         lambda: repr(w2.get_processor(SubProc))),
        ('del subproc', lambda: delattr(c1, 'subproc'),
         lambda: (w2.remove_processor(SubProc), None)[1]),
        ('del subproc again', lambda: delattr(c1, 'subproc'),
         lambda: (w2.remove_processor(SubProc), None)[1]),
        ('delete', lambda: c1.delete(), lambda: w2.delete_entity(e)),
        ('exists', lambda: w1.entity_exists(e), lambda: w2.entity_exists(e)),
        ('process', lambda: w1.process(2), lambda: w2.process(2)),
        ('has after', lambda: c1.has_component(Comp),
         lambda: w2.has_component(e, Comp)),
        ('get after', lambda: repr(c1.get_component(Ctl)),
         lambda: repr(w2.get_component(e, Ctl))),
        ('add after', lambda: c1.add_component(Comp('reborn')),
         lambda: w2.add_component(e, Comp('reborn'))),
    ]
    for label, short, plain in steps:
        def outcome(fn):
            try:
                return ('ok', fn())
            except Exception as ex:
                return ('raised', type(ex).__name__, str(ex))
        a, b = outcome(short), outcome(plain)
        va, vb = world_view(w1, ids), world_view(w2, ids)
        LOG.append((label, a, 'same result' if a == b else ('unlike the World call', b),
                    'same world' if va == vb else ('unlike the World call', va, vb)))
    LOG.append(('final', world_view(w1, ids)))
    flush(title)


def prepare_fresh(w, ctl):
    w.create_entity(ctl)


def prepare_rich(w, ctl):
    w.create_entity(Comp('other entity'))
    w.create_entity(ctl, Comp('mine'), SubComp('sub'), OtherComp())
    w.add_processor(Proc('p'))
    w.add_processor(SubProc('sp'))


def prepare_custom_id(w, ctl):
    w.create_entity(SubComp('only sub'), ctl, entity_id=0)
    w.create_entity(Comp('x'), entity_id='x')
    w.add_processor(SubProc('sp'), priority=4)


def prepare_dead(w, ctl):
    w.create_entity(ctl, Comp('doomed'), entity_id='x')
    w.delete_entity('x')


def prepare_disabled(w, ctl):
    w.dispatch_enabled = False
    w.create_entity(ctl, Comp('pending'))       # on_add still pending


def prepare_disabled_then_enabled(w, ctl):
    w.dispatch_enabled = False
    w.create_entity(Comp('1'))
    w.add_component(2, ctl)
    w.add_component(2, SubComp('s'))
    w.dispatch_enabled = True
    w.dispatch_enabled = False                  # shorthands while disabled


def prepare_moved(w, ctl):
    # the controller was removed from one entity and added to another one
    w.create_entity(ctl, Comp('old home'))
    w.remove_component(1, Ctl)
    w.create_entity(Comp('new home'), ctl)


def prepare_factory(w, ctl):
    # a bare controller built by desper.controller for an empty entity
    w.create_entity(Comp('somebody'))
    plain = desper.controller('x', w)
    ctl.entity, ctl.world = plain.entity, plain.world
    LOG.append(('factory', type(plain) is desper.Controller, plain.entity,
                plain.world is w, plain.has_component(Comp),
                plain.get_components(), w.is_handler(plain)))


def scenario_controllers():
    compare('controller: fresh entity', prepare_fresh)
    compare('controller: rich world', prepare_rich)
    compare('controller: custom falsy id', prepare_custom_id)
    compare('controller: entity awaiting deletion', prepare_dead)
    compare('controller: on_add still pending, not attached yet (shorthands cannot work)', prepare_disabled)
    compare('controller: disabled after enabling', prepare_disabled_then_enabled)
    compare('controller: moved to another entity', prepare_moved)
    compare('controller: factory made', prepare_factory)
    # wrong owners / wrong values
    w = desper.World()
    ctl = Ctl('c')
    w.create_entity(ctl)
    attempt('set wrong type', lambda: setattr(ctl, 'sub', Comp('not a sub')))
    attempt('set wrong proc', lambda: setattr(ctl, 'subproc', Proc('no')))
    attempt('set none', lambda: setattr(ctl, 'comp', None))
    attempt('class access', lambda: Ctl.comp)
    attempt('class access proc', lambda: Ctl.proc)
    attempt('bad ref', lambda: desper.ProcessorReference(Comp))
    unattached = Ctl('loose')
    attempt('unattached get', lambda: unattached.comp)
    attempt('unattached set', lambda: setattr(unattached, 'comp', Comp('z')))
    attempt('unattached del', lambda: delattr(unattached, 'comp'))
    attempt('unattached proc', lambda: unattached.proc)
    attempt('unattached has', lambda: unattached.has_component(Comp))
    attempt('unattached delete', lambda: unattached.delete())

    class Duck:
        """Not a Controller, just follows the protocol."""
        comp = desper.ComponentReference(Comp)
        proc = desper.ProcessorReference(Proc)

        def __init__(self, world, entity):
            self.world = world
            self.entity = entity
    duck = Duck(w, 1)
    attempt('duck set', lambda: setattr(duck, 'comp', SubComp('duck')))
    attempt('duck get', lambda: duck.comp)
    attempt('duck free function', lambda: desper.get_components(duck))
    attempt('duck has', lambda: desper.has_component(duck, SubComp))
    attempt('duck remove', lambda: desper.remove_component(duck, Comp))
    attempt('duck del', lambda: delattr(duck, 'comp'))
    attempt('duck proc', lambda: duck.proc)
    flush('reference misuse')


# -------------------------------------------------------- OnUpdateProcessor

@desper.event_handler('on_update')
class Updated:
    def __init__(self, name):
        self.name = name

    def on_update(self, dt):
        LOG.append(('on_update', self.name, repr(dt), type(dt).__name__))


class Weird:
    def __repr__(self):
        return 'Weird()'


def scenario_on_update():
    w = desper.World()
    a, b = Updated('a'), Updated('b')
    w.create_entity(a)
    w.process(1)
    flush('no processor: nothing')
    w.add_processor(desper.OnUpdateProcessor())
    for dt in (0, 1, 0.1, -2.5, float('inf'), 10 ** 20, True, None, 'text',
               Weird()):
        w.process(dt)
    w.process()
    flush('one listener, all kinds of dt')
    w.create_entity(b)
    w.process(0.25)
    LOG.sort()
    flush('two listeners (sorted)')
    w.dispatch_enabled = False
    w.process(1)
    w.process(2)
    flush('disabled: nothing')
    w.dispatch_enabled = True
    LOG[:] = sorted(LOG[:2]) + sorted(LOG[2:])
    flush('released: once each, frame order')
    other = desper.World()
    other.add_processor(desper.OnUpdateProcessor())
    other.process(9)
    w.remove_component(1, Updated)
    w.process(3)
    flush('other world silent; removed listener silent')
    w.remove_processor(desper.OnUpdateProcessor)
    w.process(4)
    flush('processor removed: nothing')


scenario_prototype_combinations()
scenario_prototype_oddities()
scenario_controllers()
scenario_on_update()
