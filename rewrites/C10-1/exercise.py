"""Exercise weak handler registration in EventDispatcher and World.

Public API only. Callback order inside one dispatch is unspecified, so the
calls of each dispatch are printed sorted, and the "who dies mid-dispatch"
scenarios are built symmetric so that only order-independent facts
(number of calls, no None receiver) are printed.
"""
import gc
import sys
import weakref

import desper

LOG = []


def unraisable(info):
    # Exceptions swallowed by the interpreter (eg. in weakref callbacks)
    print('unraisable:', type(info.exc_value).__name__, info.exc_value)


sys.unraisablehook = unraisable


def flush(title):
    print(f'--- {title}: {len(LOG)} call(s)')
    for line in sorted(LOG):
        print('   ', line)
    LOG.clear()


def check_receiver(receiver):
    if receiver is None:
        LOG.append('!!! None receiver')


@desper.event_handler('ping', 'pong')
class Listener:
    def __init__(self, name):
        self.name = name

    def ping(self, *args, **kwargs):
        check_receiver(self)
        LOG.append(f'{self.name}.ping{args}{sorted(kwargs.items())}')

    def pong(self):
        check_receiver(self)
        LOG.append(f'{self.name}.pong')


@desper.event_handler('extra', ping='renamed_ping')
class SubListener(Listener):
    def renamed_ping(self, *args, **kwargs):
        check_receiver(self)
        LOG.append(f'{self.name}.renamed_ping{args}')

    def extra(self):
        check_receiver(self)
        LOG.append(f'{self.name}.extra')


@desper.event_handler('ping')
class Falsy(Listener):
    def __bool__(self):
        return False

    def __len__(self):
        return 0


@desper.event_handler('ping', 'pong')
class Exotic:
    @classmethod
    def ping(cls, *args):
        LOG.append(f'Exotic.ping cls={cls.__name__} nargs={len(args)}')

    @staticmethod
    def pong(*args):
        LOG.append(f'Exotic.pong static nargs={len(args)}')


def alive(ref):
    gc.collect()
    return ref() is not None


# 1. plain register / drop
d = desper.EventDispatcher()
a, b = Listener('a'), Listener('b')
ra, rb = weakref.ref(a), weakref.ref(b)
d.add_handler(a)
d.add_handler(b)
d.dispatch('ping', 1, k=2)
flush('1 both')
print('1 is_handler', d.is_handler(a), d.is_handler(b))
del a
print('1 a alive', alive(ra))
d.dispatch('ping', 2)
d.dispatch('pong')
flush('1 after drop a')
d.remove_handler(b)
print('1 b is_handler', d.is_handler(b), 'alive', alive(rb))
d.dispatch('ping', 3)
flush('1 after remove b')
d.remove_handler(b)     # removing twice is harmless
del b
print('1 b alive', alive(rb))
d.dispatch('ping', 4)
d.dispatch('never_seen', 4)
flush('1 nobody')

# 2. inherited + renamed mappings, falsy handlers, class/static callbacks
d = desper.EventDispatcher()
s, f, x, plain = SubListener('s'), Falsy('f'), Exotic(), Listener('p')
for h in (s, f, x, plain):
    d.add_handler(h)
for event in ('ping', 'pong', 'extra'):
    d.dispatch(event)
    flush(f'2 {event}')
rs, rf, rx = weakref.ref(s), weakref.ref(f), weakref.ref(x)
del s, f, x, h
print('2 alive', alive(rs), alive(rf), alive(rx))
for event in ('ping', 'pong', 'extra'):
    d.dispatch(event, *(() if event != 'ping' else (7,)))
    flush(f'2 {event} after drop')

# 3. the same handler added twice
d = desper.EventDispatcher()
a = Listener('a')
ra = weakref.ref(a)
d.add_handler(a)
d.add_handler(a)
d.dispatch('ping')
flush('3 added twice')
d.remove_handler(a)
print('3 is_handler', d.is_handler(a))
d.dispatch('ping')
flush('3 removed once')
d.add_handler(a)
d.add_handler(a)
del a
print('3 alive', alive(ra))
d.dispatch('ping')
d.dispatch('pong')
flush('3 dropped')

# 4. handlers released in the middle of a dispatch (symmetric)
@desper.event_handler('boom')
class Killer:
    registry = {}

    def __init__(self, name):
        self.name = name

    def boom(self):
        check_receiver(self)
        LOG.append('Killer.boom')
        for name in list(self.registry):
            if name != self.name:
                del self.registry[name]
        gc.collect()


for n in (2, 3, 8, 40):
    d = desper.EventDispatcher()
    Killer.registry = {i: Killer(i) for i in range(n)}
    for k in Killer.registry.values():
        d.add_handler(k)
    del k
    d.dispatch('boom')
    flush(f'4 n={n} first')
    print('4 survivors', len(Killer.registry))
    d.dispatch('boom')
    flush(f'4 n={n} second')
Killer.registry = {}

# 5. the same through a World: callbacks removing components / entities
@desper.event_handler('boom', 'on_add', 'on_remove')
class Bomb:
    def on_add(self, entity, world):
        self.entity, self.world = entity, world

    def on_remove(self, entity, world):
        LOG.append('Bomb.on_remove')

    def boom(self, immediate):
        check_receiver(self)
        LOG.append('Bomb.boom')
        for entity, _ in self.world.get(Bomb):
            if entity != self.entity:
                if immediate == 'component':
                    self.world.remove_component(entity, Bomb)
                else:
                    self.world.delete_entity(entity, immediate)
        gc.collect()


class Bomb2(Bomb):
    pass


for mode in (True, False, 'component'):
    w = desper.World()
    for i in range(6):
        w.create_entity(Bomb() if i % 2 else Bomb2(), entity_id=f'e{i}')
    w.add_component('x', Listener('extra'))
    w.dispatch('boom', mode)
    flush(f'5 mode={mode} first')
    print('5 entities', len(w.entities), len(w.get(Bomb)))
    w.process()
    flush(f'5 mode={mode} process')
    w.dispatch('boom', mode)
    w.dispatch('ping')
    flush(f'5 mode={mode} second')
    print('5 entities', len(w.entities), len(w.get(Bomb)))

# 6. queued events and handlers dropped while dispatching is disabled
w = desper.World()
keep, drop = Listener('keep'), Listener('drop')
rdrop = weakref.ref(drop)
w.create_entity(keep)
e = w.create_entity(drop)
w.dispatch_enabled = False
w.dispatch('ping', 'queued')
w.dispatch('pong')
w.delete_entity(e, immediate=True)
del drop
print('6 drop alive', alive(rdrop))
flush('6 while disabled')
w.dispatch_enabled = True
flush('6 enabled')

d = desper.EventDispatcher()
h = Listener('h')
d.add_handler(h)
d.dispatch_enabled = False
d.dispatch('ping', 'q1')
d.dispatch('unknown', 'q2')
del h
gc.collect()
d.dispatch('ping', 'q3')
d.dispatch_enabled = True
flush('6 dispatcher enabled, handler gone')

# 7. a handler whose mapping names a missing method
@desper.event_handler('ping', 'missing', 'pong')
class Broken(Listener):
    pass


d = desper.EventDispatcher()
ok, broken = Listener('ok'), Broken('broken')
d.add_handler(ok)
try:
    d.add_handler(broken)
except AttributeError as ex:
    print('7 AttributeError', ex)
print('7 is_handler', d.is_handler(ok), d.is_handler(broken))
d.remove_handler(broken)
d.dispatch_enabled = False
d.dispatch('missing')
d.dispatch('pong')
d.dispatch('ping', 'stale')
d.dispatch_enabled = True
flush('7 after failed add')
rbroken = weakref.ref(broken)
del broken
print('7 broken alive', alive(rbroken))
d.dispatch('pong')
d.dispatch('ping', 'stale')
flush('7 after failed add and drop')

# 8. unhashable handler
@desper.event_handler('ping')
class Unhashable(Listener):
    def __eq__(self, other):
        return self is other


d = desper.EventDispatcher()
try:
    d.add_handler(Unhashable('u'))
    print('8 added')
except TypeError as ex:
    print('8 TypeError', ex)
try:
    d.add_handler(object())
except AssertionError:
    print('8 AssertionError for non handler')
d.dispatch('ping')
flush('8')

# 9. re-entrancy: callbacks adding, removing, nesting
@desper.event_handler('tick')
class Reentrant:
    spawned = []

    def __init__(self, dispatcher, name, depth):
        self.d, self.name, self.depth = dispatcher, name, depth

    def tick(self, level):
        check_receiver(self)
        LOG.append(f'tick level={level}')
        if level < self.depth:
            child = Reentrant(self.d, self.name + '+', self.depth)
            self.spawned.append(child)
            self.d.add_handler(child)
            self.d.remove_handler(self)
            self.d.dispatch('tick', level + 1)


d = desper.EventDispatcher()
root = Reentrant(d, 'r', 3)
d.add_handler(root)
d.dispatch('tick', 0)
flush('9 nested')
print('9 root is_handler', d.is_handler(root), len(Reentrant.spawned))
d.dispatch('tick', 99)
flush('9 flat')
Reentrant.spawned.clear()
gc.collect()
d.dispatch('tick', 100)
flush('9 all children dropped')

# 10. clear() and late deaths, world re-use after clear
w = desper.World()
late = Listener('late')
rlate = weakref.ref(late)
w.create_entity(late)
w.add_handler(late)
w.clear()
print('10 is_handler', w.is_handler(late), w.is_handler(w))
del late
print('10 late alive', alive(rlate))
w.dispatch('ping')
flush('10 after clear')
fresh = Listener('fresh')
w.create_entity(fresh)
w.dispatch('ping', 10)
flush('10 fresh')
rw = weakref.ref(w)
del w
print('10 world alive', alive(rw), 'fresh still usable', fresh.name)

# 11. many handlers, dropped in bulk
d = desper.EventDispatcher()
hs = [Listener(f'h{i:02}') if i % 3 else SubListener(f's{i:02}')
      for i in range(30)]
for h in hs:
    d.add_handler(h)
del h
d.dispatch('ping', 0)
flush('11 all')
del hs[::2]
gc.collect()
d.dispatch('ping', 1)
flush('11 half')
hs.clear()
gc.collect()
d.dispatch('ping', 2)
d.dispatch('extra')
flush('11 none')
