"""Exercise CoroutineProcessor scheduling through the public API.

Prints, frame by frame, which coroutines were advanced and in which
order, their states and promise values. Everything printed is
deterministic (no set iteration is involved in what is shown).
"""
import desper
from desper import CoroutineProcessor, CoroutineState

LOG = []


def flush(title):
    print(f'  [{title}]', ' '.join(LOG) if LOG else '-')
    LOG.clear()


def script(name, yields, result=None, hooks=None):
    """Coroutine logging each step, yielding the given values in turn.

    ``hooks`` maps a step index to a callable run at that step (before
    yielding), used for re-entrant calls and raising.
    """
    hooks = hooks or {}
    for index, value in enumerate(yields):
        LOG.append(f'{name}{index}')
        if index in hooks:
            hooks[index]()
        yield value
    LOG.append(f'{name}$')
    if len(yields) in hooks:
        hooks[len(yields)]()
    return result


def states(processor, named):
    return ' '.join(f'{name}={processor.state(gen).name[0]}'
                    for name, gen in named.items())


def run(processor, dts, named=None, promises=None):
    for frame, dt in enumerate(dts):
        try:
            processor.process(dt)
        except BaseException as exception:
            LOG.append(f'!{type(exception).__name__}')
        extra = ''
        if named:
            extra += ' | ' + states(processor, named)
        if promises:
            extra += ' | ' + ' '.join(f'{k}:{p.value!r}'
                                      for k, p in promises.items())
        print(f'  frame {frame} dt={dt!r}:', ' '.join(LOG) if LOG else '-',
              extra)
        LOG.clear()


def attempt(title, function, *args):
    try:
        result = function(*args)
    except BaseException as exception:
        print(f'  {title} -> raised {type(exception).__name__}')
        return None
    print(f'  {title} -> {type(result).__name__}')
    return result


class Boom(Exception):
    pass


def boom():
    raise Boom()


def scenario_basic():
    print('scenario basic: next-frame yields keep their order')
    p = CoroutineProcessor()
    named = {}
    promises = {}
    for name, yields, result in (
            ('a', [None, 0, -1, None, 0.0, -0.5], 'ra'),
            ('b', [None] * 3, 0),
            ('c', [], ''),
            ('d', [False, True, None, None], None),
            ('e', [None] * 8, ())):
        named[name] = script(name, yields, result)
        promises[name] = p.start(named[name])
    print('  promise links:', all(
        promises[k].generator is named[k] and promises[k].processor is p
        for k in named))
    run(p, [1, 0, 0.5, 2, 0, 0, 1, 1, 1, 1], named, promises)


def scenario_waits():
    print('scenario waits: wake exactly on time')
    p = CoroutineProcessor()
    named = {
        'a': script('a', [2, 2, 2]),
        'b': script('b', [0.5, 0.25, 3, None, 1]),
        'c': script('c', [None] * 12),
        'd': script('d', [5, None, 0.125]),
        'e': script('e', [1, 1, 1, 1, 1, 1]),
        'f': script('f', [10 ** 6, 1]),
        'g': script('g', [float('inf')]),
    }
    for gen in named.values():
        p.start(gen)
    run(p, [1, 0.5, 0.5, 0, 0.25, 0.75, 1, 1, 0.125, 0.125, 0.25, 4, 0, 1,
            10 ** 6, 1, 1], named)


def scenario_ties():
    print('scenario ties: many coroutines waking at the same time')
    p = CoroutineProcessor()
    named = {}
    # Same wake up times reached through different paths, interleaved
    # with earlier and later ones
    plans = [
        [3, 1], [1, 2, 1], [2, 1, 1], [3, 1], [None, 2, 1, 1],
        [1, 1, 1, 1], [3, 1], [None, None, 1, 1], [4], [3, 1], [0.5, 2.5, 1],
        [2, 1, 1], [3, None, 1], [1.5, 1.5, 1], [3, 1], [6], [3, 1],
    ]
    for index, plan in enumerate(plans):
        name = chr(ord('a') + index)
        named[name] = script(name, plan)
        p.start(named[name])
    run(p, [1, 0.5, 0.5, 1, 1, 0, 1, 1, 1, 1, 1])
    # A second batch on a processor whose timer is not zero
    p.start(script('z', [100]))
    run(p, [0.25])
    for index in range(12):
        p.start(script(f'w{index}_', [2 + (index * 7) % 3, 1, None]))
    run(p, [1, 1, 1, 1, 1, 1, 1, 1])


def scenario_kill_and_restart():
    print('scenario kill and restart')
    p = CoroutineProcessor()
    named = {
        'a': script('a', [None] * 10),
        'b': script('b', [3, None, None]),
        'c': script('c', [None] * 10),
        'd': script('d', [2, 2, 2]),
        'e': script('e', [None, 4, None]),
    }
    promises = {k: p.start(g) for k, g in named.items()}
    run(p, [1], named)
    p.kill(named['a'])
    promises['b'].kill()
    print('  after kills:', states(p, named))
    attempt('kill twice', p.kill, named['a'])
    attempt('kill unknown', p.kill, script('x', []))
    attempt('kill non generator', p.kill, 5)
    attempt('state non generator', p.state, 'gen')
    attempt('start non generator', p.start, [1])
    attempt('start running', p.start, named['c'])
    attempt('start paused', p.start, named['d'])
    run(p, [1], named)
    # Restart before the kill is applied: active and paused
    p.kill(named['c'])
    p.kill(named['d'])
    new_c = attempt('restart killed active', p.start, named['c'])
    new_d = attempt('restart killed paused', p.start, named['d'])
    print('  new promises:', new_c is not promises['c'],
          new_d is not promises['d'], states(p, named))
    run(p, [1, 1, 1], named)
    # Restart after the kill was applied
    p.kill(named['e'])
    run(p, [1, 1, 1, 1], named)
    attempt('restart dropped', p.start, named['e'])
    attempt('restart killed long ago', p.start, named['a'])
    attempt('restart killed while paused', p.start, named['b'])
    run(p, [1, 1, 1, 1, 1, 1], named)
    # Kill a paused one and let it expire unnoticed, with ties
    late = {k: script(k, [2, None]) for k in 'pqrs'}
    for gen in late.values():
        p.start(gen)
    run(p, [1], late)
    p.kill(late['q'])
    p.kill(late['s'])
    p.start(late['s'])
    run(p, [1, 1, 1, 1], late)
    print('  promise values:', {k: v.value for k, v in promises.items()},
          new_c.value, new_d.value)


def scenario_reentrant():
    print('scenario re-entrant coroutines')
    p = CoroutineProcessor()
    named = {}
    promises = {}

    def start(name, yields, result=None, hooks=None):
        named[name] = script(name, yields, result, hooks)
        promises[name] = p.start(named[name])

    start('victim', [None] * 6, 'victim-result')
    start('sleeper', [3, None], 'sleeper-result')
    start('spawner', [None, None, 2, None], 'spawner-result', {
        0: lambda: start('child1', [None, 1, None], 'c1'),
        1: lambda: (start('child2', [2, None], 'c2'),
                    start('child3', [None] * 3, 'c3')),
        3: lambda: p.kill(named['victim']),
    })
    start('suicidal', [None, 2, None], 'never', {
        1: lambda: p.kill(named['suicidal'])})
    start('lastwords', [None], 'last', {
        1: lambda: p.kill(named['lastwords'])})
    start('hitman', [None, None, None], 'done', {
        1: lambda: (p.kill(named['sleeper']), p.start(named['sleeper'])),
        2: lambda: LOG.append('(' + states(p, named) + ')'),
    })
    start('restarter', [None, None, None], 'restarted', {
        1: lambda: (p.kill(named['restarter']),
                    promises.__setitem__('restarter2',
                                         p.start(named['restarter'])))})
    start('selfstart', [None], 'x', {
        0: lambda: attempt('start self', p.start, named['selfstart'])})
    run(p, [1, 1, 1, 1, 1, 1, 1], named, promises)


def scenario_raising():
    print('scenario raising coroutines')
    p = CoroutineProcessor()
    named = {}
    promises = {}

    def start(name, yields, result=None, hooks=None):
        named[name] = script(name, yields, result, hooks)
        promises[name] = p.start(named[name])

    start('a', [None] * 8, 'ra')
    start('bad', [None, None], 'rbad', {1: boom})
    start('b', [None, 2, None, None], 'rb')
    start('quitter', [None, None, None], 'rq', {
        2: lambda: (_ for _ in ()).throw(desper.Quit())})
    start('c', [1, None, None, None], 'rc')
    start('switcher', [2, None], 'rs', {
        1: lambda: (_ for _ in ()).throw(
            desper.SwitchWorld(desper.Handle()))})
    start('killed-then-raises', [None, None, None], 'rk', {
        1: lambda: (p.kill(named['killed-then-raises']), boom())})
    start('exit', [None] * 4, 're', {3: lambda: exit(3)})
    run(p, [1, 1, 1, 1, 1, 1, 1, 1], named, promises)
    attempt('restart failed', p.start, named['bad'])
    run(p, [1], named, promises)


def scenario_timer():
    print('scenario timer: accumulated time with idle and zero frames')
    p = CoroutineProcessor()
    p.process(100)              # Nothing waits: time does not count
    p.start(script('a', [1.5, 1.5]))
    run(p, [0, 0, 0.5, 0.5, 0.25, 0.25, 0, 64, 0.5, 1, 0, 0])
    p.process(1000)
    p.start(script('b', [3]))
    p.start(script('c', [None, None, 2]))
    run(p, [1, 1, 1, 1, 1, 1])
    # Integer and boolean waits, huge dt
    p.start(script('d', [True, 2, 3]))
    p.start(script('e', [7]))
    run(p, [1, 1, 1, 1, 1, 1, 2 ** 40, 1])


def scenario_world():
    print('scenario world: decorator and processor inside a world')
    w = desper.World()
    p = CoroutineProcessor()
    w.add_processor(p)

    @desper.coroutine
    def worker(name, count, world=None):
        for index in range(count):
            LOG.append(f'{name}{index}')
            yield index % 2
        return name.upper()

    first = worker('a', 3, world=w)
    second = worker(world=w, count=4, name='b')
    print('  promises:', type(first).__name__, first.state.name,
          first.processor is p)
    for _ in range(7):
        w.process(1)
        print('  frame:', ' '.join(LOG) if LOG else '-',
              first.state.name, second.state.name, first.value, second.value)
        LOG.clear()
    attempt('no world', worker, 'c', 1)
    attempt('no processor', worker, 'c', 1, desper.World())


def scenario_pathological():
    print('scenario pathological: re-entrant process, bad yields')
    p = CoroutineProcessor()
    named = {}

    def start(name, yields, result=None, hooks=None):
        named[name] = script(name, yields, result, hooks)
        p.start(named[name])

    def nested():
        try:
            p.process(1)
        except BaseException as exception:
            LOG.append(f'(nested !{type(exception).__name__})')

    start('a', [None] * 4)
    start('nester', [None, None, None], None, {1: nested})
    start('b', [2, None, None])
    try:
        run(p, [1, 1, 1, 1, 1], named)
    except BaseException as exception:
        print('  run failed', type(exception).__name__)
    LOG.clear()

    q = CoroutineProcessor()
    named = {k: script(k, v) for k, v in (('a', [None] * 5),
                                          ('s', [None, 'soon', None]),
                                          ('b', [None] * 5))}
    for gen in named.values():
        q.start(gen)
    try:
        run(q, [1, 1, 1, 1], named)
    except BaseException as exception:
        print('  run failed', type(exception).__name__)
    LOG.clear()


for scenario in (scenario_basic, scenario_waits, scenario_ties,
                 scenario_kill_and_restart, scenario_reentrant,
                 scenario_raising, scenario_timer, scenario_world,
                 scenario_pathological):
    scenario()
    assert not LOG, LOG
