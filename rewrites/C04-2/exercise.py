"""Exercise deferred event release of EventDispatcher / World / SimpleLoop
through the public API only and print a canonical transcript."""
import desper

LOG = []


def flush(title):
    """Print the log. Consecutive deliveries of the very same event to
    several handlers have no specified relative order: sort each such run."""
    print(f'--- {title}')
    run = []
    for entry in LOG + [None]:
        if run and (entry is None or entry[1:] != run[0][1:]):
            for item in sorted(run):
                print('  ', item)
            run = []
        if entry is not None:
            run.append(entry)
    LOG.clear()


class Boom(Exception):
    pass


@desper.event_handler('ev_a', 'ev_b', ev_c='on_c')
class Listener:
    def __init__(self, name):
        self.name = name

    def ev_a(self, *args, **kwargs):
        LOG.append((self.name, 'ev_a', repr(args), repr(sorted(kwargs.items()))))

    def ev_b(self, *args, **kwargs):
        LOG.append((self.name, 'ev_b', repr(args), repr(sorted(kwargs.items()))))

    def on_c(self, *args, **kwargs):
        LOG.append((self.name, 'ev_c', repr(args), repr(sorted(kwargs.items()))))


@desper.event_handler('tick')
class Scripted:
    """Sole listener of ``tick``: runs a scripted action at chosen ticks."""

    def __init__(self, dispatcher, actions):
        self.dispatcher = dispatcher
        self.actions = actions

    def tick(self, n):
        LOG.append(('scripted', 'tick', repr(n), repr(self.dispatcher.dispatch_enabled)))
        action = self.actions.get(n)
        if action is not None:
            action(self.dispatcher)


def attempt(title, fn):
    try:
        fn()
        LOG.append(('returned', title, '', ''))
    except (Boom, desper.Quit, desper.SwitchWorld) as ex:
        LOG.append(('raised', title, type(ex).__name__, ''))


def enable(d):
    d.dispatch_enabled = True


def disable(d):
    d.dispatch_enabled = False


def boom(d):
    raise Boom()


def scenario_basic():
    d = desper.EventDispatcher()
    l1, l2 = Listener('l1'), Listener('l2')
    d.add_handler(l1)
    d.add_handler(l2)
    print('enabled', d.dispatch_enabled)
    d.dispatch('ev_a', 1)
    flush('immediate')
    d.dispatch_enabled = False
    d.dispatch_enabled = False      # idempotent
    d.dispatch('ev_a', 2)
    d.dispatch('ev_b', 0, None, '', key=[])
    d.dispatch('unknown', 3)        # dropped: never had a listener
    d.dispatch('ev_c')
    d.dispatch('ev_a', 2)           # equal event twice: delivered twice
    flush('while disabled (nothing)')
    print('enabled', d.dispatch_enabled)
    d.dispatch_enabled = True
    flush('released in order')
    d.dispatch_enabled = True
    flush('nothing twice')
    d.dispatch('ev_b', 'live')
    flush('live again')


def scenario_registration():
    d = desper.EventDispatcher()
    early, late, gone = Listener('early'), Listener('late'), Listener('gone')
    d.add_handler(early)
    d.add_handler(gone)
    d.dispatch_enabled = False
    d.dispatch('ev_a', 'x')
    d.dispatch('tick', 'dropped: no listener yet')
    d.add_handler(late)             # registered after dispatch: still served
    d.remove_handler(gone)          # removed before release: not served
    s = Scripted(d, {})
    d.add_handler(s)
    d.dispatch('tick', 'kept')
    print('is_handler', d.is_handler(early), d.is_handler(late),
          d.is_handler(gone), d.is_handler(s))
    d.dispatch_enabled = True
    flush('handlers at delivery time')
    # all listeners of a name removed while its events are pending
    d.dispatch_enabled = False
    d.dispatch('ev_b', 'orphan')
    d.remove_handler(early)
    d.remove_handler(late)
    d.dispatch('ev_b', 'still queued, name is known')
    d.dispatch_enabled = True
    flush('orphaned events vanish')
    d.dispatch_enabled = False
    d.dispatch('ev_b', 'for the newcomer')
    newcomer = Listener('newcomer')
    d.add_handler(newcomer)
    del newcomer                    # weakly referenced: collected
    d.dispatch('ev_b', 'nobody left')
    d.dispatch_enabled = True
    flush('collected handler')


def scenario_injected(n, action, name):
    """n ticks pending, inject `action` at every delivery position."""
    for k in range(n + 1):          # k == n: never injected
        d = desper.EventDispatcher()
        s = Scripted(d, {k: action})
        d.add_handler(s)
        d.dispatch_enabled = False
        for i in range(n):
            d.dispatch('tick', i)
        attempt('enable', lambda: enable(d))
        LOG.append(('state', 'enabled', repr(d.dispatch_enabled), ''))
        s.actions = {}
        # whatever is left comes out at the next enabling, once, in order
        rounds = 0
        while rounds < 3:
            rounds += 1
            attempt('enable again', lambda: enable(d))
        d.dispatch('tick', 'live')
        flush(f'{name} at position {k} of {n}')


def scenario_reentrant():
    # a callback dispatches while the release is running: delivered at once
    d = desper.EventDispatcher()
    s = Scripted(d, {1: lambda d: d.dispatch('tick', 'nested')})
    d.add_handler(s)
    d.dispatch_enabled = False
    for i in range(3):
        d.dispatch('tick', i)
    enable(d)
    flush('dispatch from callback')

    # a callback enables again during the release (nested release)
    d = desper.EventDispatcher()
    s = Scripted(d, {0: enable, 2: lambda d: (disable(d), d.dispatch('tick', 'q'),
                                              enable(d))})
    d.add_handler(s)
    d.dispatch_enabled = False
    for i in range(4):
        d.dispatch('tick', i)
    enable(d)
    flush('nested enable')

    # disable, queue more, then raise: all in one callback
    d = desper.EventDispatcher()

    def mixed(d):
        disable(d)
        d.dispatch('tick', 'late1')
        d.dispatch('tick', 'late2')
        raise Boom()
    s = Scripted(d, {1: mixed})
    d.add_handler(s)
    d.dispatch_enabled = False
    for i in range(3):
        d.dispatch('tick', i)
    attempt('enable', lambda: enable(d))
    LOG.append(('state', 'enabled', repr(d.dispatch_enabled), ''))
    s.actions = {}
    attempt('enable', lambda: enable(d))
    flush('disable + queue + raise')

    # clear() from a callback forgets the rest
    d = desper.EventDispatcher()
    s = Scripted(d, {1: lambda d: d.clear()})
    d.add_handler(s)
    d.dispatch_enabled = False
    for i in range(4):
        d.dispatch('tick', i)
    enable(d)
    d.add_handler(s)
    d.dispatch('tick', 'after clear')
    flush('clear from callback')

    # a callback removes its own handler, another one registers a new one
    d = desper.EventDispatcher()
    extra = Listener('extra')
    s = Scripted(d, {0: lambda d: d.add_handler(extra),
                     2: lambda d: d.remove_handler(s)})
    d.add_handler(s)
    keep_name_known = Listener('known')
    d.add_handler(keep_name_known)
    d.dispatch_enabled = False
    d.dispatch('ev_a', 'before tick 0: only known')
    for i in range(4):
        d.dispatch('tick', i)
        d.dispatch('ev_a', i)
    enable(d)
    flush('handlers change during release')

    # truthy / falsy non-bool values
    d = desper.EventDispatcher()
    s = Scripted(d, {})
    d.add_handler(s)
    for value in (0, 1, '', 'yes', None, [0]):
        d.dispatch_enabled = value
        d.dispatch('tick', repr(value))
        LOG.append(('state', 'enabled', repr(d.dispatch_enabled), ''))
    enable(d)
    flush('non-bool values')


@desper.event_handler('on_add', 'on_remove', 'on_update', 'hello')
class Comp(desper.Controller):
    def __init__(self, name, script=None):
        self.name = name
        self.script = script or {}

    def on_add(self, entity, world):
        super().on_add(entity, world)
        LOG.append((self.name, 'on_add', repr(entity), ''))
        self._run('on_add')

    def on_remove(self, entity, world):
        LOG.append((self.name, 'on_remove', repr(entity), ''))
        self._run('on_remove')

    def on_update(self, dt):
        LOG.append((self.name, 'on_update', repr(dt), ''))
        self._run('on_update')

    def hello(self, *args):
        LOG.append((self.name, 'hello', repr(args), ''))
        self._run('hello')

    def _run(self, what):
        action = self.script.pop(what, None)
        if action is not None:
            action(self)


def scenario_world():
    w = desper.World()
    w.dispatch_enabled = False
    e = w.create_entity(Comp('c1'), entity_id='e')
    w.dispatch('hello', 1)
    w.add_component('f', Comp('c2'))
    w.dispatch('hello', 2)
    w.remove_component('f', Comp)
    w.add_processor(desper.OnUpdateProcessor())
    w.process(0.25)
    flush('world: nothing while disabled')
    w.dispatch_enabled = True
    flush('world: relayed in order')
    w.process(0.5)
    flush('world: live')

    # a component raising from its relayed on_add
    w = desper.World()
    w.dispatch_enabled = False
    w.create_entity(Comp('first'), entity_id=1)
    w.create_entity(Comp('bad', {'on_add': boom}), entity_id=2)
    w.create_entity(Comp('third'), entity_id=3)
    attempt('enable world', lambda: enable(w))
    attempt('enable world again', lambda: enable(w))
    attempt('enable world thrice', lambda: enable(w))
    flush('world: raising on_add')


class Handle(desper.Handle):
    def __init__(self, factory):
        self.factory = factory

    def load(self):
        return self.factory()


class CountDown(desper.Processor):
    def __init__(self, n, action):
        self.n = n
        self.action = action

    def process(self, dt):
        self.n -= 1
        LOG.append(('countdown', 'process', repr(self.n), ''))
        if self.n <= 0:
            self.action()


def scenario_loop():
    loop = desper.SimpleLoop(iter(range(1000)).__next__)

    def make_c():
        w = desper.World()
        w.dispatch_enabled = False
        w.create_entity(Comp('c-one'))
        w.create_entity(Comp('c-quit', {'on_add': lambda c: desper.quit_loop(c.world)}))
        w.create_entity(Comp('c-never'))
        return w
    hc = Handle(make_c)

    def make_b():
        w = desper.World()
        w.dispatch_enabled = False
        w.create_entity(Comp('b-one'))
        # switching again while being entered
        w.create_entity(Comp('b-switch', {'on_add': lambda c: desper.switch(
            hc, from_world=c.world)}))
        w.create_entity(Comp('b-pending'))
        return w
    hb = Handle(make_b)

    def make_a():
        w = desper.World()
        w.create_entity(Comp('a-one'))
        w.add_processor(desper.OnUpdateProcessor())
        w.add_processor(CountDown(2, lambda: desper.switch(hb, from_world=w)),
                        priority=5)
        return w
    ha = Handle(make_a)

    loop.switch(ha)
    flush('loop: entered a')
    loop.start()
    LOG.append(('state', 'running', repr(loop.running), ''))
    LOG.append(('state', 'current is c', repr(loop.current_world is hc()), ''))
    LOG.append(('state', 'enabled a b c', repr((ha().dispatch_enabled,
                                                  hb().dispatch_enabled,
                                                  hc().dispatch_enabled)), ''))
    flush('loop: a -> b -> c -> quit')
    # what stayed pending comes out later, once
    attempt('enable c', lambda: enable(hc()))
    attempt('enable c', lambda: enable(hc()))
    flush('loop: c leftovers')
    attempt('enable b', lambda: enable(hb()))
    attempt('enable b', lambda: enable(hb()))
    flush('loop: b leftovers')
    attempt('enable a', lambda: enable(ha()))
    flush('loop: a leftovers')


scenario_basic()
scenario_registration()
scenario_injected(5, boom, 'raise')
scenario_injected(4, disable, 'nested disable')
scenario_injected(3, lambda d: (disable(d), boom(d)), 'disable then raise')
scenario_reentrant()
scenario_world()
scenario_loop()


def scenario_loop_chain():
    """A chain of switches requested while worlds are being entered, with
    clear flags, kwargs events and an unknown event in the queue."""
    loop = desper.SimpleLoop(iter([0, 0.5, 1.5, 3.5, 7.5, 8, 9, 10]).__next__)
    loads = []
    handles = {}

    def world(name, nxt, **flags):
        def factory():
            loads.append(name)
            w = desper.World()
            w.dispatch_enabled = False
            w.create_entity(Comp(f'{name}-first'))
            w.dispatch('hello', name, 'queued before the switcher')
            w.dispatch('nobody listens', name)
            if nxt is not None:
                w.create_entity(Comp(f'{name}-switch', {
                    'on_add': lambda c: desper.switch(handles[nxt],
                                                      from_world=c.world,
                                                      **flags)}))
            else:
                w.add_processor(desper.OnUpdateProcessor())
                w.add_processor(CountDown(
                    3, lambda: desper.quit_loop(w)), priority=1)
            w.create_entity(Comp(f'{name}-last'))
            return w
        return Handle(factory)

    handles['a'] = world('a', 'b')
    handles['b'] = world('b', 'c', clear_current=True)
    handles['c'] = world('c', 'd', clear_next=True)
    handles['d'] = world('d', None)
    handles['d']()                   # loaded early, cleared by c's request
    first_d = handles['d']()
    attempt('manual switch to a', lambda: loop.switch(handles['a']))
    LOG.append(('state', 'current is a',
                repr(loop.current_world is handles['a']()), ''))
    flush('chain: entering a asks for b (raised to the caller)')
    loop = desper.SimpleLoop(iter([0, 0.5, 1.5, 3.5, 7.5, 8, 9, 10]).__next__)

    class Starter(desper.Processor):
        def process(self, dt):
            desper.switch(handles['a'], from_world=self.world)
    w0 = desper.World()
    w0.add_processor(Starter())
    h0 = Handle(lambda: w0)
    loop.switch(h0)
    handles['a'].clear()
    loop.start()
    LOG.append(('state', 'loads', repr(loads), ''))
    LOG.append(('state', 'running', repr(loop.running), ''))
    LOG.append(('state', 'current is d', repr(
        loop.current_world is handles['d']()), ''))
    LOG.append(('state', 'd reloaded', repr(
        loop.current_world is not first_d), ''))
    LOG.append(('state', 'cached', repr(
        {k: h.cached for k, h in sorted(handles.items())}), ''))
    LOG.append(('state', 'handle', repr(
        loop.current_world_handle is handles['d']), ''))
    flush('chain: w0 -> a -> b -> c -> d, three frames, quit')
    for k in 'abcd':
        attempt(f'enable {k}', lambda: enable(handles[k]()))
        attempt(f'enable {k}', lambda: enable(handles[k]()))
        flush(f'chain: leftovers of {k}')


scenario_loop_chain()
