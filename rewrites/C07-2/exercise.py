"""Exercise World.add_processor / remove_processor / process / processors.

Public API only. Every printed order is one the API specifies (priority,
then insertion), so nothing needs sorting.
"""
import desper
import desper.bisect as dbisect

LOG = []


def show(title):
    print(f'--- {title}')
    for line in LOG:
        print('   ', line)
    LOG.clear()


def names(world):
    return [f'{type(p).__name__}@{p.priority}' for p in world.processors]


class Base(desper.Processor):
    def process(self, dt=1):
        LOG.append(f'{type(self).__name__}.process({dt!r})')


class A(Base):
    pass


class B(Base):
    priority = 5


class C(Base):
    priority = -3


class D(Base):
    priority = 0


class SubA(A):
    pass


class SubSubA(SubA):
    priority = 2


class Left(A):
    pass


class Right(A):
    pass


class Diamond(Left, Right):
    pass


class AlwaysEqual(Base):
    """Processors that compare equal to everything."""

    def __eq__(self, other):
        return True

    __hash__ = object.__hash__


class AlwaysEqual2(AlwaysEqual):
    pass


@desper.event_handler('on_add', 'on_remove', 'ping')
class Aware(Base):
    def on_add(self):
        LOG.append(f'{type(self).__name__}.on_add world_set='
                   f'{self.world is not None}')

    def on_remove(self):
        LOG.append(f'{type(self).__name__}.on_remove')

    def ping(self, x):
        LOG.append(f'{type(self).__name__}.ping({x!r})')


class Aware2(Aware):
    priority = 1


@desper.event_handler('ping')
class OnlyPing(Base):
    """Handler without on_add/on_remove."""

    def ping(self, x):
        LOG.append(f'OnlyPing.ping({x!r})')


@desper.event_handler(on_remove='bye')
class Renamed(Base):
    def bye(self):
        LOG.append('Renamed.bye')


# 1. ties, zero, negative, class defaults and explicit overrides
w = desper.World()
w.add_processor(A())
w.add_processor(B())
w.add_processor(C())
w.add_processor(D())
w.add_processor(SubA(), 5)
w.add_processor(SubSubA(), 0)
w.add_processor(Left(), -3)
w.add_processor(Right(), priority=-10)
print('1', names(w))
w.process(0.25)
show('process 0.25')
w.process()
show('process default dt')

# 2. replacement of the same exact type, explicit 0 / negative priority
old_b = w.get_processor(B)
new_b = B()
w.add_processor(new_b, 0)
print('2 replaced', old_b not in w.processors, new_b.world is w,
      new_b.priority, names(w))
w.add_processor(B(), -3)
print('2 again', names(w))
w.process(2)
show('process 2')

# 3. removal by exact type, by base type (subclass walk), missing type
print('3 remove C', type(w.remove_processor(C)).__name__, names(w))
print('3 remove C again', w.remove_processor(C), names(w))
print('3 remove SubA', type(w.remove_processor(SubA)).__name__, names(w))
print('3 remove SubA', type(w.remove_processor(SubA)).__name__, names(w))
print('3 remove SubA', w.remove_processor(SubA), names(w))
w.add_processor(Diamond(), 7)
w.add_processor(SubSubA())
print('3 with diamond', names(w))
removed = []
while True:
    r = w.remove_processor(A)
    if r is None:
        break
    removed.append(type(r).__name__)
print('3 removed through A', removed, names(w))
removed = []
while True:
    r = w.remove_processor(desper.Processor)
    if r is None:
        break
    removed.append(type(r).__name__)
print('3 removed through Processor', removed, names(w))
try:
    w.remove_processor(int)
except AssertionError as ex:
    print('3 assertion', type(ex).__name__)

# 4. processors that compare equal to everything
w = desper.World()
e1, e2, a = AlwaysEqual(), AlwaysEqual2(), A()
w.add_processor(e1, 1)
w.add_processor(a, 1)
w.add_processor(e2, 1)
print('4', names(w))
print('4 removed is e1', w.remove_processor(AlwaysEqual) is e1, names(w))
print('4 removed is e2', w.remove_processor(AlwaysEqual) is e2, names(w))
print('4 a still there', w.processors[0] is a, len(w.processors))

# 5. handlers: on_add / on_remove / regular events, enabled dispatching
w = desper.World()
w.add_processor(Aware())
w.add_processor(Aware2())
w.add_processor(OnlyPing(), -1)
w.add_processor(Renamed(), 3)
show('5 added')
w.dispatch('ping', 1)
LOG.sort()
show('5 ping (sorted)')
first = w.get_processor(Aware)
w.add_processor(Aware(), 9)
show('5 replaced Aware')
print('5 old is handler', w.is_handler(first), names(w))
w.remove_processor(Aware)
w.remove_processor(OnlyPing)
w.remove_processor(Renamed)
show('5 removed three')
w.dispatch('ping', 2)
LOG.sort()
show('5 ping after removal (sorted)')
print('5', names(w))

# 6. the same with dispatching disabled, then enabled
w = desper.World()
w.dispatch_enabled = False
w.add_processor(Aware(), -1)
w.add_processor(Renamed())
w.add_processor(Aware())
w.remove_processor(Renamed)
show('6 while disabled')
print('6', names(w))
w.process(3)
show('6 process while disabled')
w.dispatch_enabled = True
show('6 enabled')

# 7. processors changing the processor list while it is being run
class Remover(Base):
    priority = -1

    def process(self, dt=1):
        LOG.append(f'Remover.process({dt!r})')
        r = self.world.remove_processor(B)
        LOG.append(f'  removed {type(r).__name__}')


class Adder(Base):
    priority = 1

    def process(self, dt=1):
        LOG.append(f'Adder.process({dt!r})')
        self.world.add_processor(C(), 10)
        self.world.add_processor(D(), -20)


w = desper.World()
w.add_processor(B())
w.add_processor(Remover())
w.add_processor(A())
print('7', names(w))
w.process(1)
show('7 frame 1')
print('7', names(w))
w.process(2)
show('7 frame 2')

w = desper.World()
w.add_processor(Adder())
w.add_processor(A())
w.add_processor(B())
print('7', names(w))
w.process(1)
show('7 adder frame 1')
print('7', names(w))
w.process(2)
show('7 adder frame 2')
print('7', names(w))

# 8. priorities changed behind the world's back, then more insertions
w = desper.World()
ps = [A(), B(), C(), D(), SubA(), Left(), Right()]
for i, p in enumerate(ps):
    w.add_processor(p, i)
ps[0].priority = 100
ps[6].priority = -100
ps[3].priority = 3
w.add_processor(SubSubA(), 3)
w.add_processor(Diamond(), 100)
w.add_processor(AlwaysEqual(), -100)
w.add_processor(AlwaysEqual2(), 4)
print('8', names(w))
w.clear()
print('8 cleared', names(w))

# 9. many processors, many ties
classes = [type(f'P{i}', (Base,), {'priority': (i * 7) % 5 - 2})
           for i in range(25)]
w = desper.World()
for cls in classes:
    w.add_processor(cls())
print('9', names(w))
for cls in classes[::3]:
    w.add_processor(cls(), 0)
print('9', names(w))
for cls in classes[1::4]:
    w.remove_processor(cls)
print('9', names(w))
w.process(9)
print('9 calls', LOG == [f'{type(p).__name__}.process(9)'
                          for p in w.processors], len(LOG))
LOG.clear()

# 10. the bisect module itself
data = [1, 2, 2, 2, 5, 8, 8, 13]
for x in (0, 1, 2, 3, 8, 13, 14, 2.0, True):
    print('10', x, dbisect.bisect_right(data, x), dbisect.bisect_left(data, x),
          dbisect.bisect(data, x, 2), dbisect.bisect_right(data, x, 1, 5),
          dbisect.bisect_left(data, x, 3, 3))
pairs = [(1, 'a'), (2, 'b'), (2, 'c'), (4, 'd')]
for x in (0, 1, 2, 3, 4, 5):
    print('10 key', x,
          dbisect.bisect_right(pairs, x, key=lambda t: t[0]),
          dbisect.bisect_left(pairs, x, key=lambda t: t[0]),
          dbisect.bisect_right(pairs, x, 1, 3, key=lambda t: t[0]))
lst = []
for item in [(3, 'x'), (1, 'y'), (3, 'z'), (2, 'w'), (1, 'v'), (3, 'u')]:
    dbisect.insort(lst, item, key=lambda t: t[0])
print('10 insort', lst)
lst = []
for item in [(3, 'x'), (1, 'y'), (3, 'z'), (2, 'w'), (1, 'v'), (3, 'u')]:
    dbisect.insort_left(lst, item, key=lambda t: t[0])
print('10 insort_left', lst)
lst = [5, 1, 4]
dbisect.insort_right(lst, 3)
dbisect.insort_right(lst, 9, 0, 1)
print('10 unsorted', lst)
calls = []


def spy(v):
    calls.append(v)
    return v


dbisect.bisect_right(list(range(10)), 7, key=spy)
dbisect.insort(list(range(0, 20, 2)), 7, key=spy)
print('10 key calls', calls)
for fn in (dbisect.bisect_right, dbisect.bisect_left, dbisect.insort):
    try:
        fn([1, 2], 1, -1)
    except ValueError as ex:
        print('10', fn.__name__, 'ValueError', ex)
print('10 empty', dbisect.bisect([], 1), dbisect.bisect_left([], 1, key=abs))

# 11. priority implemented as a property, huge bounds, public namespace
class Dynamic(Base):
    reads = 0

    @property
    def priority(self):
        type(self).reads += 1
        return 2

    @priority.setter
    def priority(self, value):
        raise AttributeError('fixed priority')


w = desper.World()
w.add_processor(A(), 1)
w.add_processor(B(), 3)
w.add_processor(Dynamic())
w.add_processor(C(), 2)
w.add_processor(D(), 4)
print('11', names(w), Dynamic.reads)
try:
    w.add_processor(Dynamic(), 7)
except AttributeError as ex:
    print('11 AttributeError', ex, [type(p).__name__ for p in w.processors])
big = list(range(1000))
print('11 big', dbisect.bisect_right(big, 10**30), dbisect.bisect_left(big, -5),
      dbisect.bisect_right(big, 500, 0, 10**6 if False else 1000),
      dbisect.bisect_left(big, 499.5, 250, 750))
print('11 names', sorted(n for n in dir(desper) if not n.startswith('_')))
print('11 names', sorted(n for n in dir(dbisect) if not n.startswith('_')))
