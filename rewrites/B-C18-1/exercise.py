"""Exercise vectors and matrices (C18) through the public API only.

Floats are printed in hexadecimal, so that the transcript only matches
for bit-identical results.
"""
import math
import random
import warnings
from fractions import Fraction

from desper.math import Vec2, Vec3, Vec4, Mat3, Mat4, clamp


def out(*parts):
    print(*parts)


def num(x):
    if isinstance(x, float):
        return x.hex()
    return repr(x)


def show(value):
    if isinstance(value, tuple):
        return '%s(%s)' % (type(value).__name__, ', '.join(map(show, value)))
    return num(value)


def attempt(title, function, *args):
    with warnings.catch_warnings(record=True) as caught:
        warnings.simplefilter('always')
        try:
            result = show(function(*args))
        except Exception as ex:         # NOQA
            result = 'raised %s' % type(ex).__name__
    notes = ['%s: %s' % (w.category.__name__, w.message) for w in caught]
    out('   %s -> %s%s' % (title, result, ' ' + repr(notes) if notes else ''))


rng = random.Random(181818)


def rfloat():
    kind = rng.random()
    if kind < 0.6:
        return rng.uniform(-10, 10)
    if kind < 0.75:
        return rng.uniform(-1e-3, 1e-3)
    if kind < 0.9:
        return rng.uniform(-1e6, 1e6)
    return float(rng.randint(-3, 3))


def rmat(n, gen=rfloat):
    return tuple(gen() for _ in range(n * n))


def rint():
    return rng.randint(-5, 5)


def rfrac():
    return Fraction(rng.randint(-9, 9), rng.randint(1, 7))


SPECIAL4 = [
    ('identity', Mat4()),
    ('zeros', Mat4((0.0,) * 16)),
    ('negative zeros', Mat4((-0.0,) * 16)),
    ('int zeros', Mat4([0] * 16)),
    ('ints', Mat4(tuple(range(1, 17)))),
    ('list of ints', Mat4([2, 0, 0, 1, 0, 3, 0, 0, 1, 0, 4, 0, 0, 0, 0, 5])),
    ('huge', Mat4(tuple(1e300 * (i + 1) for i in range(16)))),
    ('tiny', Mat4(tuple(5e-324 * (i + 1) for i in range(16)))),
    ('inf and nan', Mat4((math.inf, 1.0, 0.0, 0.0, 0.0, math.nan, 0.0, 0.0,
                          0.0, 0.0, 1.0, 0.0, -math.inf, 0.0, 0.0, 1.0))),
    ('permutation', Mat4((0, 1, 0, 0, 0, 0, 1, 0, 0, 0, 0, 1, 1, 0, 0, 0))),
    ('rank 3', Mat4((1.0, 2.0, 3.0, 4.0, 2.0, 4.0, 6.0, 8.0, 0.5, 0.25, 1.0,
                     3.0, 9.0, 8.0, 7.0, 6.0))),
    ('bools', Mat4((True, False, False, False, False, True, False, False,
                    False, False, True, False, False, False, False, True))),
]
RANDOM4 = [('float #%d' % i, Mat4(rmat(4))) for i in range(8)]
RANDOM4 += [('int #%d' % i, Mat4(rmat(4, rint))) for i in range(4)]
RANDOM4 += [('fraction #%d' % i, Mat4(rmat(4, rfrac))) for i in range(4)]
RANDOM4 += [('mixed #%d' % i,
             Mat4(tuple(rng.choice((rfloat, rint, rfrac))()
                        for _ in range(16)))) for i in range(3)]
ALL4 = SPECIAL4 + RANDOM4

out('-- 1 Mat4 construction, rows, columns, transpose')
for name, m in ALL4[:14]:
    out('   %s: %s' % (name, show(m)))
    out('      rows %s cols %s' % ([show(m.row(i)) for i in (0, 3)],
                                  [show(m.column(i)) for i in (1, 2)]))
    out('      T %s' % show(m.transpose()))
    out('      is Mat4: %r %r' % (type(m.transpose()) is Mat4, +m is m))

out('-- 2 Mat4 products')
for (na, a), (nb, b) in zip(ALL4, ALL4[5:] + ALL4[:5]):
    attempt('%s @ %s' % (na, nb), lambda: a @ b)
    attempt('%s @ %s' % (nb, na), lambda: b @ a)
    attempt('(%s @ %s) @ %s' % (na, nb, na), lambda: (a @ b) @ a)
    attempt('%s @ (%s @ %s)' % (na, nb, na), lambda: a @ (b @ a))
for name, m in ALL4:
    attempt('%s @ plain tuple' % name, lambda: m @ tuple(range(16)))
    attempt('%s @ list' % name, lambda: m @ ([0.5] * 16))
    attempt('%s @ identity' % name, lambda: m @ Mat4())
    attempt('identity @ %s' % name, lambda: Mat4() @ m)
VECS4 = [Vec4(), Vec4(1, 2, 3, 4), Vec4(0.1, 0.2, 0.3, 0.4),
         Vec4(-0.0, 0.0, -0.0, 1.0), Vec4(1e308, 1e308, -1e308, 1.0),
         Vec4(Fraction(1, 3), 2, 0.5, True),
         Vec4(*(rfloat() for _ in range(4)))]
for name, m in ALL4:
    for v in VECS4:
        attempt('%s @ %s' % (name, show(v)), lambda: m @ v)
    attempt('%s @ 4-tuple' % name, lambda: m @ (1.0, 2.0, 3.0, 4.0))
attempt('Mat4 @ 3 values', lambda: Mat4() @ (1, 2, 3))
attempt('Mat4 * Mat4', lambda: Mat4() * Mat4())
for (na, a), (nb, b) in zip(RANDOM4, RANDOM4[1:]):
    v = VECS4[-1]
    attempt('(%s @ %s) @ v' % (na, nb), lambda: (a @ b) @ v)
    attempt('%s @ (%s @ v)' % (nb, na), lambda: b @ (a @ v))

out('-- 3 Mat4 entry-wise operations')
for (na, a), (nb, b) in zip(ALL4, ALL4[3:] + ALL4[:3]):
    attempt('%s + %s' % (na, nb), lambda: a + b)
    attempt('%s - %s' % (na, nb), lambda: a - b)
    attempt('-%s' % na, lambda: -a)
    attempt('round(%s, 2)' % na, lambda: round(a, 2))
attempt('Mat4 + list', lambda: Mat4() + [1] * 16)
attempt('Mat4 - tuple', lambda: Mat4() - (0.25,) * 16)
attempt('Mat4 + short', lambda: Mat4() + (1, 2, 3))
attempt('Mat4 - short', lambda: Mat4() - (1, 2, 3))
attempt('round(Mat4)', lambda: round(Mat4((1.5, 2.5, -0.5, 0.4) * 4)))

out('-- 4 Mat4 inverse')
for name, m in ALL4:
    attempt('~%s' % name, lambda: ~m)
    attempt('~~%s' % name, lambda: ~~m)
    attempt('%s @ ~%s' % (name, name), lambda: m @ ~m)
    attempt('~%s @ %s' % (name, name), lambda: ~m @ m)
    attempt('~%s is %s' % (name, name), lambda: (~m) is m)
for i in range(10):
    t = Mat4.from_translation(Vec3(rfloat(), rfloat(), rfloat()))
    s = Mat4.from_scale(Vec3(rfloat() or 1.0, rfloat() or 1.0,
                             rfloat() or 1.0))
    r = Mat4().rotate(rfloat(), Vec3(rfloat(), rfloat(), rfloat())
                      .normalize())
    attempt('~(T @ S @ R) #%d' % i, lambda: ~(t @ s @ r))
    attempt('~T #%d' % i, lambda: ~t)
    attempt('~S #%d' % i, lambda: ~s)
    attempt('~R #%d' % i, lambda: ~r)

out('-- 5 Mat4 transforms')
for i in range(6):
    v = Vec3(rfloat(), rfloat(), rfloat())
    name, m = RANDOM4[i]
    attempt('from_translation', Mat4.from_translation, v)
    attempt('from_scale', Mat4.from_scale, v)
    attempt('%s.translate' % name, m.translate, v)
    attempt('%s.scale' % name, m.scale, v)
    attempt('%s.rotate' % name, m.rotate, rfloat(), v.normalize())
    attempt('from_rotation', Mat4.from_rotation, rfloat(), v.normalize())
    attempt('orthogonal_projection', Mat4.orthogonal_projection,
            rfloat(), rfloat(), rfloat(), rfloat(), rfloat(), rfloat())
    attempt('perspective_projection', Mat4.perspective_projection,
            0, 800, 0, 600, 0.1, 100.0 + i, 60 + i)
    attempt('look_at', Mat4.look_at, v, Vec3(rfloat(), rfloat(), rfloat()),
            Vec3(0.0, 1.0, 0.0))
attempt('orthogonal_projection ints', Mat4.orthogonal_projection,
        0, 800, 0, 600, -1, 1)
attempt('orthogonal_projection empty', Mat4.orthogonal_projection,
        0, 0, 0, 600, -1, 1)
attempt('rotate not normalized', Mat4().rotate, 1.0, Vec3(2, 0, 0))
attempt('translate ints', Mat4().translate, (1, 2, 3))

out('-- 6 Mat3')
SPECIAL3 = [('identity', Mat3()), ('ints', Mat3(tuple(range(9)))),
            ('negative zeros', Mat3((-0.0,) * 9)),
            ('list', Mat3([1, 0, 2, 0, 1, 0, 3, 0, 1]))]
ALL3 = SPECIAL3 + [('float #%d' % i, Mat3(rmat(3))) for i in range(5)]
ALL3 += [('fraction #%d' % i, Mat3(rmat(3, rfrac))) for i in range(2)]
VECS3 = [Vec3(), Vec3(1, 2, 3), Vec3(0.1, -0.0, 1e300),
         Vec3(*(rfloat() for _ in range(3)))]
for (na, a), (nb, b) in zip(ALL3, ALL3[2:] + ALL3[:2]):
    attempt('%s @ %s' % (na, nb), lambda: a @ b)
    attempt('%s @ %s @ %s' % (nb, na, nb), lambda: b @ a @ b)
    attempt('%s + %s' % (na, nb), lambda: a + b)
    attempt('%s - %s' % (na, nb), lambda: a - b)
    attempt('-%s' % na, lambda: -a)
    attempt('round(%s, 1)' % na, lambda: round(a, 1))
    attempt('%s @ tuple' % na, lambda: a @ tuple(range(9)))
    attempt('%s @ list' % na, lambda: a @ ([1.5] * 9))
    for v in VECS3:
        attempt('%s @ %s' % (na, show(v)), lambda: a @ v)
    attempt('%s @ 3-tuple' % na, lambda: a @ (1.0, 2.0, 3.0))
    attempt('%s.scale' % na, a.scale, 2.0, -4)
    attempt('%s.translate' % na, a.translate, 2.0, -4)
    attempt('%s.rotate' % na, a.rotate, 33.0)
    attempt('%s.shear' % na, a.shear, 0.5, 2)
attempt('Mat3 @ 4 values', lambda: Mat3() @ (1, 2, 3, 4))
attempt('Mat3 * Mat3', lambda: Mat3() * Mat3())
attempt('Mat3 + short', lambda: Mat3() + (1,))
attempt('Mat3 bad size', lambda: Mat3((1, 2)))
attempt('Mat4 bad size', lambda: Mat4((1, 2)))
attempt('repr', lambda: (repr(Mat3()), repr(Mat4()), repr(Vec4()),
                         repr(Vec2(1, 2.5)), repr(Vec3(0, -0.0, 1))))

out('-- 7 vectors')
V2 = [Vec2(), Vec2(3, 4), Vec2(-0.0, 0.0), Vec2(1e200, 1e200),
      Vec2(Fraction(1, 2), Fraction(-3, 4)), Vec2(rfloat(), rfloat()),
      Vec2(rfloat(), rfloat())]
V3 = [Vec3(), Vec3(1, 2, 2), Vec3(-0.0, 0.0, 0), Vec3(1e-200, 0, 0),
      Vec3(Fraction(1, 2), 2, 0.25), Vec3(rfloat(), rfloat(), rfloat()),
      Vec3(rfloat(), rfloat(), rfloat())]
V4 = VECS4
for vs in (V2, V3, V4):
    for a, b in zip(vs, vs[1:] + vs[:1]):
        t = type(a).__name__
        attempt('%s + %s' % (show(a), show(b)), lambda: a + b)
        attempt('sub', lambda: a - b)
        attempt('mul', lambda: a * b)
        attempt('div', lambda: a / b)
        attempt('neg abs round', lambda: (-a, abs(a), round(a, 3)))
        attempt('sum', lambda: sum([a, b, a]))
        attempt('radd', lambda: (0 + a, 0.0 + a, a.__radd__(b)))
        attempt('lerp', lambda: (a.lerp(b, 0), a.lerp(b, 1), a.lerp(b, 0.3)))
        attempt('scale', lambda: (a.scale(0), a.scale(-2.5), a.scale(3)))
        attempt('distance dot', lambda: (a.distance(b), a.dot(b), b.dot(a)))
        attempt('normalize', lambda: (a.normalize(), a.normalize() is a))
        attempt('clamp', lambda: (a.clamp(-1, 1), a.clamp(0.5, 0.25)))
        if t != 'Vec4':
            attempt('mag limit', lambda: (a.mag, a.limit(1), a.limit(1e9)
                                          is a, a.limit(0)))
            attempt('from_magnitude', lambda: (a.from_magnitude(2),
                                               a.from_magnitude(0)))
        if t == 'Vec3':
            attempt('cross', lambda: (a.cross(b), b.cross(a), a.cross(a)))
        if t == 'Vec2':
            attempt('heading', lambda: (a.heading, a.from_heading(1.0),
                                        a.rotate(0.5), a.rotate(-math.pi)))
            attempt('from_polar', lambda: Vec2.from_polar(abs(a), a.heading))
out('-- 8 swizzles and errors')
for v in (Vec2(1, 2), Vec3(1, 2, 3), Vec4(1, 2, 3, 4)):
    for name in ('x', 'y', 'z', 'w', 'xy', 'yx', 'xx', 'zy', 'wx', 'xyz',
                 'zyx', 'www', 'xyzw', 'wzyx', 'yyyy', 'xyzwx', 'xa', 'foo',
                 '', 'mag', 'heading'):
        attempt('%s.%s' % (type(v).__name__, name or "''"), getattr, v, name)
attempt('Vec2 bad size', lambda: Vec2(1))
attempt('Vec3 bad size', lambda: Vec3(1, 2))
attempt('Vec4 bad size', lambda: Vec4(1, 2, 3))
attempt('clamp', lambda: (clamp(5, 0, 1), clamp(-5, 0, 1), clamp(0.5, 0, 1),
                          clamp(-0.0, 0.0, 1), clamp(2, 3, 1)))
