"""Exercise processors management of desper.World (public API only).

Everything printed here has a specified order (priority order, ties in
order of insertion), so nothing needs sorting.
"""
import desper
import desper.bisect

LOG = []


def flush(title, unordered=False):
    # The order in which the listeners of one event are called is not
    # specified
    print(title, sorted(LOG) if unordered else LOG)
    LOG.clear()


def attempt(title, function, *args, **kwargs):
    try:
        result = function(*args, **kwargs)
        outcome = 'ok ' + describe(result)
    except Exception as ex:     # NOQA
        outcome = type(ex).__name__ + repr(ex.args)
    print(title, outcome, LOG)
    LOG.clear()


def describe(value):
    if isinstance(value, desper.Processor):
        return f'{type(value).__name__}:{value.name}@{value.priority}'
    return repr(value)


def listing(world):
    return [describe(processor) for processor in world.processors]


class Plain(desper.Processor):
    """No events at all."""

    def __init__(self, name='plain'):
        self.name = name

    def process(self, dt):
        LOG.append((type(self).__name__, self.name, dt,
                    self.world is not None))


class Five(Plain):
    priority = 5


class Minus(Plain):
    priority = -3


class Zero(Plain):
    priority = 0


class FiveChild(Five):
    pass


class FiveGrandChild(FiveChild):
    priority = 1


class OtherMixin:
    pass


class FiveDiamond(FiveChild, OtherMixin):
    pass


@desper.event_handler('on_add', 'on_remove', 'ping')
class Noisy(Plain):

    def on_add(self):
        LOG.append((type(self).__name__, self.name, 'on_add',
                    self.world is not None,
                    self.world.get_processor(type(self)) is self))

    def on_remove(self):
        LOG.append((type(self).__name__, self.name, 'on_remove',
                    self.world.get_processor(type(self)) is self,
                    self in self.world.processors))

    def ping(self, *args):
        LOG.append((type(self).__name__, self.name, 'ping', args))


class NoisyChild(Noisy):
    priority = 2


# --- 1. priorities: defaults, explicit, ties, zero, negative ---------
world = desper.World()
print('empty', listing(world), world.get_processor(Plain),
      world.remove_processor(Plain))
world.process(1)
flush('empty process')

world.add_processor(Plain('a'))
world.add_processor(Five('b'))
world.add_processor(Minus('c'))
world.add_processor(Zero('d'))
world.add_processor(FiveChild('e'))
world.add_processor(FiveGrandChild('f'))
world.add_processor(FiveDiamond('g'), 0)
world.add_processor(Noisy('h'), priority=-3)
world.add_processor(NoisyChild('i'), priority=0)
flush('added')
print('listing', listing(world))
for dt in 0, 0.25, -1, None, 'text':
    world.process(dt)
    flush(f'process {dt!r}')

# Explicit zero and negative priorities override class defaults
world.add_processor(Five('b2'), 0)
world.add_processor(Minus('c2'), priority=7)
world.add_processor(FiveGrandChild('f2'), -10)
world.add_processor(Zero('d2'), True)
print('listing', listing(world))
world.process(2)
flush('process after replace')
print('class defaults', Five.priority, Minus.priority,
      FiveGrandChild.priority, Zero.priority, Plain.priority)

# --- 2. replacement of the same exact type ---------------------------
old = world.get_processor(Noisy)
world.add_processor(Noisy('h2'))
flush('replaced noisy')
print('old', describe(old), old in world.processors,
      world.get_processor(Noisy).name)
world.process(3)
flush('process after noisy replace')
world.dispatch('ping', 'who')
flush('ping', unordered=True)
# Replace with itself
same = world.get_processor(Noisy)
world.add_processor(same, 4)
flush('replaced with itself')
print('listing', listing(world))
world.dispatch('ping', 'self')
flush('ping', unordered=True)

# --- 3. retrieval and removal through supertypes ---------------------
for processor_type in (Plain, Five, FiveChild, FiveGrandChild, FiveDiamond,
                       Noisy, NoisyChild, desper.Processor):
    print('get', processor_type.__name__,
          describe(world.get_processor(processor_type)))
attempt('remove FiveChild', world.remove_processor, FiveChild)
print('listing', listing(world))
attempt('remove FiveChild', world.remove_processor, FiveChild)
attempt('remove FiveChild', world.remove_processor, FiveChild)
attempt('remove FiveChild', world.remove_processor, FiveChild)
print('listing', listing(world))
attempt('remove Noisy', world.remove_processor, Noisy)
attempt('remove Noisy', world.remove_processor, Noisy)
attempt('remove Noisy', world.remove_processor, Noisy)
attempt('remove int', world.remove_processor, int)
attempt('remove Processor', world.remove_processor, desper.Processor)
print('listing', listing(world))
world.process(4)
flush('process after removals')

# --- 4. many ties: insertion order is kept ---------------------------
tie_world = desper.World()
tie_types = [type(f'Tie{i}', (Plain,), {}) for i in range(23)]
priorities = [0, 3, -2, 3, 0, 0, 7, -2, 3, 1, 0, -9, 7, 7, 1, 0, 3, -2, 5, 5,
              0, -9, 2]
for index, (tie_type, priority) in enumerate(zip(tie_types, priorities)):
    tie_world.add_processor(tie_type(str(index)), priority)
print('ties', listing(tie_world))
tie_world.process(5)
flush('process ties')
for tie_type in tie_types[::3]:
    tie_world.remove_processor(tie_type)
for index, tie_type in enumerate(tie_types[::4]):
    tie_world.add_processor(tie_type(f'again{index}'))
print('ties', listing(tie_world))

# Priorities changed behind the back of the world are not looked after
shuffled_world = desper.World()
for index, tie_type in enumerate(tie_types[:7]):
    shuffled_world.add_processor(tie_type(str(index)), index)
shuffled_world.get_processor(tie_types[1]).priority = 10
shuffled_world.get_processor(tie_types[5]).priority = -10
for index, tie_type in enumerate(tie_types[7:15]):
    shuffled_world.add_processor(tie_type(f'late{index}'), index)
print('shuffled', listing(shuffled_world))

# The bisection module itself
for key in None, abs:
    for function in (desper.bisect.bisect_right, desper.bisect.bisect_left,
                     desper.bisect.bisect):
        values = [-1, 1, 1, -2, 2, 3, 3, 3, 5]
        print(function.__name__, key and key.__name__,
              [function(values, x, key=key) for x in range(-1, 7)],
              [function(values, x, 2, 6, key=key) for x in range(-1, 7)],
              [function([], x, key=key) for x in range(2)])
    for function in (desper.bisect.insort_right, desper.bisect.insort_left,
                     desper.bisect.insort):
        values = [-1.0, 1.0, 1.0, -2.0, 2.0, 3.0, 3.0, 3.0, 5.0]
        for x in 3, -3, 0, 9, True:
            function(values, x, key=key)
        print(function.__name__, key and key.__name__, values)
attempt('negative lo', desper.bisect.bisect_right, [1, 2], 1, -1)
attempt('negative lo', desper.bisect.insort_right, [1, 2], 1, -1)
attempt('empty range', desper.bisect.bisect_right, [1, 2, 3], 1, 3, 1)


# --- 5. processors changing the world while it runs ------------------
class Adder(Plain):
    """Adds and removes processors while being processed."""
    priority = -1

    def process(self, dt):
        super().process(dt)
        self.world.add_processor(Late(f'late{dt}'), -5)
        self.world.add_processor(Later(f'later{dt}'), 50)
        removed = self.world.remove_processor(Doomed)
        LOG.append(('removed', describe(removed)))
        # Replace one that has run already and one that has not
        self.world.add_processor(Early(f'early{dt}'))
        self.world.add_processor(Waiting(f'waiting{dt}'))


class Late(Plain):
    pass


class Later(Plain):
    pass


class Doomed(Plain):
    priority = 9


class Early(Plain):
    priority = -7


class Waiting(Plain):
    priority = 8


changing_world = desper.World()
for processor in (Adder('adder'), Doomed('doomed'), Early('early'),
                  Waiting('waiting')):
    changing_world.add_processor(processor)
for dt in 1, 2:
    changing_world.process(dt)
    flush(f'changing process {dt}')
    print('listing', listing(changing_world))


class SelfRemover(Plain):

    def process(self, dt):
        super().process(dt)
        LOG.append(('self removed',
                    self.world.remove_processor(SelfRemover) is self))
        self.world.process('nested')


changing_world.add_processor(SelfRemover('selfremover'), -6)
changing_world.remove_processor(Adder)
changing_world.process(3)
flush('self remover')
print('listing', listing(changing_world))


# --- 6. raising processors and callbacks -----------------------------
class Faulty(Plain):
    priority = 3

    def process(self, dt):
        super().process(dt)
        if dt == 'raise':
            raise RuntimeError('faulty')


@desper.event_handler('on_add', 'on_remove')
class FaultyCallbacks(Plain):

    def on_add(self):
        LOG.append(('FaultyCallbacks', self.name, 'on_add'))
        if self.name.startswith('bad add'):
            raise KeyError(self.name)

    def on_remove(self):
        LOG.append(('FaultyCallbacks', self.name, 'on_remove'))
        if self.name.endswith('bad remove'):
            raise LookupError(self.name)


faulty_world = desper.World()
faulty_world.add_processor(Plain('before'), 1)
faulty_world.add_processor(Faulty('faulty'))
faulty_world.add_processor(Zero('after'), 4)
attempt('faulty process', faulty_world.process, 'raise')
attempt('faulty process', faulty_world.process, 'fine')
attempt('bad add', faulty_world.add_processor, FaultyCallbacks('bad add'))
print('listing', listing(faulty_world),
      describe(faulty_world.get_processor(FaultyCallbacks)))
attempt('replace', faulty_world.add_processor,
        FaultyCallbacks('good add, bad remove'), 2)
print('listing', listing(faulty_world))
attempt('replace', faulty_world.add_processor, FaultyCallbacks('third'), -2)
print('listing', listing(faulty_world),
      describe(faulty_world.get_processor(FaultyCallbacks)))
attempt('replace', faulty_world.add_processor, FaultyCallbacks('fourth'), -2)
print('listing', listing(faulty_world),
      describe(faulty_world.get_processor(FaultyCallbacks)))
attempt('process', faulty_world.process, 6)


# --- 7. re-entrant callbacks -----------------------------------------
@desper.event_handler('on_add', 'on_remove')
class Phoenix(Plain):
    """Adds a new processor of its own type when removed."""
    rebirths = 0

    def on_add(self):
        LOG.append(('Phoenix', self.name, 'on_add'))

    def on_remove(self):
        LOG.append(('Phoenix', self.name, 'on_remove'))
        if Phoenix.rebirths < 2:
            Phoenix.rebirths += 1
            self.world.add_processor(Phoenix(f'{self.name}+'), 1)


@desper.event_handler('on_add')
class Recruiter(Plain):
    """Adds and removes other processors when added."""
    priority = 2

    def on_add(self):
        LOG.append(('Recruiter', self.name, 'on_add'))
        self.world.add_processor(Zero(f'recruit of {self.name}'))
        self.world.remove_processor(Minus)


phoenix_world = desper.World()
phoenix_world.add_processor(Minus('minus'))
phoenix_world.add_processor(Phoenix('phoenix'))
flush('phoenix added')
phoenix_world.add_processor(Recruiter('recruiter'))
flush('recruiter added')
print('listing', listing(phoenix_world))
attempt('remove phoenix', phoenix_world.remove_processor, Phoenix)
print('listing', listing(phoenix_world),
      describe(phoenix_world.get_processor(Phoenix)))
phoenix_world.process(7)
flush('phoenix process')
attempt('replace phoenix', phoenix_world.add_processor, Phoenix('new'), 0)
print('listing', listing(phoenix_world),
      describe(phoenix_world.get_processor(Phoenix)))
phoenix_world.process(8)
flush('phoenix process')
attempt('remove phoenix', phoenix_world.remove_processor, Plain)
print('listing', listing(phoenix_world),
      describe(phoenix_world.get_processor(Phoenix)))
attempt('remove phoenix', phoenix_world.remove_processor, Phoenix)
print('listing', listing(phoenix_world),
      describe(phoenix_world.get_processor(Phoenix)))
phoenix_world.process(9)
flush('phoenix process')

# --- 8. disabled dispatching: notifications are postponed ------------
quiet_world = desper.World()
quiet_world.dispatch_enabled = False
quiet_world.add_processor(Noisy('quiet1'), 3)
quiet_world.add_processor(NoisyChild('quiet2'))
quiet_world.add_processor(Noisy('quiet3'), -3)
quiet_world.remove_processor(NoisyChild)
flush('while disabled')
print('listing', listing(quiet_world))
quiet_world.process(10)
flush('process while disabled')
quiet_world.dispatch_enabled = True
flush('enabled')
quiet_world.clear()
flush('cleared')
print('listing', listing(quiet_world))
quiet_world.process(11)
flush('process after clear')
