"""Exercise weakly held handlers through the public API only.

Listeners of one event are called in no particular order, so what is
logged during one dispatch is printed sorted, and the scenarios are
built so that their outcome does not depend on that order.
"""
import gc

import desper

LOG = []


def flush(title):
    print('>>', title, sorted(LOG))
    LOG.clear()


@desper.event_handler('ev', 'other', renamed='on_renamed')
class H:
    def __init__(self, name, action=None):
        self.name = name
        self.action = action

    def ev(self, *args, **kwargs):
        LOG.append(('ev', self is None, self.name, args, sorted(kwargs)))
        if self.action is not None:
            self.action(self)

    def other(self):
        LOG.append(('other', self is None, self.name))

    def on_renamed(self, value):
        LOG.append(('renamed', self is None, self.name, value))


@desper.event_handler('extra')
class SubH(H):
    def extra(self):
        LOG.append(('extra', self.name))


class FalsyH(H):
    def __bool__(self):
        return False

    def __len__(self):
        return 0


class Plain:
    pass


class EqualH(H):
    """All instances are equal to each other."""

    def __eq__(self, other):
        return isinstance(other, EqualH)

    def __hash__(self):
        return 7


# 1. dropped between operations -----------------------------------------
d = desper.EventDispatcher()
a, b, c = H('a'), SubH('b'), FalsyH('c')
for handler in (a, b, c):
    d.add_handler(handler)
d.add_handler(a)                   # twice: still called once
print('handlers', [d.is_handler(h) for h in (a, b, c)], d.is_handler(H('x')))
d.dispatch('ev', 1, key=2)
flush('1 all three')
del a
d.dispatch('ev')
d.dispatch('extra')
d.dispatch('renamed', 5)
d.dispatch('unknown', 5)
flush('1 without a')
d.remove_handler(b)
d.remove_handler(b)                # twice is fine
d.remove_handler(H('never added'))
print('handlers', d.is_handler(b), d.is_handler(c))
d.dispatch('ev')
d.dispatch('extra')
flush('1 without a and b')
del c, handler
d.dispatch('ev')
d.dispatch('other')
flush('1 nobody')
d.add_handler(b)
d.dispatch('ev')
flush('1 b again')

# 2. equal handlers, cycles ---------------------------------------------
d = desper.EventDispatcher()
e1, e2 = EqualH('e1'), EqualH('e2')
d.add_handler(e1)
d.add_handler(e2)                  # equal to e1: nothing new
print('equal', d.is_handler(e1), d.is_handler(e2))
d.dispatch('ev')
flush('2 equal handlers')
del e1
d.dispatch('ev')
flush('2 first one dropped')
d.add_handler(e2)
d.dispatch('ev')
flush('2 second one added')
cyc = H('cyc')
cyc.me = cyc
d.add_handler(cyc)
del cyc
d.dispatch('ev')
flush('2 cycle not collected yet')
gc.collect()
d.dispatch('ev')
flush('2 cycle collected')

# 3. dropped in the middle of a dispatch ----------------------------------
d = desper.EventDispatcher()
owners = {}


def drop_everybody(me):
    owners.clear()


for i in range(6):
    owners[i] = H('k%d' % i, drop_everybody)
    d.add_handler(owners[i])
owners['falsy'] = FalsyH('kf', drop_everybody)
d.add_handler(owners['falsy'])
d.dispatch('ev')
print('3 calls while everybody is dropped by the first:', len(LOG),
      [entry[1] for entry in LOG])
LOG.clear()
d.dispatch('ev')
d.dispatch('other')
flush('3 later')

# 4. same thing in a world: the owner entity is deleted --------------------
for how in ('delete', 'remove', 'clear'):
    w = desper.World()

    def kill_the_others(me, how=how, w=w):
        if how == 'clear':
            w.clear()
            return
        for entity, comp in w.get(H):
            if comp is not me and comp in w.get_components(entity):
                if how == 'delete':
                    w.delete_entity(entity, immediate=True)
                else:
                    w.remove_component(entity, type(comp))
            del comp

    for i in range(5):
        w.create_entity(H('w%d' % i, kill_the_others))
    w.create_entity(SubH('ws', kill_the_others), Plain())
    w.create_entity(Plain(), FalsyH('wf', kill_the_others), entity_id=0)
    w.dispatch('ev', 'x')
    print('4', how, 'calls:', len(LOG), [entry[1] for entry in LOG],
          'left:', len(w.get(H)))
    LOG.clear()
    w.dispatch('ev')
    w.dispatch('other')
    print('4', how, 'later calls:', len(LOG))
    LOG.clear()
    # deferred deletion: handlers stay until the next frame
    w.clear()
    survivor = H('survivor')
    e = w.create_entity(H('doomed'), SubH('doomed too'))
    w.create_entity(survivor)
    w.delete_entity(e)
    w.dispatch('ev')
    flush('4 %s pending deletion' % how)
    w.process()
    w.dispatch('ev')
    w.dispatch('extra')
    flush('4 %s after the frame' % how)

# 5. disabled dispatching and queued events --------------------------------
w = desper.World()
keep = H('keep')
w.add_handler(keep)
gone = H('gone')
w.add_handler(gone)
e = w.create_entity(H('comp'))
w.dispatch_enabled = False
w.dispatch('ev', 'queued')
w.dispatch('renamed', 'queued')
del gone
w.delete_entity(e, immediate=True)
flush('5 nothing yet')
w.dispatch_enabled = True
flush('5 released')
print('world is its own handler', w.is_handler(w))

# 6. re-entrant callbacks ---------------------------------------------------
d = desper.EventDispatcher()
late = H('late')


def add_late(me):
    d.add_handler(late)


def remove_me(me):
    d.remove_handler(me)


def remove_victim(me):
    d.remove_handler(victim)


def nested(me):
    d.dispatch('extra')          # only SubH instances listen to it


def disable(me):
    d.dispatch_enabled = False
    d.dispatch('renamed', 'while disabled')


victim = H('victim')
actors = [H('adder', add_late), H('selfremover', remove_me),
          H('remover', remove_victim), H('nester', nested), victim,
          SubH('sub'), SubH('subnester', nested)]
for actor in actors:
    d.add_handler(actor)
d.dispatch('ev', 'first')
flush('6 first')
print('handlers', [d.is_handler(h) for h in actors], d.is_handler(late))
d.dispatch('ev', 'second')
flush('6 second')
d.clear()
d.dispatch('ev')
flush('6 cleared')
switcher = H('switcher', disable)
d.add_handler(switcher)
d.add_handler(late)
d.dispatch('ev')
d.dispatch('ev', 'queued')
flush('6 disabled from a callback')
del late
switcher.action = None
d.dispatch_enabled = True
flush('6 enabled again')

# 7. raising callbacks ---------------------------------------------------------


def boom(me):
    raise RuntimeError('boom')


d = desper.EventDispatcher()
r = H('raiser', boom)
d.add_handler(r)
for attempt in range(2):
    try:
        d.dispatch('ev')
    except RuntimeError as ex:
        LOG.append(('raised', type(ex).__name__))
flush('7 raised')
d.dispatch('other')
flush('7 still working')
d.dispatch_enabled = False
d.dispatch('ev')
d.dispatch('other')
try:
    d.dispatch_enabled = True
except RuntimeError as ex:
    LOG.append(('raised', type(ex).__name__))
flush('7 raised on release')
print('enabled', d.dispatch_enabled)
del r
d.dispatch_enabled = True
flush('7 rest of the queue, handler dropped')
w = desper.World()
e = w.create_entity(H('wr', boom), Plain())
try:
    w.dispatch('ev')
except RuntimeError as ex:
    LOG.append(('raised', type(ex).__name__))
flush('7 world')
w.delete_entity(e)
w.process()
w.dispatch('ev')
flush('7 world after deletion')

# 8. remove_component in depth --------------------------------------------


def flush_ordered(title):
    """on_add/on_remove come in a specified order, 'ev' listeners do not."""
    print('>>', title, [entry for entry in LOG if entry[0] != 'ev'],
          sorted(entry for entry in LOG if entry[0] == 'ev'))
    LOG.clear()


@desper.event_handler('on_add', 'on_remove', 'ev')
class C:
    def __init__(self, name, hook=None):
        self.name = name
        self.hook = hook

    def on_add(self, entity, world):
        LOG.append(('add', repr(entity), self.name))

    def on_remove(self, entity, world):
        LOG.append(('remove', repr(entity), self.name, self is None,
                    world.entity_exists(entity),
                    sorted(type(c).__name__
                           for c in world.get_components(entity))))
        if self.hook is not None:
            self.hook(entity, world)

    def ev(self):
        LOG.append(('ev', self is None, self.name))


class CA(C):
    pass


class CB(C):
    pass


class CD(CA, CB):
    pass


class Quiet(C):
    __events__ = {'ev': 'ev'}          # no on_add / on_remove


class Falsy:
    def __bool__(self):
        return False


def show(world, *entities):
    print('   ', [(repr(e), world.entity_exists(e),
                   sorted(type(c).__name__ for c in world.get_components(e)))
                  for e in entities],
          sorted((repr(e), type(c).__name__)
                 for ctype in (C, Plain, Falsy, type(None))
                 for e, c in world.get(ctype)))


def name_of(component):
    return None if component is None else (
        type(component).__name__, getattr(component, 'name', '-'))


for enabled in (True, False):
    print('== dispatching enabled:', enabled)
    w = desper.World()
    e = w.create_entity(CA('a'), CB('b'), CD('d'), Plain(), Falsy(), None,
                        Quiet('q'))
    f = w.create_entity(CD('fd'), entity_id=0)
    g = w.create_entity(None, entity_id='')
    flush_ordered('8 setup')
    w.dispatch_enabled = enabled
    # exact type first, then some subtype
    print('   removed', name_of(w.remove_component(e, CA)))
    print('   removed', name_of(w.remove_component(e, CA)))
    print('   removed', name_of(w.remove_component(e, CA)))
    print('   removed', name_of(w.remove_component(e, C)))
    print('   removed', name_of(w.remove_component(e, Falsy)),
          name_of(w.remove_component(e, Falsy)))
    print('   removed', name_of(w.remove_component(e, type(None))))
    print('   removed', name_of(w.remove_component(e, Quiet)))
    print('   removed', name_of(w.remove_component('nobody', C)))
    show(w, e, f, g)
    flush_ordered('8 callbacks so far')
    # pending deletion: the mark goes away with the last component
    w.delete_entity(f)
    w.delete_entity(e)
    print('   removed', name_of(w.remove_component(f, C)))
    print('   removed', name_of(w.remove_component(g, type(None))))
    print('   removed', name_of(w.remove_component(e, Plain)))
    show(w, e, f, g)
    w.create_entity(CA('second life'), entity_id=f)
    w.create_entity(Plain(), entity_id=e)
    w.process()
    show(w, e, f, g)
    flush_ordered('8 after the frame')
    w.dispatch_enabled = True
    flush_ordered('8 released')
    w.dispatch('ev')
    flush_ordered('8 who still listens')

    # re-entrant and raising on_remove
    def strip(entity, world):
        for ctype in (CB, CA, Plain):
            world.remove_component(entity, ctype)

    def replace(entity, world):
        world.add_component(entity, CA('replacement'))

    h = w.create_entity(CA('stripper', strip), CB('sb'), Plain(),
                        entity_id=('deep', ('key', 1)))
    i = w.create_entity(CA('replacer', replace), entity_id=-1)
    j = w.create_entity(CA('raiser', lambda entity, world: boom(None)),
                        CB('jb'), entity_id='j')
    flush_ordered('8b setup')
    w.dispatch_enabled = enabled
    print('   removed', name_of(w.remove_component(h, CA)))
    print('   removed', name_of(w.remove_component(i, CA)))
    try:
        print('   removed', name_of(w.remove_component(j, CA)))
    except RuntimeError as ex:
        print('   raised', type(ex).__name__)
    show(w, h, i, j)
    flush_ordered('8b callbacks')
    try:
        w.dispatch_enabled = True
    except RuntimeError as ex:
        print('   raised on release', type(ex).__name__)
    w.dispatch_enabled = True
    flush_ordered('8b released')
    show(w, h, i, j)
    w.dispatch('ev')
    flush_ordered('8b who still listens')
    # replacing through add_component goes through the same path
    w.add_component(i, CA('third'))
    w.delete_entity(i)
    w.add_component(i, CA('fourth'))
    print('   still doomed', w.entity_exists(i))
    w.process()
    show(w, h, i, j)
    flush_ordered('8b replaced')
