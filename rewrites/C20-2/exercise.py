"""Exercise Transform2D / Transform3D setters and their notifications.

Public API only. For each step the notifications are printed per listener
(listeners sorted by name, each listener's own notifications in arrival
order, which is specified); the relative order of different listeners
inside one dispatch is unspecified and never printed.
"""
import decimal
import fractions
import gc
import weakref

import desper
from desper.math import Vec2, Vec3

LISTENERS = []


def fmt(value):
    if isinstance(value, float):
        return f'float:{value!r}'
    if isinstance(value, (Vec2, Vec3)):
        return f'{type(value).__name__}{tuple(value)!r}'
    return f'{type(value).__name__}:{value!r}'


def report(title, *transforms):
    print(f'--- {title}')
    for t in transforms:
        print(f'    state {type(t).__name__}: pos={fmt(t.position)} '
              f'rot={fmt(t.rotation)} scale={fmt(t.scale)}')
    for listener in sorted(LISTENERS, key=lambda l: l.name):
        if listener.log:
            print(f'    {listener.name}: ' + ' | '.join(listener.log))
        listener.log.clear()


class Recorder:
    """Base of the listeners, checks the value against a property read."""

    def __init__(self, name, transform):
        self.name, self.transform, self.log = name, transform, []
        LISTENERS.append(self)
        transform.add_handler(self)

    def record(self, event, prop, value):
        read = getattr(self.transform, prop)
        self.log.append(f'{event}({fmt(value)}) same_as_read={read is value}')


@desper.event_handler('on_position_change', 'on_rotation_change',
                      'on_scale_change')
class All(Recorder):
    def on_position_change(self, value):
        self.record('pos', 'position', value)

    def on_rotation_change(self, value):
        self.record('rot', 'rotation', value)

    def on_scale_change(self, value):
        self.record('scale', 'scale', value)


@desper.event_handler('on_rotation_change')
class OnlyRotation(Recorder):
    def on_rotation_change(self, value):
        self.record('rot', 'rotation', value)


@desper.event_handler(on_scale_change='scaled', on_position_change='moved')
class Renamed(Recorder):
    def scaled(self, value):
        self.record('scale', 'scale', value)

    def moved(self, value):
        self.record('pos', 'position', value)


class Weird:
    """Operand with its own idea of the modulo."""

    def __mod__(self, other):
        return ('weird mod', other)

    def __repr__(self):
        return 'Weird()'


# 1. construction ----------------------------------------------------------
a2, b2 = desper.Transform2D(), desper.Transform2D()
a3, b3 = desper.Transform3D(), desper.Transform3D()
report('1 defaults', a2, b2, a3, b3)
c2 = desper.Transform2D((1, 2), 450, [3, 4])
d2 = desper.Transform2D(position=Vec2(5, 6), rotation=-90, scale=(0, 0))
e2 = desper.Transform2D(rotation=-0.0)
c3 = desper.Transform3D([1, 2, 3], (400, -400, 720.5), Vec3(2, 2, 2))
d3 = desper.Transform3D(scale=(0, 0, 0))
report('1 constructed', c2, d2, e2, c3, d3)
for bad in (lambda: desper.Transform2D((1, 2, 3)),
            lambda: desper.Transform2D(rotation='x'),
            lambda: desper.Transform3D((1, 2)),
            lambda: desper.Transform2D(rotation=decimal.Decimal(1))):
    try:
        bad()
        print('1 no error?!')
    except Exception as ex:
        print('1', type(ex).__name__, ex)

# 2. a 2D transform with several listeners ------------------------------
t = desper.Transform2D()
other = desper.Transform2D()
All('all', t), OnlyRotation('rot-only', t), Renamed('renamed', t)
All('all-2', t), All('other-all', other)
report('2 start', t, other)
for value in (Vec2(1, 2), (3, 4), [5, 6], None, 0, '', 'text', Vec3(1, 2, 3),
              Vec2(), t.position):
    t.position = value
    report(f'2 position = {fmt(value)}', t, other)
for value in (0, 0., -0., 360, 360., 720, 1, True, 45.5, 359.999999, 360.5,
              -90, -450., -1e-18, 1e-18, 1e18, -1e18, 123456789.125,
              float('inf'), float('-inf'), float('nan'),
              fractions.Fraction(725, 2), 10 ** 30, Weird()):
    t.rotation = value
    report(f'2 rotation = {fmt(value)}', t)
for value in (Vec2(2, 2), (1, 1), 0, None, [], -1.5, t.scale):
    t.scale = value
    report(f'2 scale = {fmt(value)}', t, other)
for value in ('90', None, [1], decimal.Decimal('7.5'), 1 + 2j):
    try:
        t.rotation = value
        print('2 no error?!', fmt(value))
    except Exception as ex:
        print('2', fmt(value), type(ex).__name__, ex)
    report('2 after failed rotation', t)

# 3. a 3D transform ----------------------------------------------------------
t3 = desper.Transform3D()
All('all3', t3), OnlyRotation('rot3', t3), Renamed('renamed3', t3)
for prop in ('position', 'rotation', 'scale'):
    for value in (Vec3(1, 2, 3), (400, -400, 720), [0, 0, 0], None, 0, 725.5,
                  'xyz', Vec2(1, 1), getattr(t3, prop)):
        setattr(t3, prop, value)
        report(f'3 {prop} = {fmt(value)}', t3)

# 4. sequences over several transforms, shared listener classes ---------
many = [desper.Transform2D(rotation=10 * i) for i in range(4)]
many += [desper.Transform3D(position=(i, i, i)) for i in range(3)]
for i, m in enumerate(many):
    All(f'm{i}', m)
    if i % 2:
        OnlyRotation(f'm{i}-rot', m)
for step in range(12):
    m = many[(step * 5) % len(many)]
    prop = ('position', 'rotation', 'scale')[step % 3]
    value = step * 100 - 350 if prop == 'rotation' else (step, -step)
    setattr(m, prop, value)
report('4 twelve assignments', *many)

# 5. dispatching disabled on the transform, then enabled ----------------
t = desper.Transform2D()
All('queued', t)
t.dispatch_enabled = False
t.position = (1, 1)
t.rotation = 370
t.rotation = -10
t.scale = (2, 2)
t.position = (9, 9)
report('5 while disabled', t)
t.dispatch_enabled = True
report('5 enabled', t)

# 6. re-entrant listeners (a single listener, so order is determined) ---
@desper.event_handler('on_position_change', 'on_rotation_change',
                      'on_scale_change')
class Clamp(All):
    def on_rotation_change(self, value):
        self.record('rot', 'rotation', value)
        if value > 180:
            self.transform.rotation = value / 2

    def on_position_change(self, value):
        self.record('pos', 'position', value)
        self.transform.scale = value
        self.transform.rotation = 270

    def on_scale_change(self, value):
        self.record('scale', 'scale', value)
        if value != (1, 1):
            self.transform.scale = (1, 1)


t = desper.Transform2D()
Clamp('clamp', t)
t.rotation = 200
report('6 rotation = 200', t)
t.rotation = 100
report('6 rotation = 100', t)
t.position = (4, 4)
report('6 position = (4, 4)', t)
t.dispatch_enabled = False
t.position = (5, 5)
t.rotation = 359
report('6 disabled', t)
t.dispatch_enabled = True
report('6 enabled', t)

# 7. listeners are held weakly; no listeners at all ------------------------
t = desper.Transform3D()
gone = All('gone', t)
stay = All('stay', t)
ref = weakref.ref(gone)
t.position = (1, 1, 1)
report('7 both', t)
LISTENERS.remove(gone)
del gone
gc.collect()
print('7 gone alive', ref() is not None)
t.position = (2, 2, 2)
t.rotation = (3, 3, 3)
report('7 one left', t)
t.remove_handler(stay)
t.scale = (4, 4, 4)
report('7 nobody', t)
lonely = desper.Transform2D()
lonely.rotation = 365
lonely.position = lonely.scale = (7, 7)
report('7 lonely', lonely)

# 8. subclasses and transforms living in a world --------------------------
class Tracked(desper.Transform2D):
    def __init__(self, *args, **kwargs):
        super().__init__(*args, **kwargs)
        self.history = []

    def dispatch(self, event_name, *args, **kwargs):
        self.history.append((event_name, args))
        super().dispatch(event_name, *args, **kwargs)


tr = Tracked((1, 1), 721)
All('tracked', tr)
tr.rotation = -1
tr.position = (0, 0)
tr.scale = (3, 3)
report('8 tracked', tr)
print('8 history', [(name, tuple(fmt(a) for a in args))
                    for name, args in tr.history])
world = desper.World()
entity = world.create_entity(desper.Transform2D(), desper.Transform3D())
w2 = world.get_component(entity, desper.Transform2D)
w3 = world.get_component(entity, desper.Transform3D)
All('world2', w2), All('world3', w3)
w2.rotation = 1000
w3.rotation = (1000, 0, 0)
report('8 world', w2, w3)

# 9. the dispatcher underneath, on its own ----------------------------------
CALLS = []


def calls(title):
    print(f'--- {title}: {len(CALLS)} call(s)')
    for line in sorted(CALLS):
        print('   ', line)
    CALLS.clear()


@desper.event_handler('ev', 'other', stop='halt')
class Plain:
    def __init__(self, name, dispatcher=None):
        self.name, self.dispatcher = name, dispatcher

    def ev(self, *args, **kwargs):
        CALLS.append(f'{self.name}.ev{args}{sorted(kwargs.items())}')

    def other(self):
        CALLS.append(f'{self.name}.other')

    def halt(self):
        CALLS.append(f'{self.name}.halt')
        self.dispatcher.dispatch_enabled = False


class Falsy(Plain):
    def __len__(self):
        return 0


@desper.event_handler('ev')
class Meddler(Plain):
    """Adds a newcomer and removes a living mate during the dispatch."""
    newcomers = []

    def ev(self, *args, **kwargs):
        CALLS.append(f'{self.name}.ev{args}')
        newcomer = Plain(f'{self.name}-newcomer')
        self.newcomers.append(newcomer)
        self.dispatcher.add_handler(newcomer)
        self.dispatcher.remove_handler(self.mate)


d = desper.EventDispatcher()
d.dispatch('ev', 'nobody listens')
d.dispatch_enabled = False
d.dispatch('ev', 'unknown events are not even queued')
d.dispatch_enabled = True
calls('9 no handlers')

hs = [Plain(f'p{i}') for i in range(7)] + [Falsy('falsy')]
for h in hs:
    d.add_handler(h)
d.dispatch('ev')
calls('9 ev')
d.dispatch('ev', 1, None, k=0, z='')
calls('9 ev with arguments')
d.dispatch('other')
calls('9 other')
d.dispatch('nothing')
calls('9 nothing')

# a known event without listeners left is still queued and released
for h in hs:
    d.remove_handler(h)
d.dispatch('ev', 'nobody left')
d.dispatch_enabled = False
d.dispatch('ev', 'queued for the late one')
late = Plain('late')
d.add_handler(late)
d.dispatch_enabled = True
calls('9 late handler gets the queued event')

# FIFO release, stopped by a callback that disables dispatching
d = desper.EventDispatcher()
single = Plain('single', d)
d.add_handler(single)
d.dispatch_enabled = False
for i in range(3):
    d.dispatch('ev', i)
d.dispatch('stop')
d.dispatch('ev', 'after stop')
d.dispatch('other')
d.dispatch_enabled = True
print('9 order', CALLS, d.dispatch_enabled)
CALLS.clear()
d.dispatch_enabled = True
print('9 order', CALLS, d.dispatch_enabled)
CALLS.clear()

# handlers added / removed by a callback while the event is delivered
d = desper.EventDispatcher()
mate = Plain('mate')
meddlers = [Meddler(f'meddler{i}', d) for i in range(3)]
for m in meddlers:
    m.mate = mate
    d.add_handler(m)
d.add_handler(mate)
d.dispatch('ev', 'first')
calls('9 meddling, first')
print('9 mate is_handler', d.is_handler(mate), len(Meddler.newcomers))
d.dispatch('ev', 'second')
calls('9 meddling, second')
print('9 newcomers', len(Meddler.newcomers))
