"""Exercise deferred entity deletion through the public API only.

Prints a canonical transcript: whatever depends on the (unspecified)
order in which several pending entities are finalized is grouped per
entity and sorted.
"""
import desper

LOG = []


def log(kind, *items):
    LOG.append((kind, items))


@desper.event_handler('on_add', 'on_remove', 'ping')
class Comp:
    def __init__(self, name, hook=None):
        self.name = name
        self.hook = hook

    def on_add(self, entity, world):
        log('add', repr(entity), self.name)

    def on_remove(self, entity, world):
        log('remove', repr(entity), self.name)
        if self.hook is not None:
            self.hook(entity, world)

    def ping(self):
        log('ping', self.name)


class CompA(Comp):
    pass


class CompB(Comp):
    pass


class Diamond(CompA, CompB):
    pass


class Plain:
    def __init__(self, name):
        self.name = name


class Falsy:
    """Component whose truth value is False."""

    def __bool__(self):
        return False

    def __len__(self):
        return 0


class Proc(desper.Processor):
    def __init__(self, name, action=None):
        self.name = name
        self.action = action

    def process(self, dt=1):
        log('proc', self.name, dt)
        if self.action is not None:
            self.action(self.world)


class Proc2(Proc):
    pass


def names(components):
    return [type(c).__name__ + ':' + str(getattr(c, 'name', '-'))
            for c in components]


def state(world, *entities):
    out = []
    for entity in entities:
        out.append((repr(entity), world.entity_exists(entity),
                    names(world.get_components(entity))))
    print('   state', out)
    print('   entities', sorted(map(repr, world.entities)))
    for ctype in (Comp, CompA, CompB, Diamond, Plain, Falsy):
        found = sorted((repr(e), type(c).__name__) for e, c in world.get(ctype))
        if found:
            print('   get', ctype.__name__, found)


def flush(title):
    """Print what was logged, canonically."""
    removes = {}
    others = []
    first_proc = None
    last_remove = None
    for index, (kind, items) in enumerate(LOG):
        if kind == 'remove':
            removes.setdefault(items[0], []).append(items[1])
            last_remove = index
        else:
            if kind == 'proc' and first_proc is None:
                first_proc = index
            others.append((kind, items))
    print('>>', title)
    for entity in sorted(removes):
        print('   removed', entity, removes[entity])
    # listeners of one event are called in no particular order
    pings = sorted(items for kind, items in others if kind == 'ping')
    if pings:
        print('   pings', pings)
    for kind, items in others:
        if kind != 'ping':
            print('  ', kind, *items)
    if first_proc is not None and last_remove is not None:
        print('   removals before processors:', last_remove < first_proc)
    LOG.clear()


def frame(world, title, dt=1):
    try:
        world.process(dt)
    except Exception as ex:
        log('raised', type(ex).__name__)
    flush(title)


# 1. basic two step deletion, id reuse ------------------------------------
w = desper.World()
w.add_processor(Proc('p1'), priority=1)
w.add_processor(Proc2('p0'), priority=0)
e1 = w.create_entity(CompA('a1'), Plain('pl1'))
e2 = w.create_entity(CompB('b2'))
e3 = w.create_entity(Plain('pl3'), Falsy())
flush('1 setup')
w.delete_entity(e1)
w.delete_entity(e3)
state(w, e1, e2, e3)
w.dispatch('ping')
print('   pings', sorted(LOG))
LOG.clear()
frame(w, '1 frame A', 0)
state(w, e1, e2, e3)
frame(w, '1 frame B', 0.5)
again = w.create_entity(Plain('again'), entity_id=e1)
print('   reused id', again == e1, w.entity_exists(e1))
fresh = w.create_entity(Plain('fresh'))
print('   fresh id', fresh)
frame(w, '1 frame C')
state(w, e1, e2, e3, fresh)

# 2. components removed one by one / deleted again / deleted immediately ---
w = desper.World()
w.add_processor(Proc('p'))
a = w.create_entity(CompA('a'), CompB('b'), Plain('p'))
b = w.create_entity(CompA('a'), Plain('p'))
c = w.create_entity(Diamond('d'), CompA('a'))
d = w.create_entity(Falsy())
for entity in (a, b, c, d):
    w.delete_entity(entity)
w.delete_entity(b)
w.delete_entity(b)
print('   removed', names([w.remove_component(a, CompA),
                           w.remove_component(a, CompB)]))
print('   removed', names([w.remove_component(a, Plain)]),
      w.remove_component(a, Plain))
w.delete_entity(c, immediate=True)
print('   removed', type(w.remove_component(d, Falsy)).__name__)
flush('2 before frame')
state(w, a, b, c, d)
frame(w, '2 frame A')
frame(w, '2 frame B')
state(w, a, b, c, d)
# the identifiers are free and no longer marked
for entity in (a, b, c, d):
    w.create_entity(Plain('new'), entity_id=entity)
frame(w, '2 frame C')
state(w, a, b, c, d)

# 3. deleting what does not exist ----------------------------------------
w = desper.World()
w.add_processor(Proc('p'))
keep = w.create_entity(CompA('keep'))
w.delete_entity('ghost')
print('   ghost', w.entity_exists('ghost'), w.get_components('ghost'))
frame(w, '3 frame A (fails once)')
frame(w, '3 frame B')
frame(w, '3 frame C')
try:
    w.delete_entity('ghost', immediate=True)
except KeyError as ex:
    print('   immediate ghost', type(ex).__name__)
state(w, keep)

# 4. falsy and unusual identifiers ----------------------------------------
w = desper.World()
w.add_processor(Proc('p'))
ids = [0, '', (), frozenset(), 0.5, ('deep', ('key', 3)), -1]
for entity in ids:
    w.create_entity(CompA('c%r' % (entity,)), entity_id=entity)
flush('4 setup')
for entity in ids[::2]:
    w.delete_entity(entity)
state(w, *ids)
frame(w, '4 frame A')
state(w, *ids)
for entity in ids[1::2]:
    w.delete_entity(entity)
frame(w, '4 frame B')
w.delete_entity(False)       # same id as 0: it does not exist any more
frame(w, '4 frame C (fails once)')
frame(w, '4 frame D')
state(w, *ids)

# 5. replacing and adding components on a doomed entity --------------------
w = desper.World()
w.add_processor(Proc('p'))
e = w.create_entity(CompA('old'), Plain('pl'))
w.delete_entity(e)
w.add_component(e, CompA('new'))      # replacement
w.add_component(e, CompB('extra'))    # new type
flush('5 modified')
state(w, e)
frame(w, '5 frame A')
state(w, e)
# emptied by hand, then created again: the mark must be gone
e = w.create_entity(Plain('x'), entity_id='again')
w.delete_entity(e)
w.remove_component(e, Plain)
w.create_entity(CompA('second life'), entity_id='again')
frame(w, '5 frame B')
state(w, 'again')

# 6. callbacks that raise --------------------------------------------------


def boom(entity, world):
    raise RuntimeError('boom')


w = desper.World()
w.add_processor(Proc('p'))
bad = CompA('bad', boom)
good = CompB('good')
e = w.create_entity(bad, good)
other = w.create_entity(CompA('other'))
w.delete_entity(e)
frame(w, '6 frame A (fails once)')
print('   handlers', w.is_handler(bad), w.is_handler(good))
frame(w, '6 frame B')
frame(w, '6 frame C')
state(w, e, other)
w.dispatch('ping')
flush('6 pings')
# several pending entities, one of them raising: look only at the end
pending = [w.create_entity(CompA('n%d' % i)) for i in range(4)]
pending.append(w.create_entity(CompA('bad2', boom)))
for entity in pending:
    w.delete_entity(entity)
failures = 0
for _ in range(3):
    try:
        w.process()
    except RuntimeError:
        failures += 1
print('   failures', failures)
flush('6 many')
state(w, *pending)

# 7. re-entrant callbacks ---------------------------------------------------
w = desper.World()
w.add_processor(Proc('p'))


def delete_later(target):
    def hook(entity, world):
        world.delete_entity(target)
    return hook


def delete_now(target):
    def hook(entity, world):
        if world.get_components(target):
            world.delete_entity(target, immediate=True)
    return hook


def rebirth(entity, world):
    world.create_entity(Plain('reborn'), entity_id=entity)


def redelete(entity, world):
    # the entity is already gone from the registry at this point
    log('exists-in-callback', repr(entity), world.entity_exists(entity),
        len(world.get_components(entity)))


t1 = w.create_entity(CompA('t1'))
t2 = w.create_entity(CompA('t2'), CompB('t2b'))
x = w.create_entity(CompA('x', delete_later(t1)))
y = w.create_entity(CompA('y', delete_now(t2)))
z = w.create_entity(CompA('z', rebirth))
q = w.create_entity(CompA('q', redelete), Plain('q'))
flush('7 setup')
for entity in (x, y, z, q, t2):
    w.delete_entity(entity)
frame(w, '7 frame A')
state(w, t1, t2, x, y, z, q)
frame(w, '7 frame B')
state(w, t1, t2, x, y, z, q)

# processors asking for deletions while the frame runs
w = desper.World()
victims = [w.create_entity(CompA('v%d' % i)) for i in range(3)]
w.add_processor(Proc('killer', lambda world: [
    world.delete_entity(v) for v in victims if world.entity_exists(v)]),
    priority=-5)
w.add_processor(Proc2('watcher', lambda world: log(
    'alive', sorted(world.entities), len(world.get(CompA)))), priority=5)
flush('7b setup')
frame(w, '7b frame A')
frame(w, '7b frame B')
frame(w, '7b frame C')

# 8. disabled dispatching ----------------------------------------------------
w = desper.World()
w.add_processor(Proc('p'))
e1 = w.create_entity(CompA('a'), CompB('b'))
e2 = w.create_entity(CompA('c'))
flush('8 setup')
w.delete_entity(e1)
w.delete_entity(e2)
w.dispatch_enabled = False
frame(w, '8 frame while disabled')
state(w, e1, e2)
w.dispatch_enabled = True
flush('8 released')
frame(w, '8 frame after')

# 9. clear with pending deletions -----------------------------------------
w = desper.World()
w.add_processor(Proc('p'))
e1 = w.create_entity(CompA('a'))
e2 = w.create_entity(CompB('b'))
w.delete_entity(e1)
w.clear()
flush('9 cleared')
ne = w.create_entity(CompA('after clear'))
print('   same id after clear', ne == e1, w.entity_exists(ne))
w.add_processor(Proc('p'))
frame(w, '9 frame A')
frame(w, '9 frame B')
state(w, ne, e2)
