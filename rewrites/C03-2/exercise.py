"""Exercise EventDispatcher (public API only) and print a canonical transcript.

Deliveries made by one dispatch() reach the listeners in an unspecified
order (listeners are kept in a set), hence each batch is sorted.
"""
import gc

from desper import EventDispatcher, EventHandler, event_handler

LOG = []


def flush(title):
    print(f'{title}: {sorted(LOG)}')
    LOG.clear()


def rec(self, tag, args, kwargs):
    LOG.append(f'{self.name}.{tag}{args!r}{sorted(kwargs.items())!r}')


@event_handler('ping', 'pong')
class Base:
    def __init__(self, name):
        self.name = name

    def ping(self, *a, **k):
        rec(self, 'Base.ping', a, k)

    def pong(self, *a, **k):
        rec(self, 'Base.pong', a, k)


@event_handler('extra', pong='other_pong')
class Derived(Base):
    def extra(self, *a, **k):
        rec(self, 'Derived.extra', a, k)

    def other_pong(self, *a, **k):
        rec(self, 'Derived.other_pong', a, k)

    def ping(self, *a, **k):            # plain override, same mapping
        rec(self, 'Derived.ping', a, k)


@event_handler()
class Untouched(Base):
    pass


@event_handler(**{'weird name': 'cb', '': 'cb'})
class Weird:
    name = 'weird'

    def cb(self, *a, **k):
        rec(self, 'cb', a, k)


class Mix:
    pass


@event_handler('extra')
class Diamond(Derived, Mix):
    def extra(self, *a, **k):
        rec(self, 'Diamond.extra', a, k)


print('mappings:',
      sorted(Base.__events__.items()), sorted(Derived.__events__.items()),
      sorted(Untouched.__events__.items()), sorted(Weird.__events__.items()),
      sorted(Diamond.__events__.items()),
      Untouched.__events__ is Base.__events__)

d = EventDispatcher()
b1, b2, dv, w, dm = Base('b1'), Base('b2'), Derived('dv'), Weird(), \
    Diamond('dm')

# 1. unknown events, nothing registered
print('unknown ->', d.dispatch('ping'), d.dispatch('nobody', 1, x=2))
flush('1')

# 2. simple add, duplicate add
for h in (b1, b2, dv, w, dm, b1, dv):
    d.add_handler(h)
print('is_handler', [d.is_handler(h) for h in (b1, b2, dv, w, dm)],
      d.is_handler(Base('stranger')), isinstance(b1, EventHandler),
      isinstance(Mix(), EventHandler))
d.dispatch('ping')
flush('2a')
d.dispatch('pong', 0, None, '', (), k=0, z=None)
flush('2b')
d.dispatch('extra', [1, 2], {'a': 1})
flush('2c')
d.dispatch('weird name', False)
d.dispatch('', 0.0)
flush('2d')
d.dispatch('other_pong')
d.dispatch('cb')
flush('2e (method names are not events)')

# 3. removal, double removal, removal of strangers
d.remove_handler(b1)
d.remove_handler(b1)
d.remove_handler(Base('stranger'))
d.remove_handler(Mix())
d.dispatch('ping', 'after-remove')
flush('3a')
d.add_handler(b1)
d.dispatch('ping', 're-added')
flush('3b')
d.remove_handler(w)
d.dispatch('weird name')
d.dispatch('')
flush('3c (events that lost every listener)')

# 4. garbage collected handlers
tmp = Derived('tmp')
d.add_handler(tmp)
d.dispatch('extra', 'alive')
flush('4a')
del tmp
gc.collect()
d.dispatch('extra', 'collected')
flush('4b')

# 5. re-entrant callbacks: remove self / remove all / add / nested dispatch
@event_handler('go', 'inner')
class Reentrant:
    def __init__(self, name, action):
        self.name = name
        self.action = action

    def go(self, *a, **k):
        rec(self, 'go', a, k)
        self.action(self)

    def inner(self, *a, **k):
        rec(self, 'inner', a, k)


def fresh(*handlers):
    disp = EventDispatcher()
    for h in handlers:
        disp.add_handler(h)
    return disp


nop = lambda s: None        # NOQA
# 5a. handlers removing themselves / adding themselves again
r_self = Reentrant('r_self', lambda s: d2.remove_handler(s))
r_twice = Reentrant('r_twice', lambda s: (d2.add_handler(s),
                                          d2.add_handler(s)))
plain = Reentrant('plain', nop)
d2 = fresh(r_self, r_twice, plain)
d2.dispatch('go', 1)
flush('5a-1')
d2.dispatch('go', 2)
d2.dispatch('inner', 2)
flush('5a-2')
print('5a is_handler', [d2.is_handler(h) for h in (r_self, r_twice, plain)])

# 5b. a handler added during a dispatch is served from the next one on
late = Reentrant('late', nop)
r_add = Reentrant('r_add', lambda s: d4.add_handler(late))
d4 = fresh(r_add, plain)
d4.dispatch('go', 1)
flush('5b-1')
d4.dispatch('go', 2)
flush('5b-2')

# 5b'. nested dispatch from a callback
r_nest = Reentrant('r_nest', lambda s: d5.dispatch('inner', 'nested',
                                                   by=s.name))
d5 = fresh(r_nest, plain, late)
d5.dispatch('go', 1)
flush('5b-3')

# 5c. callbacks removing every other handler, including those not yet
# served: the snapshot taken by dispatch is still served entirely
d3 = EventDispatcher()
killers = [Reentrant(f'k{i}', None) for i in range(5)]
for k in killers:
    k.action = lambda s: [d3.remove_handler(o) for o in killers if o is not s]
    d3.add_handler(k)
d3.dispatch('go')
print('5c deliveries:', len(LOG), 'survivors:',
      sum(d3.is_handler(k) for k in killers))
LOG.clear()
d3.dispatch('go')
print('5c second round deliveries:', len(LOG))
LOG.clear()

# 6. disabled dispatching: queueing, FIFO release, unknown dropped
d.dispatch_enabled = False
d.dispatch('ping', 'q1')
d.dispatch('nobody', 'dropped')
d.dispatch('pong', 'q2', k=None)
d.remove_handler(b2)
late_b = Base('late_b')
d.add_handler(late_b)
flush('6a (nothing yet)')
print('enabled?', d.dispatch_enabled)
d.dispatch_enabled = True
print('6b in order:', [sorted(x for x in LOG if 'q1' in x),
                       sorted(x for x in LOG if 'q2' in x)],
      [('q1' in x) for x in LOG] == sorted([('q1' in x) for x in LOG],
                                           reverse=True))
LOG.clear()
d.dispatch_enabled = True
flush('6c (nothing twice)')

# 7. callback raising: exception propagates, handler stays
@event_handler('boom')
class Boom:
    name = 'boom'

    def boom(self, *a, **k):
        rec(self, 'boom', a, k)
        raise RuntimeError('bang')


bm = Boom()
d.add_handler(bm)
try:
    d.dispatch('boom', 1)
except RuntimeError as e:
    print('raised', e, d.is_handler(bm))
flush('7')

# 8. unhashable / odd event names
for name in (None, 0, ('t',), ['unhashable']):
    try:
        print('odd name', name, d.dispatch(name))
    except Exception as e:
        print('odd name', name, type(e).__name__)

# 9. clear
d.clear()
d.dispatch('ping')
print('9', [d.is_handler(h) for h in (b1, dv, dm)], d.dispatch_enabled)
flush('9')
d.add_handler(dm)
d.dispatch('extra', 'after clear')
d.dispatch('pong', 'after clear')
flush('10')

# 11. registration corner cases
@event_handler('first', second='missing_method', third='third')
class Broken:
    name = 'broken'

    def first(self, *a, **k):
        rec(self, 'first', a, k)

    def third(self, *a, **k):
        rec(self, 'third', a, k)


d6 = EventDispatcher()
br = Broken()
try:
    d6.add_handler(br)
except AttributeError as e:
    print('11 broken handler:', e)
print('11 is_handler', d6.is_handler(br))
for name in ('first', 'second', 'third'):
    d6.dispatch(name, 11)
flush('11a')
d6.remove_handler(br)
d6.dispatch('first', 'again')
flush('11b')
try:
    d6.add_handler(Mix())
except AssertionError:
    print('11 not a handler')


# class level events changed between two registrations of the same object
@event_handler('a')
class Mutable:
    name = 'mutable'

    def a(self, *args, **k):
        rec(self, 'a', args, k)

    def b(self, *args, **k):
        rec(self, 'b', args, k)


mu = Mutable()
d6.add_handler(mu)
Mutable.__events__ = {'b': 'b'}
d6.add_handler(mu)
d6.dispatch('a', 1)
d6.dispatch('b', 1)
flush('11c')
d6.remove_handler(mu)
d6.dispatch('a', 2)
d6.dispatch('b', 2)
flush('11d')
print('11 is_handler', d6.is_handler(mu))

# instance level __events__ (a dict set on the object) and falsy names
class Bare:
    name = 'bare'

    def cb(self, *a, **k):
        rec(self, 'cb', a, k)


ba = Bare()
ba.__events__ = {'x': 'cb', '': 'cb', 'y': 'cb'}
d6.add_handler(ba)
for name in ('x', '', 'y', 'cb'):
    d6.dispatch(name, name)
flush('11e')
empty = Bare()
empty.__events__ = {}
d6.add_handler(empty)
print('11 empty handler', d6.is_handler(empty))
d6.remove_handler(empty)
print('11 empty handler', d6.is_handler(empty))
# same handler in two dispatchers
d7 = EventDispatcher()
d7.add_handler(ba)
d6.remove_handler(ba)
d6.dispatch('x', 'd6')
d7.dispatch('x', 'd7')
flush('11f')
