"""Exercise world loading: populate_world_from_dict and WorldFromFileHandle.

Public API only. Types referenced from the JSON files live in this very
module (``__main__``). Addresses and the temporary directory are scrubbed
from everything printed, handler call logs are printed sorted per step.
"""
import json
import math
import os
import re
import tempfile

import desper

LOG = []
TMP = tempfile.mkdtemp(prefix='c15_')


def scrub(text):
    text = str(text).replace(TMP, '<TMP>')
    return re.sub(r' at 0x[0-9a-fA-F]+', ' at 0x?', text)


def canon(value):
    """Address-free description of an argument."""
    if isinstance(value, (Comp, Proc)):
        return f'<{type(value).__name__} instance>'
    if isinstance(value, desper.Handle):
        return f'<handle {type(value).__name__} key={value.key!r}>'
    if isinstance(value, desper.ResourceMap):
        return f'<map {sorted(value.maps)} {sorted(value.handles)}>'
    if isinstance(value, type):
        return f'<class {value.__name__}>'
    if isinstance(value, type(math)):
        return f'<module {value.__name__}>'
    if callable(value):
        return f'<callable {getattr(value, "__name__", "?")}>'
    if isinstance(value, list):
        return '[' + ', '.join(canon(v) for v in value) + ']'
    if isinstance(value, dict):
        return '{' + ', '.join(f'{k!r}: {canon(v)}'
                               for k, v in value.items()) + '}'
    return repr(value)


def flush(title):
    print(f'--- {title}: {len(LOG)} call(s)')
    for line in sorted(LOG):
        print('   ', line)
    LOG.clear()


CONSTANT = ('a', 'constant')


class Comp:
    def __init__(self, *args, **kwargs):
        self.args, self.kwargs = args, kwargs

    def describe(self):
        return (f'{type(self).__name__}('
                + ', '.join([canon(a) for a in self.args]
                            + [f'{k}={canon(v)}'
                               for k, v in self.kwargs.items()]) + ')')


class Other(Comp):
    pass


class Third(Comp):
    pass


@desper.event_handler('on_add', 'on_world_load', 'on_remove')
class Aware(Comp):
    def on_add(self, entity, world):
        LOG.append(f'{self.describe()}.on_add({entity!r})')

    def on_remove(self, entity, world):
        LOG.append(f'{self.describe()}.on_remove({entity!r})')

    def on_world_load(self, handle, world):
        LOG.append(f'{self.describe()}.on_world_load({canon(handle)}, '
                   f'world_ok={world.get(type(self)) != []})')


class Aware2(Aware):
    pass


class Proc(desper.Processor):
    def __init__(self, *args, **kwargs):
        self.args, self.kwargs = args, kwargs

    describe = Comp.describe

    def process(self, dt=1):
        LOG.append(f'{self.describe()}.process({dt})')


class EarlyProc(Proc):
    priority = -5


class LateProc(Proc):
    priority = 5


@desper.event_handler('on_add', 'on_world_load')
class AwareProc(Proc):
    def on_add(self):
        LOG.append(f'{self.describe()}.on_add world_set='
                   f'{self.world is not None}')

    def on_world_load(self, handle, world):
        LOG.append(f'{self.describe()}.on_world_load({canon(handle)})')


def factory(*args, **kwargs):
    """A callable that is not a class."""
    return Third('from factory', *args, **kwargs)


class ValueHandle(desper.Handle):
    loads = 0

    def __init__(self, value):
        self.value = value

    def load(self):
        type(self).loads += 1
        return self.value


def dump_world(title, world):
    print(f'=== {title}')
    print('  dispatch_enabled', world.dispatch_enabled)
    print('  processors', [p.describe() if isinstance(p, Proc)
                           else type(p).__name__ for p in world.processors])
    for entity in sorted(world.entities, key=repr):
        comps = sorted(c.describe() for c in world.get_components(entity))
        print(f'  entity {entity!r}: {comps}')


def write_json(name, content):
    path = os.path.join(TMP, name)
    with open(path, 'w') as fout:
        json.dump(content, fout)
    return path


# 1. populate_world_from_dict with ready made types ---------------------
descriptions = {
    'empty': {},
    'only processors': {'processors': [{'type': Proc}, {'type': LateProc},
                                       {'type': EarlyProc, 'args': [0]}]},
    'only entities': {'entities': [{'components': [{'type': Comp}]}]},
    'falsy everything': {
        'processors': [{'type': Proc, 'args': [], 'kwargs': {}}],
        'entities': [
            {'id': 0, 'components': [
                {'type': Comp, 'args': [0, '', None, False, [], {}, 0.0]},
                {'type': Other, 'kwargs': {'a': None, 'b': 0, 'c': ''}}]},
            {'id': '', 'components': [{'type': Comp, 'args': []}]},
            {'id': None, 'components': [{'type': Comp, 'kwargs': {}}]},
            {'components': []},
            {'id': 'ghost'},
            {'components': [{'type': Third}]},
        ]},
    'ids': {'entities': [
        {'id': 2, 'components': [{'type': Comp, 'args': ['two']}]},
        {'components': [{'type': Comp, 'args': ['auto a']}]},
        {'components': [{'type': Comp, 'args': ['auto b']}]},
        {'id': 'named', 'components': [{'type': Comp, 'args': ['n']},
                                       {'type': Other, 'args': ['n']},
                                       {'type': Third, 'args': ['n']}]},
        {'id': (1, 'tuple'), 'components': [{'type': factory,
                                             'args': [1], 'kwargs': {'k': 2}}]},
        {'components': [{'type': Comp, 'args': ['auto c']}]},
    ]},
    'same type twice': {
        'processors': [{'type': Proc, 'args': ['first']},
                       {'type': EarlyProc},
                       {'type': Proc, 'args': ['second']}],
        'entities': [{'id': 'dup', 'components': [
            {'type': Comp, 'args': ['first']},
            {'type': Other},
            {'type': Comp, 'args': ['second']}]}]},
    'handlers': {
        'processors': [{'type': AwareProc, 'kwargs': {'x': 1}}],
        'entities': [
            {'id': 'h1', 'components': [{'type': Aware, 'args': [1]},
                                        {'type': Aware2, 'args': [2]}]},
            {'id': 'h2', 'components': [{'type': Aware, 'args': [3]}]}]},
}
for enabled in (True, False):
    for name, description in descriptions.items():
        world = desper.World()
        world.dispatch_enabled = enabled
        desper.populate_world_from_dict(world, description)
        dump_world(f'1 {name} enabled={enabled}', world)
        flush('during population')
        world.dispatch_enabled = True
        flush('after enabling')
        world.process(0.5)
        flush('process')

for name, bad in {
        'component without type': {'entities': [{'components': [
            {'args': [1]}]}]},
        'processor without type': {'processors': [{'kwargs': {}}]},
        'bad kwargs': {'entities': [{'components': [
            {'type': Comp, 'kwargs': {'a': 1}},
            {'type': Other, 'kwargs': [1]}]}]},
        'not a processor': {'processors': [{'type': Comp}],
                            'entities': [{'components': [{'type': Comp}]}]},
        'unhashable id': {'entities': [
            {'id': 'ok', 'components': [{'type': Comp}]},
            {'id': [], 'components': [{'type': Comp}]}]},
}.items():
    world = desper.World()
    try:
        desper.populate_world_from_dict(world, bad)
        print('1 no error?!', name)
    except Exception as ex:
        print(f'1 {name}: {type(ex).__name__}: {scrub(ex)}')
    dump_world(f'1 after {name}', world)

# 2. worlds from JSON files inside a resource tree ----------------------
M = '__main__.'
full = {
    'processors': [
        {'type': M + 'LateProc', 'args': ['${math.pi}', '$res{data.number}']},
        {'type': M + 'AwareProc', 'kwargs': {'h': '$handle{worlds.full}'}},
        {'type': M + 'EarlyProc'},
    ],
    'entities': [
        {'components': [
            {'type': M + 'Comp',
             'args': [42, 4.5, True, None, 'plain', '', ['${math.pi}', 1],
                      {'k': '$res{data.number}'}]},
            {'type': M + 'Other',
             'args': ['${__main__.CONSTANT}', '${__main__.Comp}',
                      '${math.floor}', '${os.path.join}'],
             'kwargs': {'a': '$res{data.number}', 'b': '$res{data.deep.er.text}',
                        'c': '$handle{data.deep.er.text}', 'd': '$res{data.deep}',
                        'e': '$handle{data}', 'f': '$handle{no.such.thing}'}},
        ]},
        {'id': 'markers', 'components': [
            {'type': M + 'Comp',
             'args': [' ${math.pi}', 'x$res{data.number}', '$ {math.pi}',
                      '$RES{data.number}', '$handle', '${}', '$res{}x',
                      '$$res{data.number}', '${math.pi} trailing',
                      '$handle{data.number}!',
                      '\\${math.pi}', '${math.pi}\n']},
            {'type': M + 'factory', 'args': ['$res{data.falsy}'],
             'kwargs': {'z': '$handle{data.falsy}', 'n': 0}},
        ]},
        {'id': 7, 'components': [
            {'type': M + 'Aware', 'args': ['$res{data.number}']},
            {'type': M + 'Aware2', 'kwargs': {'obj': '${__main__.CONSTANT}'}},
        ]},
        {'id': 'last', 'components': [{'type': M + 'Aware'}]},
    ],
}
files = {
    'full': full,
    'empty': {},
    'namespace': {'processors': [{'type': 'desper.CoroutineProcessor'},
                                 {'type': 'desper.logic.OnUpdateProcessor'}],
                  'entities': [{'components': [
                      {'type': 'desper.Transform2D',
                       'args': [[1, 2]], 'kwargs': {'rotation': 370}},
                      {'type': 'collections.OrderedDict',
                       'kwargs': {'k': '${collections.deque}'}}]}]},
}

resources = desper.ResourceMap()
resources['data/number'] = ValueHandle(1234)
resources['data/falsy'] = ValueHandle(0)
resources['data/deep/er/text'] = ValueHandle('deep text')
handles = {}
for name, content in files.items():
    handles[name] = desper.WorldFromFileHandle(write_json(name + '.json',
                                                          content))
    resources['worlds/' + name] = handles[name]

for name in files:
    world = resources['worlds/' + name]
    print('2 cached same object', resources['worlds/' + name] is world,
          isinstance(world, desper.World))
    print('=== 2', name)
    print('  dispatch_enabled', world.dispatch_enabled)
    print('  processors', [p.describe() if isinstance(p, Proc)
                           else type(p).__name__ for p in world.processors])
    for entity in sorted(world.entities, key=repr):
        comps = sorted(c.describe() if isinstance(c, Comp)
                       else f'{type(c).__name__} {scrub(c)!r}'
                       if not isinstance(c, desper.Transform2D)
                       else f'Transform2D {tuple(c.position)} {c.rotation}'
                       for c in world.get_components(entity))
        print(f'  entity {entity!r}: {comps}')
    flush('while loading')
    world.dispatch_enabled = True
    flush('after enabling')
    world.process(2)
    flush('process')
print('2 loads', ValueHandle.loads)

# a second, independent load of the same handle
handles['full'].clear()
again = handles['full']()
print('2 reloaded', again is not resources['worlds/full'] or 'same',
      again.dispatch_enabled, len(again.entities), len(again.processors))
flush('reload')
again.dispatch_enabled = True
flush('reload enabled')

# 3. malformed files ------------------------------------------------------
bad_files = {
    'no_type': {'entities': [{'components': [{'args': [1]}]}]},
    'unknown_module': {'processors': [{'type': 'no_such_module_xyz.Thing'}]},
    'unknown_attr': {'entities': [{'components': [
        {'type': M + 'Comp', 'args': ['${math.no_such_attr}', '${math.pi}']}]}]},
    'not_callable': {'entities': [{'components': [
        {'type': M + 'CONSTANT'}]}]},
    'unknown_res': {'entities': [{'components': [
        {'type': M + 'Comp', 'args': ['${math.pi}', '$res{data.number}',
                                      '$res{data.nothing}', '$res{data.falsy}'],
         'kwargs': {'k': '$res{data.number}'}}]}]},
    'unknown_res_kw': {'entities': [{'components': [
        {'type': M + 'Comp', 'args': ['$res{data.number}'],
         'kwargs': {'k': '$res{data.number}', 'l': '$res{nope}',
                    'm': '${math.pi}'}}]}]},
    'greedy': {'entities': [{'components': [
        {'type': M + 'Comp',
         'args': ['$res{data.number}$res{data.number}']}]}]},
    'module_arg': {'entities': [{'components': [
        {'type': M + 'Comp', 'args': ['${math}']}]}]},
    'second_entity_bad': {'entities': [
        {'id': 'fine', 'components': [{'type': M + 'Aware'}]},
        {'id': 'broken', 'components': [{'type': M + 'Aware', 'args': [1]},
                                        {'type': 'nowhere.Nothing'}]}]},
}
for name, content in bad_files.items():
    handle = desper.WorldFromFileHandle(write_json('bad_' + name + '.json',
                                                   content))
    resources['bad/' + name] = handle
    try:
        handle()
        print('3 no error?!', name)
    except Exception as ex:
        print(f'3 {name}: {type(ex).__name__}: {scrub(ex)}')
    print('3 cached', handle.cached)
    flush('3 ' + name)

orphan = desper.WorldFromFileHandle(os.path.join(TMP, 'full.json'))
try:
    orphan()
except Exception as ex:
    print(f'3 orphan: {type(ex).__name__}: {scrub(ex)}')
missing = desper.WorldFromFileHandle(os.path.join(TMP, 'missing.json'))
resources['bad/missing'] = missing
try:
    missing()
except Exception as ex:
    print(f'3 missing: {type(ex).__name__}: {scrub(ex)}')

# 4. the dict transformers used directly --------------------------------
for label, transformer in (('object', desper.object_dict_transformer),
                           ('resource', desper.resource_dict_transformer)):
    for data in ({}, {'args': []}, {'kwargs': {}},
                 {'args': ['${math.pi}', '$res{data.number}', 5, None],
                  'kwargs': {'a': '${math.e}', 'b': '$handle{data.number}',
                             'c': ['${math.pi}']}},
                 {'args': ('${math.pi}',)}):
        try:
            transformer(handles['full'], None, {}, data)
            print('4', label, canon(data) if isinstance(data, dict) else data)
        except Exception as ex:
            print('4', label, type(ex).__name__, scrub(ex), canon(data))
print('4 object_from_string', desper.object_from_string('math.pi') == math.pi,
      desper.object_from_string('os.path.join') is os.path.join,
      desper.object_from_string('__main__.Comp') is Comp)
print('4 loads', ValueHandle.loads)

# 5. odd resource names and another key separator ------------------------
for arg in ('$handle{.}', '$handle{..}', '$handle{data..number}',
            '$handle{data.deep.}', '$handle{data}', '$handle{data.deep.er}',
            '$res{data.deep.er}', '$res{worlds}', '$handle{ data.number}',
            '$res{.}', '$res{data..number}', '$res{data/number}',
            '$handle{data/number}', '$res{data.number.}'):
    data = {'args': [arg, 'untouched'], 'kwargs': {'k': arg, 'z': 0}}
    try:
        desper.resource_dict_transformer(handles['full'], None, {}, data)
        print('5', repr(arg), '->', canon(data))
    except Exception as ex:
        print('5', repr(arg), type(ex).__name__, scrub(ex), canon(data))

old_split_char = desper.ResourceMap.split_char
for split_char in (':', '::', '.'):
    desper.ResourceMap.split_char = split_char
    try:
        other = desper.ResourceMap()
        other[split_char.join(('x', 'y', 'z'))] = ValueHandle('xyz')
        other['top'] = ValueHandle('top value')
        other[split_char.join(('w', 'full'))] = desper.WorldFromFileHandle(
            write_json('sep.json', {'entities': [{'id': 'sep', 'components': [
                {'type': M + 'Comp',
                 'args': ['$res{x.y.z}', '$handle{x.y.z}', '$res{top}',
                          '$handle{x.y}', '$handle{x:y:z}', '${math.tau}'],
                 'kwargs': {'a': '$res{x.y.z}', 'b': '$handle{nope.nope}'}}]}]}))
        loaded = other[split_char.join(('w', 'full'))]
        print('5 split_char', repr(split_char),
              [c.describe() for c in loaded.get_components('sep')])
    finally:
        desper.ResourceMap.split_char = old_split_char

import shutil
shutil.rmtree(TMP)
