"""Exercise desper.SimpleLoop (public API only) with scripted frames.

Every printed value is specified: dt values fed to the worlds, in
order, the state of the loop after start returns, exceptions.
"""
from fractions import Fraction

import desper

LOG = []


def flush(title):
    print(title, LOG)
    LOG.clear()


class Clock:
    """Time function returning scripted readings."""

    def __init__(self, readings, after=None):
        self.readings = list(readings)
        self.calls = 0
        self.after = after

    def __call__(self):
        self.calls += 1
        if not self.readings:
            if self.after is not None:
                raise self.after
            raise desper.Quit()
        reading = self.readings.pop(0)
        if isinstance(reading, BaseException):
            raise reading
        return reading


class Script(desper.Processor):
    """Run the action scripted for each frame of its world."""

    def __init__(self, name, actions=(), priority=0):
        self.name = name
        self.actions = dict(actions)
        self.frame = 0
        self.priority = priority

    def process(self, dt):
        self.frame += 1
        LOG.append((self.name, self.frame, dt, type(dt).__name__))
        action = self.actions.get(self.frame)
        if action is not None:
            action(self)


def script(name, actions=(), priority=0):
    """Make a scripted processor of a type of its own.

    A world holds one processor per type.
    """
    processor_type = type('Script_' + name.replace(' ', '_'), (Script, ), {})
    return processor_type(name, actions, priority)


@desper.event_handler('on_quit', 'on_switch_in', 'on_switch_out')
class Witness(desper.Processor):

    def __init__(self, name, on_switch_in=None, on_quit=None):
        self.name = name
        self.switch_in_action = on_switch_in
        self.quit_action = on_quit

    def process(self, dt):
        pass

    def on_quit(self):
        LOG.append((self.name, 'on_quit'))
        if self.quit_action is not None:
            self.quit_action(self)

    def on_switch_in(self, from_world, to_world):
        LOG.append((self.name, 'on_switch_in', getattr(from_world, 'name', None),
                    to_world.name))
        if self.switch_in_action is not None:
            self.switch_in_action(self)

    def on_switch_out(self, from_world, to_world):
        LOG.append((self.name, 'on_switch_out', from_world.name,
                    to_world.name))


class WorldHandle(desper.Handle):

    def __init__(self, name, *processors):
        self.name = name
        self.processors = processors
        self.loads = 0

    def load(self):
        self.loads += 1
        world = desper.World()
        world.name = f'{self.name}#{self.loads}'
        for processor in self.processors:
            world.add_processor(processor)
        return world


def state(loop):
    world = loop.current_world
    return (loop.running, loop.last_timestamp,
            getattr(world, 'name', None),
            getattr(loop.current_world_handle, 'name', None),
            getattr(world, 'dispatch_enabled', None))


def run(title, loop):
    try:
        result = loop.start()
        outcome = f'returned {result!r}'
    except BaseException as ex:     # NOQA
        context = ex.__context__
        outcome = (f'raised {type(ex).__name__}{ex.args} '
                   f'context {type(context).__name__}')
    print(title, outcome, state(loop), 'clock calls',
          getattr(loop.time_function, 'calls', None))
    flush(title + ' log')


def quit_(processor):
    raise desper.Quit()


def quit_loop_given(processor):
    desper.quit_loop(processor.world)


def quit_loop_default(processor):
    desper.quit_loop()


def fail(processor):
    raise ZeroDivisionError(processor.name)


def switch_to(handle, **kwargs):
    def action(processor):
        desper.switch(handle, from_world=processor.world, **kwargs)
    return action


# --- 1. plain frames, several kinds of readings ----------------------
READINGS = {
    'ints': [10, 11, 13, 13, 20],
    'floats': [0.1, 0.2, 0.30000000000000004, 0.3, 1e300, 1e300],
    'same': [5, 5, 5, 5],
    'fractions': [Fraction(1, 3), Fraction(1, 2), Fraction(5, 2)],
    'mixed': [0, 0.5, 1, Fraction(3, 2), True],
    'zero first': [0, 0, 0.0, 1],
    'negative': [-5, -3.5, -3.5, 0],
    'single': [7],
    'none': [],
}
for name, readings in READINGS.items():
    loop = desper.SimpleLoop(Clock(readings))
    loop.switch(WorldHandle('plain', script('script')))
    run(f'plain {name}', loop)

# --- 2. quitting in a given frame, by any processor -------------------
for frame in 1, 2, 4:
    for quitter, action in (('raise', quit_), ('quit_loop', quit_loop_given)):
        loop = desper.SimpleLoop(Clock([1, 2, 4, 8, 16, 32]))
        loop.switch(WorldHandle(
            'quit',
            script('first', priority=-1),
            script('quitter', {frame: action}),
            script('last', priority=1),
            Witness('witness')))
        run(f'quit {quitter} at {frame}', loop)
        # Restart the same loop: dt starts from 0 again
        loop.time_function = Clock([100, 101.5])
        run(f'restart after {quitter} at {frame}', loop)

# --- 3. quit_loop with the default loop ------------------------------
default_handle = WorldHandle('default', script('script', {2: quit_loop_default}),
                             Witness('default witness'))
desper.default_loop.time_function = Clock([1, 3, 6])
desper.default_loop.switch(default_handle)
run('default loop', desper.default_loop)
try:
    desper.quit_loop()
except desper.Quit as ex:
    print('quit_loop outside', type(ex).__name__, ex.args)
flush('quit_loop outside log')
other_world = desper.World()
other_world.name = 'other'
other_world.add_processor(Witness('other witness'))
try:
    desper.quit_loop(other_world)
except desper.Quit as ex:
    print('quit_loop other', type(ex).__name__, ex.args)
flush('quit_loop other log')
try:
    desper.quit_loop(desper.EventDispatcher())
except desper.Quit as ex:
    print('quit_loop dispatcher', type(ex).__name__, ex.args)


def quit_again(witness):
    LOG.append('re-entrant quit_loop')
    desper.quit_loop(desper.EventDispatcher())


def fail_on_quit(witness):
    raise KeyError('on_quit failed')


for name, quit_action in (('re-entrant', quit_again), ('failing', fail_on_quit)):
    loop = desper.SimpleLoop(Clock([1, 2, 3]))
    loop.switch(WorldHandle(
        'on_quit', script('script', {2: quit_loop_given}),
        Witness('witness', on_quit=quit_action)))
    run(f'on_quit {name}', loop)

# --- 4. other exceptions propagate -------------------------------------
loop = desper.SimpleLoop(Clock([1, 2, 4, 7, 11]))
loop.switch(WorldHandle('failing', script('script', {3: fail})))
run('failure', loop)
run('restart after failure', loop)
loop = desper.SimpleLoop(Clock([1, ValueError('clock'), 4]))
loop.switch(WorldHandle('failing clock', script('script')))
run('failing clock', loop)
run('restart failing clock', loop)
loop = desper.SimpleLoop(Clock([1, 2], after=KeyboardInterrupt('stop')))
loop.switch(WorldHandle('interrupt', script('script')))
run('interrupt', loop)
loop = desper.SimpleLoop(Clock([1, 'text', 3]))
loop.switch(WorldHandle('bad reading', script('script')))
run('bad reading', loop)
loop = desper.SimpleLoop(Clock([1, 2]))
run('no world', loop)

# --- 5. world switches: no time lost, none counted twice ---------------
target = WorldHandle('target', script('target script', {3: quit_}),
                     Witness('target witness'))
source = WorldHandle('source',
                     script('early', priority=-1),
                     script('switcher', {2: switch_to(target)}),
                     script('skipped', priority=1),
                     Witness('source witness'))
loop = desper.SimpleLoop(Clock([1, 2, 4, 8, 16, 32]))
loop.switch(source)
run('switch', loop)
print('source state', source().dispatch_enabled, source.loads, target.loads)

# Back and forth, clearing handles
ping = WorldHandle('ping')
pong = WorldHandle('pong')
ping.processors = (script('ping script',
                          {2: switch_to(pong, clear_current=True),
                           3: switch_to(pong, clear_next=True),
                           4: quit_loop_given}),
                   Witness('ping witness'))
pong.processors = (script('pong script',
                          {1: switch_to(ping),
                           2: switch_to(ping),
                           3: quit_}),
                   Witness('pong witness'))
loop = desper.SimpleLoop(Clock([Fraction(n * n, 4) for n in range(12)]))
loop.switch(ping)
run('ping pong', loop)
print('loads', ping.loads, pong.loads)
loop.time_function = Clock([0.5, 0.75, 1.75, 2, 4, 8])
run('ping pong restarted', loop)
print('loads', ping.loads, pong.loads)

# Switch to the very same world
selfish = WorldHandle('selfish')
selfish.processors = (script('selfish script',
                             {2: switch_to(selfish),
                              3: switch_to(selfish, clear_current=True),
                              5: quit_}),
                      Witness('selfish witness'))
loop = desper.SimpleLoop(Clock([1, 2, 3, 5, 8, 13, 21, 34]))
loop.switch(selfish)
run('selfish', loop)
print('loads', selfish.loads)

# --- 6. entering a world that asks for more ----------------------------
final = WorldHandle('final', script('final script', {2: quit_}),
                    Witness('final witness'))
relay = WorldHandle('relay', script('relay script'),
                    Witness('relay witness',
                            on_switch_in=lambda witness: desper.switch(
                                final, from_world=witness.world)))
start = WorldHandle('start', script('start script', {2: switch_to(relay)}),
                    Witness('start witness'))
loop = desper.SimpleLoop(Clock([1, 3, 6, 10, 15]))
loop.switch(start)
run('relay', loop)
print('loads', start.loads, relay.loads, final.loads)

quitting = WorldHandle('quitting', script('quitting script'),
                       Witness('quitting witness', on_switch_in=quit_))
start = WorldHandle('start', script('start script', {2: switch_to(quitting)}),
                    Witness('start witness'))
loop = desper.SimpleLoop(Clock([1, 3, 6, 10, 15]))
loop.switch(start)
run('quit on entering', loop)
run('restart after quit on entering', loop)

failing = WorldHandle('failing', script('failing script'),
                      Witness('failing witness', on_switch_in=fail))
start = WorldHandle('start', script('start script', {2: switch_to(failing)}),
                    Witness('start witness'))
loop = desper.SimpleLoop(Clock([1, 3, 6, 10, 15]))
loop.switch(start)
run('failure on entering', loop)
run('restart after failure on entering', loop)

# A time function asking for a switch, or quitting
late = WorldHandle('late', script('late script', {2: quit_}))
loop = desper.SimpleLoop(Clock([1, 2, desper.SwitchWorld(late), 5, 9]))
loop.switch(WorldHandle('clocked', script('clocked script')))
run('switching clock', loop)
loop = desper.SimpleLoop(Clock([1, 2, desper.Quit('from clock'), 5, 9]))
loop.switch(WorldHandle('clocked', script('clocked script')))
run('quitting clock', loop)
run('quitting clock restarted', loop)


# --- 7. the loop seen from inside a frame ------------------------------
def inspect(loop):
    def action(processor):
        LOG.append(('inside', loop.running, loop.last_timestamp,
                    loop.current_world is processor.world))
    return action


loop = desper.SimpleLoop(Clock([2, 4, 8]))
loop.switch(WorldHandle('inspected', script(
    'inspector', {1: inspect(loop), 2: inspect(loop), 3: inspect(loop)})))
run('inspect', loop)


def rewind(loop):
    def action(processor):
        # Public attribute: whatever is stored there is used
        loop.last_timestamp = 100
    return action


loop = desper.SimpleLoop(Clock([2, 4, 8]))
loop.switch(WorldHandle('rewound', script('rewinder', {1: rewind(loop)})))
run('rewind', loop)


def nested_start(loop):
    def action(processor):
        inner = desper.SimpleLoop(Clock([50, 55]))
        inner.switch(WorldHandle('inner', script('inner script')))
        inner.start()
        LOG.append(('inner done', state(inner)))
    return action


loop = desper.SimpleLoop(Clock([2, 4, 8]))
loop.switch(WorldHandle('outer', script('outer script',
                                        {2: nested_start(loop)})))
run('nested loops', loop)


# --- 8. custom loops ----------------------------------------------------
class OneShot(desper.Loop):
    """Its loop comes to an end on its own."""

    def loop(self):
        LOG.append(('one shot', self.running))


class QuittingLoop(desper.Loop):

    def loop(self):
        LOG.append(('quitting loop', self.running))
        desper.quit_loop(desper.EventDispatcher())


class FailingLoop(desper.Loop):

    def loop(self):
        raise OverflowError('failing loop')


for loop_type in OneShot, QuittingLoop, FailingLoop:
    loop = loop_type()
    before = loop.running
    try:
        result = loop.start()
        outcome = f'returned {result!r}'
    except Exception as ex:     # NOQA
        outcome = f'raised {type(ex).__name__}{ex.args}'
    print(loop_type.__name__, before, outcome, loop.running,
          loop.current_world, loop.current_world_handle)
    flush(loop_type.__name__ + ' log')
