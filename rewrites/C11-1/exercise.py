"""Exercise ResourceMap paths, shadowing and back-links (C11)."""
import desper

LOG = []


def log(*items):
    LOG.append(' '.join(str(i) for i in items))


class H(desper.Handle):
    def __init__(self, name):
        self.name = name
        self.loads = 0

    def load(self):
        self.loads += 1
        return f'<{self.name}#{self.loads}>'

    def __repr__(self):
        return f'H({self.name})'


class FalsyH(H):
    """Handle whose truth value is False, loading a falsy resource."""
    def __bool__(self):
        return False

    def load(self):
        self.loads += 1
        return 0


class NoneH(H):
    def load(self):
        self.loads += 1
        return None


class RaisingH(H):
    def load(self):
        raise KeyError('from load')


NAMES = {}


def name_of(obj):
    """Stable name for a map (registration order) or a handle."""
    if obj is None:
        return 'None'
    if isinstance(obj, desper.Handle):
        return repr(obj)
    # The object is kept alive, so that its id is never reused
    return NAMES.setdefault(id(obj), (f'map{len(NAMES)}', obj))[0]


KEEP = []


def dump(map_, indent=1, seen=None):
    """Canonical dump of the reachable tree, layers included."""
    KEEP.append(map_)
    pad = '  ' * indent
    log(f'{pad}{name_of(map_)} parent={name_of(map_.parent)} '
        f'key={map_.key!r} layers={len(map_.handles.maps)}')
    for depth, layer in enumerate(map_.handles.maps):
        for key in sorted(layer):
            handle = layer[key]
            log(f'{pad} handle[{depth}] {key!r} -> {handle!r} '
                f'parent={name_of(handle.parent)} key={handle.key!r} '
                f'cached={handle.cached}')
    for key in sorted(map_.maps):
        log(f'{pad} map {key!r}:')
        dump(map_.maps[key], indent + 2)


def query(map_, *keys):
    for key in keys:
        missing = object()
        got = map_.get(key, missing)
        got_default = map_.get(key)
        try:
            item = map_[key]
            raised = False
        except KeyError:
            item = None
            raised = True
        if got is missing:
            shown = 'MISSING'
        elif isinstance(got, desper.Handle):
            shown = f'{got!r} ()={got()!r}'
        else:
            shown = name_of(got)
        item_shown = name_of(item) if isinstance(item, desper.ResourceMap) \
            else repr(item)
        log(f'  query {key!r}: get={shown} default_none='
            f'{got_default is None} []={"KeyError" if raised else item_shown}'
            f' consistent={(got is missing) == raised}')


log('== 1 plain and composed insertion')
m = desper.ResourceMap()
name_of(m)
m['a'] = H('a')
m['b/c'] = H('bc')
m['b/d/e'] = H('bde')
m['x/y/z/w'] = H('deep')
dump(m)
query(m, 'a', 'b', 'b/c', 'b/d', 'b/d/e', 'x/y/z/w', 'x/y/z', 'nope',
      'b/nope', 'a/b', 'nope/deep/er', '', '/', 'a/', '/a', 'b//c')
log('  chained', m['b']['d']['e'], m['b']['d'].get('e')(),
    m.get('b/d/e')(), m['b/d']['e'])

log('== 2 latest assignment wins: handle <-> map')
m['a'] = desper.ResourceMap()           # map replaces handle
m['a/inner'] = H('inner')
dump(m)
m['a'] = H('a-again')                   # handle replaces whole subtree
dump(m)
query(m, 'a', 'a/inner')
m['b/c/under'] = H('under')             # intermediate replaces handle bc
dump(m)
query(m, 'b/c', 'b/c/under')
m['b'] = H('b-flat')                    # handle replaces deep subtree
dump(m)
query(m, 'b', 'b/c', 'b/d/e')

log('== 3 pre-populated and layered values')
sub = desper.ResourceMap()
sub['p/q'] = H('pq')
sub['r'] = H('r0')
sub.handles.maps.insert(0, {})          # layer, as the populator does
sub['r'] = H('r1')
sub['s'] = H('s1')
m['mounted/here'] = sub
dump(m)
query(m, 'mounted/here/r', 'mounted/here/s', 'mounted/here/p/q')
m['mounted/here/r/deeper'] = H('deeper')    # replaces both r0 and r1
dump(m)
query(m, 'mounted/here/r', 'mounted/here/r/deeper')
sub.handles.maps.insert(0, {})
sub['s'] = H('s2')
sub['s'] = desper.ResourceMap()         # map removes every shadowed s
dump(m)

log('== 4 falsy, None and raising handles; empty key parts')
f = desper.ResourceMap()
name_of(f)
f['falsy'] = FalsyH('falsy')
f['none'] = NoneH('none')
f['bad'] = RaisingH('bad')
f[''] = H('empty')
f['/'] = H('slash')
f['t/'] = H('trailing')
f['//u'] = H('double')
dump(f)
query(f, 'falsy', 'none', '', '/', 't/', 't', '//u', '//')
try:
    f['bad']
except KeyError as err:
    log('  [] on raising handle', err)
log('  get on raising handle', f.get('bad'))
log('  falsy value', f['falsy'], f.get('falsy', 'DEFAULT'))

log('== 5 clear detaches direct children only')
c = desper.ResourceMap()
name_of(c)
h1, h2, h3 = H('h1'), H('h2'), H('h3')
c['h1'] = h1
c['k/h2'] = h2
c.handles.maps.insert(0, {})
c['h1'] = h3
child = c.get('k')
foreign = desper.ResourceMap()
foreign['stolen'] = h1                  # h1 now belongs to another map
dump(c)
c.clear()
dump(c)
log('  h1', name_of(h1.parent) == name_of(foreign), h1.key)
log('  h3', h3.parent, h3.key, 'h2', h2.parent is child, h2.key)
log('  child', child.parent, child.key, sorted(child.handles))
query(c, 'h1', 'k', 'k/h2')
c['again/x'] = H('x')
c.clear()
c.clear()
dump(c)

log('== 6 same map mounted twice, moved values')
t = desper.ResourceMap()
name_of(t)
shared = desper.ResourceMap()
shared['leaf'] = H('leaf')
t['one'] = shared
t['two/nested'] = shared
dump(t)
hh = H('moving')
t['first'] = hh
t['second/place'] = hh
dump(t)

log('== 7 custom split char')


class Dotted(desper.ResourceMap):
    split_char = '.'


d = Dotted()
name_of(d)
d['a.b'] = H('ab')
d['a/b'] = H('slash-is-plain')
dump(d)
query(d, 'a.b', 'a/b', 'a', 'a.b.c')

log('== 8 static map mirrors the tree')
static = m.get_static_map()
log('  static', static.a, static['a'], static.get('a'),
    static.mounted.here.p.q, static['mounted']['here'].get('p').get('q'))

print('\n'.join(LOG))
