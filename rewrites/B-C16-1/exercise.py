"""Exercise DirectoryResourcePopulator / ResourceMap (public API only).

Canonical transcript: keys are printed sorted; the order in which the
file system lists a directory is unspecified, so factory calls are
printed sorted and, where two files of the SAME rule compete for one
key, the competitors are printed sorted.
"""
import os
import os.path as pt
import shutil
import tempfile

import desper
from desper import ResourceMap, Handle, DirectoryResourcePopulator

CALLS = []


def rel(path, root):
    if not pt.isabs(path) and not pt.exists(path):
        return path         # Made up name, not a file of the tree
    return pt.relpath(path, root).replace(os.sep, '/')


class FileHandle(Handle):
    def __init__(self, filename, *args, **kwargs):
        self.filename = filename
        self.args = args
        self.kwargs = kwargs
        CALLS.append((type(self).__name__, filename, args,
                      sorted(kwargs.items())))

    def load(self):
        with open(self.filename) as fin:
            return fin.read()


class OtherHandle(FileHandle):
    pass


def make_tree(root, spec):
    """spec: iterable of paths, a trailing / means (empty) directory.

    A trailing @ means dangling symbolic link: neither file nor directory.
    """
    for path in spec:
        full = pt.join(root, *path.split('/'))
        if path.endswith('@'):          # Dangling symbolic link
            os.makedirs(pt.dirname(full), exist_ok=True)
            os.symlink('no-such-target', full[:-1])
        elif path.endswith('/'):
            os.makedirs(full, exist_ok=True)
        else:
            os.makedirs(pt.dirname(full), exist_ok=True)
            with open(full, 'w') as fout:
                fout.write('content of ' + path)


def describe(handle, root):
    return '%s(%s%s%s)' % (
        type(handle).__name__, rel(handle.filename, root),
        ''.join(', %r' % (a,) for a in handle.args),
        ''.join(', %s=%r' % kv for kv in sorted(handle.kwargs.items())))


def competitors(filename, key):
    """Files next to filename that are trimmed to the same key."""
    directory = pt.dirname(filename)
    if not pt.isdir(directory) or pt.basename(filename) == key:
        return []
    return sorted(pt.join(directory, name) for name in os.listdir(directory)
                  if pt.splitext(name)[0] == key
                  and pt.isfile(pt.join(directory, name)))


def dump(resource_map, root, indent=1, sort_layers=False, path=''):
    pad = '    ' * indent
    keys = sorted(set(resource_map.maps) | set(resource_map.handles))
    if not keys:
        print(pad + '(empty)')
    for key in keys:
        full_key = path + key
        if key in resource_map.maps:
            sub = resource_map.maps[key]
            ok = sub.parent is resource_map and sub.key == key
            print('%s%s/  map%s' % (pad, key, '' if ok else ' BAD-PARENT'))
            dump(sub, root, indent + 1, sort_layers, full_key + '/')
        layers = [layer[key] for layer in resource_map.handles.maps
                  if key in layer]
        if layers:
            texts = [describe(h, root)
                     + ('' if h.parent is resource_map and h.key == key
                        else ' BAD-PARENT') for h in layers]
            if sort_layers:
                # Files of one directory competing for this key: which
                # one was listed last by the file system is unspecified
                present = {h.filename for h in layers}
                for i, handle in enumerate(layers):
                    rivals = competitors(handle.filename, key)
                    if len(rivals) > 1 and not present.issuperset(rivals):
                        texts[i] = '%s(one of %s)' % (
                            type(handle).__name__,
                            '|'.join(rel(r, root) for r in rivals))
                texts.sort()
            print('%s%s  handle %s' % (pad, key, ' over '.join(texts)))


def calls(root):
    for name, filename, args, kwargs in sorted(
            (n, rel(f, root), a, k) for n, f, a, k in CALLS):
        print('    call %s(%s, *%r, **%r)' % (name, filename, args, kwargs))
    CALLS.clear()


def scenario(title, spec, configure, sort_layers=False, resource_map=None,
             call_kwargs=None, **init_kwargs):
    print('--', title)
    tmp = tempfile.mkdtemp(prefix='rw2-c16-')
    try:
        root = pt.join(tmp, 'resources')
        make_tree(root, spec)
        populator = DirectoryResourcePopulator(root, **init_kwargs)
        configure(populator)
        if resource_map is None:
            resource_map = ResourceMap()
        for kwargs in (call_kwargs or [{}]):
            try:
                result = populator(resource_map, **kwargs)
                print('    populate(%s) -> %r' % (
                    ', '.join('%s=%r' % kv for kv in sorted(kwargs.items())
                              if kv[0] != 'root'), result))
            except Exception as exc:
                print('    populate raised', type(exc).__name__,
                      str(exc).replace(tmp, '<tmp>').replace(os.sep, '/'))
            calls(root)
            dump(resource_map, root, sort_layers=sort_layers)
        return resource_map, root, tmp
    finally:
        shutil.rmtree(tmp)


TREE = [
    'sprites/hero.png', 'sprites/hero.json', 'sprites/README',
    'sprites/level1/boss.png', 'sprites/level1/deep/deeper/deepest/x.png',
    'sprites/level1/deep/deeper/deepest/x.tar.gz',
    'sprites/empty/', 'sprites/level1/also.empty/',
    'sprites/.hidden', 'sprites/.hiddendir/secret.png',
    'sounds/hit.wav', 'sounds/music/intro.ogg', 'sounds/music/theme.wav',
    'worlds/one.json', 'unruled/file.txt', 'toplevel.txt',
    'sprites/pack.png/inner.png', 'sprites/pack.png/inner.txt',
    'sprites/dangling.png@', 'worlds/dangling@',
]


def basic(populator):
    populator.add_rule('sprites', FileHandle)
    populator.add_rule('sounds', OtherHandle, 44100, 'stereo', lazy=False,
                       file_exts=('.wav',))
    populator.add_rule('missing', FileHandle)
    populator.add_rule(pt.join('worlds'), FileHandle, file_exts=[])


for nest in (True, False):
    for trim in (False, True):
        scenario('basic nest=%s trim=%s' % (nest, trim), TREE, basic,
                 sort_layers=True, nest_on_conflict=nest,
                 trim_extensions=trim)

scenario('per call overrides, repeated population of the same map', TREE,
         basic, sort_layers=True, nest_on_conflict=False,
         trim_extensions=False,
         call_kwargs=[{}, {'trim_extensions': True},
                      {'nest_on_conflict': True},
                      {'nest_on_conflict': True, 'trim_extensions': False},
                      {'nest_on_conflict': False}])


def filters(populator):
    populator.add_rule('sprites', FileHandle, file_exts=iter(['.png']))
    populator.add_rule('sprites', OtherHandle, 'second rule',
                       file_exts={'.json', '', '.gz'})
    populator.add_rule('sounds/music', FileHandle, file_exts='.ogg')


scenario('extension filters (also applied to directory names)', TREE,
         filters, trim_extensions=False)
scenario('extension filters, trimmed: rules compete for keys', TREE,
         filters, trim_extensions=True)
scenario('extension filters, trimmed, no nesting', TREE,
         filters, trim_extensions=True, nest_on_conflict=False)


def overlapping(populator):
    populator.add_rule('sprites/level1', FileHandle, 'inner first')
    populator.add_rule('sprites', OtherHandle, 'outer second')
    populator.add_rule('.', FileHandle, 'everything', file_exts=['.txt'])
    populator.add_rule('sprites/../sounds/./music', OtherHandle, 'odd path')


scenario('overlapping rules', TREE, overlapping)
scenario('overlapping rules, no nesting', TREE, overlapping,
         nest_on_conflict=False)


def not_a_directory(populator):
    populator.add_rule('sounds', FileHandle)
    populator.add_rule('toplevel.txt', FileHandle)
    populator.add_rule('worlds', FileHandle)


scenario('rule on a regular file', TREE, not_a_directory)
scenario('no rules', TREE, lambda populator: None)
scenario('empty tree', [], basic)
scenario('only empty directories', ['sprites/', 'sprites/a/b/c/', 'sounds/'],
         basic)

# Conflicts with what the map already holds ------------------------------------
for nest in (True, False):
    existing = ResourceMap()
    old = FileHandle('old-hero')
    existing['sprites/hero'] = old
    existing['sprites/level1'] = FileHandle('old-level1-handle')
    existing['sounds'] = FileHandle('old-sounds-handle')
    existing['worlds/one/two'] = FileHandle('old-deep')
    existing['untouched/x'] = FileHandle('old-untouched')
    CALLS.clear()
    scenario('pre-filled map nest=%s' % nest, TREE, basic, sort_layers=True,
             resource_map=existing, nest_on_conflict=nest,
             trim_extensions=True)


# Factories that misbehave -------------------------------------------------------
class Boom(Exception):
    pass


def raising_factory(filename, *args):
    CALLS.append(('raising_factory', filename, args, []))
    raise Boom('cannot open ' + pt.basename(filename))


def none_factory(filename):
    CALLS.append(('none_factory', filename, (), []))
    return None


def misbehaving(populator):
    populator.add_rule('worlds', FileHandle, 'fine')
    populator.add_rule('nothing', none_factory)
    populator.add_rule('broken', raising_factory, 1)
    populator.add_rule('sounds', FileHandle, 'never reached')


scenario('factory returning None, factory raising',
         ['worlds/one.json', 'nothing/n.txt', 'broken/b.txt', 'sounds/s.wav'],
         misbehaving, call_kwargs=[{}, {'trim_extensions': True}])

shared = ResourceMap()


def reentrant_factory(filename, *args):
    """Touches the map that is being populated."""
    handle = FileHandle(filename, *args)
    name = pt.splitext(pt.basename(filename))[0]
    if shared.get('re/' + name) is None:
        shared['re/' + name] = FileHandle('planted-before-' + name)
    shared['planted/by/' + name] = FileHandle('planted-elsewhere')
    return handle


def reentrant(populator):
    populator.add_rule('re', reentrant_factory, 'reentrant')


for nest in (True, False):
    shared.clear()
    scenario('factory that modifies the map, nest=%s' % nest,
             ['re/only.txt'], reentrant, resource_map=shared,
             nest_on_conflict=nest, trim_extensions=True,
             call_kwargs=[{}, {}])

# Root given per call, relative root, trailing separator ---------------------
print('-- roots')
tmp = tempfile.mkdtemp(prefix='rw2-c16-')
cwd = os.getcwd()
try:
    make_tree(pt.join(tmp, 'a'), ['data/x.txt', 'data/sub/y.txt'])
    make_tree(pt.join(tmp, 'b'), ['data/z.txt'])
    populator = DirectoryResourcePopulator(pt.join(tmp, 'a'),
                                           trim_extensions=True)
    populator.add_rule('data', FileHandle)
    populator.add_rule('data' + os.sep, OtherHandle, 'trailing separator')
    target = ResourceMap()
    populator(target)
    CALLS.clear()
    dump(target, pt.join(tmp, 'a'))
    populator(target, root=pt.join(tmp, 'b') + os.sep)
    CALLS.clear()
    dump(target, tmp)
    os.chdir(tmp)
    relative = ResourceMap()
    populator(relative, root='a')
    CALLS.clear()
    dump(relative, 'a')
    print('    loaded:', relative['data/x'], '|', relative['data']['sub/y'])
    static = relative.get_static_map()
    print('    static:', static.data.x, '|', static.data.sub.y)
finally:
    os.chdir(cwd)
    shutil.rmtree(tmp)
