"""Exercise SimpleLoop: time deltas, Quit, switches, restarts, errors.

All output is deterministic; floats are printed with repr so that any
change in the arithmetic would show.
"""
import desper
from desper import SimpleLoop, World, Processor, Handle, Quit, SwitchWorld

LOG = []


class Clock:
    """Scripted time function; raises IndexError when exhausted."""

    def __init__(self, readings):
        self.readings = list(readings)
        self.calls = 0

    def __call__(self):
        self.calls += 1
        value = self.readings.pop(0)
        if isinstance(value, BaseException):
            raise value
        return value


class WorldHandle(Handle):
    listener = True

    def __init__(self, name, script):
        self.name = name
        self.script = script
        self.loads = 0

    def load(self):
        self.loads += 1
        world = World()
        world.name = f'{self.name}#{self.loads}'
        world.add_processor(Recorder(), priority=-5)
        world.add_processor(Scripted(self.script), priority=5)
        world.add_processor(Tail(), priority=10)
        if self.listener:
            world.create_entity(Listener(world.name))
        return world


@desper.event_handler('on_quit', 'on_switch_in', 'on_switch_out', 'ping')
class Listener:
    def __init__(self, name):
        self.name = name

    def on_quit(self):
        LOG.append(('on_quit', self.name))

    def on_switch_in(self, from_world, to_world):
        LOG.append(('on_switch_in', self.name,
                    getattr(from_world, 'name', None), to_world.name))

    def on_switch_out(self, from_world, to_world):
        LOG.append(('on_switch_out', self.name,
                    from_world.name, to_world.name))

    def ping(self, *args):
        LOG.append(('ping', self.name) + args)


class Recorder(Processor):
    def process(self, dt):
        LOG.append((self.world.name, 'dt', repr(dt), type(dt).__name__))


class Tail(Processor):
    def process(self, dt):
        LOG.append((self.world.name, 'tail'))


class Scripted(Processor):
    """Runs one scripted action per frame; actions are callables
    (world) -> None or None."""

    def __init__(self, script):
        self.script = script

    def process(self, dt):
        if not self.script:
            raise Quit()
        action = self.script.pop(0)
        if action is not None:
            action(self.world)


LOOP = None


def run(title, loop):
    global LOOP
    LOOP = loop
    before = (getattr(loop.current_world, 'name', None),
              loop.current_world_handle)
    try:
        res = loop.start()
        outcome = f'returned {res!r}'
    except BaseException as ex:     # noqa
        outcome = f'raised {type(ex).__name__}: {ex}'
    after = (getattr(loop.current_world, 'name', None),
             loop.current_world_handle)
    print(title, '->', outcome)
    print('   running', loop.running, 'last_timestamp', loop.last_timestamp,
          'world', before[0], '->', after[0],
          'handle same', before[1] is after[1],
          'dispatch_enabled', loop.current_world.dispatch_enabled)
    for entry in LOG:
        print('    ', entry)
    LOG.clear()


def quit_(world):
    raise Quit()


def quit_loop_given(world):
    desper.quit_loop(world)


def quit_loop_default(world):
    desper.quit_loop()


def boom(world):
    raise RuntimeError('frame failed')


def key_error(world):
    raise KeyError('k')


def switch_to(handle, **kwargs):
    def action(world):
        desper.switch(handle, from_world=world, **kwargs)
    return action


def raw_switch(handle, **kwargs):
    def action(world):
        raise SwitchWorld(handle, **kwargs)
    return action


def ping_later(world):
    world.dispatch('ping', 'from', world.name)


# --- 1. dt sequences -------------------------------------------------
print('== 1 dt')
for readings in ([0, 0, 0, 0],
                 [10, 10.5, 10.75, 13],
                 [0.1, 0.2, 0.30000000000000004, 1e18, 1e18 + 256],
                 [5],
                 [-3, -3, -1.5, 0, 2 ** 70, 2 ** 70 + 1],
                 [True, 2, 2.5],
                 [1.0, float('inf'), float('inf')]):
    handle = WorldHandle('w', [None] * (len(readings) - 1))
    clock = Clock(readings)
    loop = SimpleLoop(clock)
    loop.switch(handle)
    run(f'readings {readings}', loop)
    print('   clock calls', clock.calls)

# --- 2. restarts of the same loop object ----------------------------
print('== 2 restarts')
handle = WorldHandle('r', [None, quit_, None, None, quit_loop_given, boom,
                           None])
clock = Clock([100, 101, 103, 106, 110, 115, 121, 128, 136, 145, 155])
loop = SimpleLoop(clock)
loop.switch(handle)
for n in range(4):
    run(f'start {n}', loop)
print('   clock calls', clock.calls, 'left', clock.readings)

# --- 3. quit_loop with default target --------------------------------
print('== 3 quit_loop default')
handle = WorldHandle('dflt', [None, quit_loop_default])
desper.default_loop.time_function = Clock([1, 2, 4])
desper.default_loop.switch(handle)
run('default loop', desper.default_loop)
other_handle = WorldHandle('custom', [quit_loop_default])
loop = SimpleLoop(Clock([7, 8]))
loop.switch(other_handle)
run('custom loop, default target', loop)       # on_quit goes to 'dflt'
loop = SimpleLoop(Clock([7, 8]))
loop.switch(WorldHandle('custom2', [quit_loop_given]))
run('custom loop, given target', loop)
try:
    desper.quit_loop(None)
except Quit:
    print('   quit_loop outside loop raised Quit')
print('    ', LOG)
LOG.clear()

# --- 4. switches -------------------------------------------------------
print('== 4 switches')
hb = WorldHandle('B', [None, ping_later, None])
hc = WorldHandle('C', [None])
ha = WorldHandle('A', [None, switch_to(hb), None])
hb.script.insert(1, switch_to(hc, clear_current=True))
hc.script.append(raw_switch(ha, clear_next=True))
ha.script.append(switch_to(hb))
clock = Clock([0, 0.5, 1.5, 3, 5, 7.5, 10.5, 14, 18, 22.5, 27.5, 33, 39])
loop = SimpleLoop(clock)
loop.switch(ha)
run('A->B->C->A->B', loop)
print('   loads', ha.loads, hb.loads, hc.loads, 'clock calls', clock.calls)

# switch to itself, and switch in the first frame
hs = WorldHandle('S', [])
hs.script[:] = [switch_to(hs), None, raw_switch(hs, clear_current=True),
                None, raw_switch(hs, clear_current=True, clear_next=True),
                None]
clock = Clock(range(0, 100, 3))
loop = SimpleLoop(clock)
loop.switch(hs)
run('self switches', loop)
print('   loads', hs.loads, 'clock calls', clock.calls)

# --- 5. switch requested while a world is being entered --------------
print('== 5 nested switch')


@desper.event_handler('on_switch_in')
class Bouncer:
    def __init__(self, handle):
        self.handle = handle

    def on_switch_in(self, from_world, to_world):
        LOG.append(('bounce', to_world.name))
        desper.switch(self.handle, from_world=to_world)


class BounceHandle(WorldHandle):
    # A single on_switch_in handler per world: with two of them the order
    # of delivery is that of a set, and the first one that raises wins
    listener = False

    def __init__(self, name, script, target):
        super().__init__(name, script)
        self.target = target

    def load(self):
        world = super().load()
        world.create_entity(Bouncer(self.target))
        return world


final = WorldHandle('final', [None, None])
middle = BounceHandle('middle', [boom], final)
first = BounceHandle('first', [boom], middle)
origin = WorldHandle('origin', [None, switch_to(first)])
clock = Clock([1, 1.25, 1.5, 2, 3, 5, 8])
loop = SimpleLoop(clock)
loop.switch(origin)
run('origin->first->middle->final', loop)
print('   clock calls', clock.calls)

# --- 6. other exceptions propagate -----------------------------------
print('== 6 errors')
for script, readings in (([boom], [1, 2]),
                         ([None, key_error], [1, 2, 3]),
                         ([None, None, None], [1, 2]),            # IndexError
                         ([None, None], [1, RuntimeError('clock')]),
                         ([None, None], [1, Quit()]),
                         ([None, None], [Quit()]),
                         ([None, None], ['a', 'b', 3]),           # TypeError
                         ([None], [1, KeyboardInterrupt()])):
    handle = WorldHandle('err', script)
    clock = Clock(readings)
    loop = SimpleLoop(clock)
    loop.switch(handle)
    run(f'script {[getattr(a, "__name__", a) for a in script]} '
        f'readings {readings}', loop)
    # the same object can be started again
    clock.readings[:] = [50, 51, 52, 53]
    handle().get_processor(Scripted).script[:] = [None]
    run('   again', loop)

# --- 7. loop() called directly (no start) ----------------------------
print('== 7 direct loop()')
handle = WorldHandle('direct', [None, None])
clock = Clock([2, 4, 8, 16])
loop = SimpleLoop(clock)
loop.switch(handle)
LOOP = loop
try:
    loop.loop()
except Quit:
    print('   Quit escaped loop()')
print('   running', loop.running, 'last_timestamp', loop.last_timestamp)
for entry in LOG:
    print('    ', entry)
LOG.clear()
clock.readings[:] = ['x']
handle().get_processor(Scripted).script[:] = [None]
try:
    loop.loop()
except TypeError as ex:
    print('   TypeError', ex)
print('   last_timestamp', loop.last_timestamp, LOG)
LOG.clear()
# no world at all
loop = SimpleLoop(Clock([1, 2]))
try:
    loop.start()
except AttributeError as ex:
    print('   no world: AttributeError', ex, 'calls', loop.time_function.calls,
          loop.running, loop.last_timestamp)

# --- 8. more switch chains -------------------------------------------
print('== 8 switch chains')


class BrokenHandle(Handle):
    def load(self):
        LOG.append(('broken load',))
        raise RuntimeError('cannot load')


# a chain of five bouncing worlds
chain_end = WorldHandle('end', [None, switch_to(None)])     # patched below
handles = [chain_end]
for depth in range(5):
    handles.append(BounceHandle(f'hop{depth}', [boom], handles[-1]))
start_handle = WorldHandle('begin', [switch_to(handles[-1],
                                               clear_current=True)])
# 'end' switches back to 'begin' (reloaded, since it was cleared)
chain_end.script[1] = switch_to(start_handle, clear_current=True)
start_handle.script.append(None)
clock = Clock([i * i / 8 for i in range(20)])
loop = SimpleLoop(clock)
loop.switch(start_handle)
run('begin->hop4..hop0->end->begin', loop)
print('   loads', [h.loads for h in handles], start_handle.loads,
      'cached', [h.cached for h in handles], start_handle.cached,
      'clock calls', clock.calls)

# a failure while entering a world propagates out of start()
for bad in (BrokenHandle(), None):
    good = WorldHandle('good', [None, raw_switch(bad), None])
    clock = Clock([1, 2, 4, 8])
    loop = SimpleLoop(clock)
    loop.switch(good)
    run(f'switch to {type(bad).__name__}', loop)
    print('   clock calls', clock.calls)
    good().get_processor(Scripted).script[:] = [None]
    run('   again', loop)

# a failure in the middle of a nested chain
broken_bouncer = BounceHandle('bb', [boom], BrokenHandle())
good = WorldHandle('good2', [switch_to(broken_bouncer), None])
clock = Clock([1, 2, 4, 8])
loop = SimpleLoop(clock)
loop.switch(good)
run('nested broken', loop)
print('   world', loop.current_world.name,
      'dispatch_enabled', loop.current_world.dispatch_enabled)
loop.current_world.dispatch_enabled = True
run('   again', loop)

# Quit raised while entering a world
@desper.event_handler('on_switch_in')
class Quitter:
    def on_switch_in(self, from_world, to_world):
        LOG.append(('quitter', to_world.name))
        raise Quit()


class QuitHandle(WorldHandle):
    listener = False

    def load(self):
        world = super().load()
        world.create_entity(Quitter())
        return world


qh = QuitHandle('quitting', [None, None])
good = WorldHandle('good3', [None, switch_to(qh)])
clock = Clock([1, 2, 4, 8, 16, 32])
loop = SimpleLoop(clock)
loop.switch(good)
run('quit on entering', loop)
run('   again', loop)
print('   clock calls', clock.calls)
