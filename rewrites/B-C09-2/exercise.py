"""Exercise CoroutineProcessor through its public API only.

Everything printed is deterministic: coroutines run in a specified
order (queue order), so nothing needs sorting.
"""
import gc
import weakref
from fractions import Fraction

import desper
from desper import CoroutineProcessor, CoroutineState

LOG = []


def log(*items):
    LOG.append(' '.join(str(i) for i in items))


def flush(title):
    print('--', title)
    for line in LOG:
        print('   ', line)
    LOG.clear()


def attempt(title, function, *args):
    try:
        result = function(*args)
        log(title, '->', type(result).__name__)
        return result
    except BaseException as exc:
        log(title, 'raised', type(exc).__name__, exc)


def states(proc, **gens):
    log('states', ' '.join('%s=%s' % (name, proc.state(gen).name)
                           for name, gen in gens.items()))


def frames(proc, count, dt=1):
    for i in range(count):
        log('frame', i, 'dt', dt)
        attempt('process', proc.process, dt)


def ticker(name, waits, result=None):
    """Yield each of the given values in turn, then return."""
    for i, wait in enumerate(waits):
        log(name, 'step', i, 'yield', repr(wait))
        yield wait
    log(name, 'return', repr(result))
    return result


class Boom(Exception):
    pass


# 1. states, promise, waits of many kinds ------------------------------------
proc = CoroutineProcessor()
a = ticker('a', [None, 0, 2, -1, 0.5], 'A')
b = ticker('b', [1, 1], ['B'])
c = ticker('c', [True, False, Fraction(1, 2), 1e-9, 3], 0)
pa, pb, pc = proc.start(a), proc.start(b), proc.start(c)
log('promise', pa.generator is a, pa.processor is proc, pa.value,
    pa.state.name)
states(proc, a=a, b=b, c=c)
for i in range(12):
    log('frame', i)
    proc.process(0.5)
    states(proc, a=a, b=b, c=c)
log('values', repr(pa.value), repr(pb.value), repr(pc.value))
log('promise states', pa.state.name, pb.state.name, pc.state.name)
flush('lifecycle with varied waits')

# 2. equal wake-up times, many sleepers (heap order on ties) ----------------
proc = CoroutineProcessor()
sleepers = {}
pattern = [3, 1, 3, 2, 3, 1, 2, 3, 3, 1, 2, 2, 3, 1, 1, 3]
for i, wait in enumerate(pattern):
    name = 's%02d' % i
    sleepers[name] = ticker(name, [wait, 0, pattern[-1 - i], 0])
    proc.start(sleepers[name])
frames(proc, 9)
states(proc, **sleepers)
flush('ties in the wait queue')

# 3. errors: wrong types, double start, kill of unknown ------------------------
proc = CoroutineProcessor()
g = ticker('g', [0, 0, 0])
for bad in (None, 0, '', ticker, lambda: None, [], range(3), iter(())):
    attempt('start %s' % type(bad).__name__, proc.start, bad)
    attempt('kill %s' % type(bad).__name__, proc.kill, bad)
    attempt('state %s' % type(bad).__name__, proc.state, bad)
attempt('kill never started', proc.kill, g)
states(proc, g=g)
pg = attempt('start', proc.start, g)
attempt('start twice', proc.start, g)
states(proc, g=g)
attempt('kill', pg.kill)
attempt('kill twice', proc.kill, g)
attempt('promise kill twice', pg.kill)
states(proc, g=g)
frames(proc, 2)
attempt('kill after drop', proc.kill, g)
pg2 = attempt('restart', proc.start, g)
log('new promise', pg2 is not pg, pg.state.name, pg2.state.name)
frames(proc, 5)
log('values', pg.value, pg2.value)
attempt('start finished generator', proc.start, g)
frames(proc, 2)
states(proc, g=g)
flush('errors and restart')

# 4. kill / restart of runnable and waiting coroutines from outside -----------
proc = CoroutineProcessor()
r = ticker('r', [0] * 6, 'R')
s = ticker('s', [2, 2, 2], 'S')
t = ticker('t', [5, 0], 'T')
pr, ps, pt = proc.start(r), proc.start(s), proc.start(t)
frames(proc, 1)
states(proc, r=r, s=s, t=t)
proc.kill(r)
proc.kill(s)
states(proc, r=r, s=s, t=t)
pr2 = proc.start(r)        # pending kill cancelled, keeps its place
ps2 = proc.start(s)        # paused one: restarted right away
states(proc, r=r, s=s, t=t)
frames(proc, 1)
states(proc, r=r, s=s, t=t)
proc.kill(s)
frames(proc, 3)            # old wait record of s expires meanwhile
states(proc, r=r, s=s, t=t)
ps3 = proc.start(s)
proc.kill(t)
frames(proc, 4)
states(proc, r=r, s=s, t=t)
log('values', pr.value, pr2.value, ps.value, ps2.value, ps3.value, pt.value)
pt2 = proc.start(t)
frames(proc, 3)
log('values', pt.value, pt2.value)
flush('kill and restart from outside')

# 5. re-entrant: start, kill, state, restart from inside coroutine bodies -----
proc = CoroutineProcessor()
gens = {}


def child(name, count):
    for i in range(count):
        log(name, 'runs', i)
        yield
    return name


def parent():
    log('parent starts children')
    gens['c1'] = child('c1', 4)
    gens['c2'] = child('c2', 4)
    p1 = proc.start(gens['c1'])
    proc.start(gens['c2'])
    states(proc, **gens)
    yield
    log('parent kills c1, waits')
    p1.kill()
    attempt('parent kills c1 again', p1.kill)
    attempt('parent starts itself', proc.start, gens['parent'])
    states(proc, **gens)
    yield 2
    log('parent restarts c1')
    proc.start(gens['c1'])
    yield
    log('parent kills itself and goes on until the next yield')
    proc.kill(gens['parent'])
    states(proc, **gens)
    attempt('parent kills itself again', proc.kill, gens['parent'])
    yield
    log('parent resumed (only after an explicit restart)')


def suicidal():
    log('suicidal kills itself then returns')
    proc.kill(gens['suicidal'])
    return 'last words'
    yield


def phoenix():
    log('phoenix kills and restarts itself')
    proc.kill(gens['phoenix'])
    proc.start(gens['phoenix'])
    states(proc, phoenix=gens['phoenix'])
    yield 1
    log('phoenix again')
    proc.kill(gens['phoenix'])
    proc.start(gens['phoenix'])
    yield
    log('phoenix done')
    return 'ashes'


gens['parent'] = parent()
gens['suicidal'] = suicidal()
gens['phoenix'] = phoenix()
promises = {name: proc.start(gen) for name, gen in list(gens.items())}
frames(proc, 9)
states(proc, **gens)
log('values', {name: p.value for name, p in promises.items()})
attempt('restart parent after self kill', proc.start, gens['parent'])
frames(proc, 2)
flush('re-entrant operations')

# 6. coroutines that raise; nested process -----------------------------------
proc = CoroutineProcessor()


def raiser(name, exc, after):
    for i in range(after):
        log(name, 'fine', i)
        yield
    log(name, 'raises', exc.__name__)
    raise exc(name)


def nested():
    log('nested calls process from inside')
    attempt('inner process', proc.process, 1)
    yield
    log('nested second step')


x = raiser('x', Boom, 1)
y = ticker('y', [0] * 5, 'Y')
z = raiser('z', desper.Quit, 2)
q = raiser('q', KeyboardInterrupt, 3)
n = nested()
w1 = ticker('w1', [1, 1, 1])
px, py, pz, pq = (proc.start(x), proc.start(y), proc.start(z),
                  proc.start(q))
proc.start(w1)
frames(proc, 3)
states(proc, x=x, y=y, z=z, q=q)
pn = proc.start(n)
frames(proc, 4)
states(proc, x=x, y=y, z=z, q=q, n=n, w1=w1)
log('values', px.value, py.value, pz.value, pq.value, pn.value)
attempt('restart raised', proc.start, x)
frames(proc, 2)
flush('raising coroutines')

# 7. release of finished / killed coroutines -----------------------------------
proc = CoroutineProcessor()


def alive(refs):
    gc.collect()
    return ' '.join('%s=%s' % (name, ref() is not None)
                    for name, ref in refs.items())


refs = {}
for name, waits in (('quick', [0]), ('sleepy', [3]), ('killed', [0] * 9),
                    ('killed_sleepy', [2, 0]), ('restarted', [2, 0])):
    gen = ticker(name, waits)
    refs[name] = weakref.ref(gen)
    proc.start(gen)
    if name.startswith('killed'):
        gens[name] = gen
    if name == 'restarted':
        gens[name] = gen
    del gen
proc.process(1)
proc.kill(gens['killed'])
proc.kill(gens['killed_sleepy'])
proc.kill(gens['restarted'])
proc.start(gens['restarted'])
del gens['killed'], gens['killed_sleepy'], gens['restarted']
log('before', alive(refs))
for i in range(5):
    proc.process(1)
    log('after frame', i, alive(refs))
flush('release')

# 8. timer: waits are measured from the moment of the yield -------------------
proc = CoroutineProcessor()
u = ticker('u', [1.5, 0.1, 0.1 + 0.2], 'U')
v = ticker('v', [0.7, 2.2], 'V')
proc.start(u)
frames(proc, 2, 0.4)
proc.start(v)
frames(proc, 12, 0.4)
states(proc, u=u, v=v)
k = ticker('k', [10 ** 20, 1], 'K')
proc.start(k)
frames(proc, 2, 10.0 ** 19)
frames(proc, 10, 1e19)
states(proc, k=k)
flush('timer arithmetic')

# 9. through a world and the decorator ----------------------------------------
world = desper.World()
cp = CoroutineProcessor()
world.add_processor(cp)


@desper.coroutine
def decorated(name, world=None):
    log(name, 'first')
    other = decorated_inner(name + '.inner', world=world)
    log(name, 'inner state', other.state.name)
    yield 1
    log(name, 'second', other.value)
    return name


@desper.coroutine
def decorated_inner(name, world=None):
    log(name, 'runs')
    yield
    return name.upper()


promise = decorated('deco', world=world)
for i in range(4):
    world.process(0.5)
    log('frame', i, promise.state.name, promise.value)
flush('decorator')

# 10. unusual yielded values ------------------------------------------------------
proc = CoroutineProcessor()


class Wait:
    """A wait that knows how to compare and add itself."""

    def __init__(self, seconds):
        self.seconds = seconds

    def __repr__(self):
        return 'Wait(%r)' % self.seconds

    def __gt__(self, other):
        log('Wait.__gt__', self.seconds, other)
        return self.seconds > other

    def __add__(self, other):
        log('Wait.__add__', self.seconds, other)
        return self.seconds + other


o1 = ticker('o1', [float('nan'), float('inf'), 0], 'O1')
o2 = ticker('o2', [Wait(2), Wait(0), Wait(-3), 0.0, -0.0], 'O2')
o3 = ticker('o3', [1, 'soon', 0], 'O3')
o4 = ticker('o4', [0, [], 0], 'O4')
o5 = ticker('o5', [0] * 8, 'O5')
po = [proc.start(o) for o in (o1, o2, o3, o4, o5)]
for i in range(8):
    log('frame', i)
    attempt('process', proc.process, 1)
    states(proc, o1=o1, o2=o2, o3=o3, o4=o4, o5=o5)
    if i == 4:
        attempt('kill o3', proc.kill, o3)
        attempt('kill o4', proc.kill, o4)
log('values', [p.value for p in po])
flush('unusual waits; yields that cannot be compared')
