"""Exercise deferred dispatching (C04) through the public API only.

Prints a canonical transcript: wherever several handlers listen to the
same event (delivery order among them is unspecified) only per-handler
sequences, sorted by handler name, are printed.
"""
import gc

import desper

LOG = []


def out(*parts):
    print(*parts)


def flush(title):
    out('--', title)
    for line in LOG:
        out('   ', line)
    LOG.clear()


class Boom(Exception):
    pass


@desper.event_handler('ping', 'pong', 'pang')
class Recorder:
    """Single global-log recorder, optional scripted behaviour."""

    def __init__(self, name, script=None):
        self.name = name
        # script: {(event, payload): callable(recorder)}
        self.script = script or {}
        self.dispatcher = None

    def _handle(self, event, *args, **kwargs):
        LOG.append((self.name, event, args, sorted(kwargs.items())))
        action = self.script.get((event, args[0] if args else None))
        if action is not None:
            action(self)

    def ping(self, *args, **kwargs):
        self._handle('ping', *args, **kwargs)

    def pong(self, *args, **kwargs):
        self._handle('pong', *args, **kwargs)

    def pang(self, *args, **kwargs):
        self._handle('pang', *args, **kwargs)


@desper.event_handler('ping')
class PingOnly:
    def __init__(self, name):
        self.name = name
        self.seen = []

    def ping(self, *args, **kwargs):
        self.seen.append(args)


@desper.event_handler(ping='renamed', pong='renamed')
class Renamed:
    def __init__(self, name):
        self.name = name
        self.seen = []

    def renamed(self, *args, **kwargs):
        self.seen.append(args)


def state(d):
    return 'enabled=%r' % (d.dispatch_enabled,)


# 1. basic deferral with falsy payloads -------------------------------
d = desper.EventDispatcher()
r = Recorder('r')
d.add_handler(r)
d.dispatch('ping', 'before')
d.dispatch_enabled = False
for payload in (0, '', None, (), 0.0, False):
    d.dispatch('ping', payload)
d.dispatch('pong')
d.dispatch('pang', 1, 2, k=None, a=0)
d.dispatch('unknown', 'dropped')
flush('1 while disabled (only "before" expected) ' + state(d))
d.dispatch_enabled = True
flush('1 after enabling ' + state(d))
d.dispatch_enabled = True
flush('1 enabling twice delivers nothing')

# 2. non-bool values for the flag --------------------------------------
for off, on in ((0, 1), ('', 'yes'), (None, [0]), (False, 2.5)):
    d.dispatch_enabled = off
    d.dispatch('ping', 'flag', off)
    first = state(d)
    d.dispatch_enabled = off        # disabling again does not release
    d.dispatch_enabled = on
    flush('2 flag %r -> %r: %s then %s' % (off, on, first, state(d)))

# 3. listeners known at dispatch time / handlers at delivery time ------
d = desper.EventDispatcher()
d.dispatch_enabled = False
d.dispatch('ping', 'no listener yet')
late = Recorder('late')
d.add_handler(late)
d.dispatch('ping', 'late listens')
d.remove_handler(late)
d.dispatch('ping', 'name known, nobody listens')
other = Recorder('other')
d.add_handler(other)
out('is_handler', d.is_handler(late), d.is_handler(other))
d.dispatch_enabled = True
flush('3 delivered to handlers registered at delivery time')

# handler collected while its event is pending
d = desper.EventDispatcher()
tmp = Recorder('tmp')
keep = Recorder('keep', )
d.add_handler(tmp)
d.dispatch_enabled = False
d.dispatch('pong', 'for tmp')
del tmp
gc.collect()
d.dispatch('pong', 'name still known')
d.add_handler(keep)
d.dispatch_enabled = True
flush('3b collected handler')

# 4. exception injected at every delivery position ---------------------
N = 5
for position in range(N):
    d = desper.EventDispatcher()

    def explode(rec):
        raise Boom(rec.name)

    rec = Recorder('x', {('ping', position): explode})
    d.add_handler(rec)
    d.dispatch_enabled = False
    for i in range(N):
        d.dispatch('ping', i)
    rounds = 0
    while True:
        rounds += 1
        try:
            d.dispatch_enabled = True
            LOG.append(('returned', state(d)))
            break
        except Boom as ex:
            LOG.append(('raised', type(ex).__name__, ex.args, state(d)))
            # events dispatched between the failure and the next enabling
            # are delivered at once (the dispatcher is enabled)
            d.dispatch('pong', 'between', position)
    d.dispatch_enabled = True
    flush('4 raise at %d (rounds=%d)' % (position, rounds))

# 5. nested disable injected at every delivery position ----------------
for position in range(N):
    d = desper.EventDispatcher()

    def disable(rec, d=d):
        d.dispatch_enabled = False
        d.dispatch('pong', 'queued behind', position)

    rec = Recorder('y', {('ping', position): disable})
    d.add_handler(rec)
    d.dispatch_enabled = False
    for i in range(N):
        d.dispatch('ping', i)
    d.dispatch_enabled = True
    LOG.append(('after first enabling', state(d)))
    d.dispatch('pang', 'still deferred?')
    d.dispatch_enabled = True
    LOG.append(('after second enabling', state(d)))
    flush('5 nested disable at %d' % position)

# 6. re-entrant callbacks ----------------------------------------------
d = desper.EventDispatcher()


def redispatch(rec, d=d):
    d.dispatch('pong', 'nested immediate')


def reenable(rec, d=d):
    # nested enabling drains the rest of the queue from the inside
    d.dispatch_enabled = True
    LOG.append(('inner enabling returned',))


def toggle(rec, d=d):
    d.dispatch_enabled = False
    d.dispatch('pong', 'queued by toggle')
    d.dispatch_enabled = True
    LOG.append(('toggle returned',))


rec = Recorder('z', {('ping', 1): redispatch, ('ping', 2): reenable,
                     ('ping', 4): toggle})
d.add_handler(rec)
d.dispatch_enabled = False
for i in range(6):
    d.dispatch('ping', i)
d.dispatch_enabled = True
flush('6 re-entrant dispatch / enable / toggle')

# clear() from a callback during the release
d = desper.EventDispatcher()


def clear_all(rec, d=d):
    d.clear()
    LOG.append(('cleared', state(d)))
    d.dispatch('ping', 'nobody listens any more')
    d.add_handler(rec)
    d.dispatch('ping', 'listening again')


rec = Recorder('c', {('ping', 1): clear_all})
d.add_handler(rec)
d.dispatch_enabled = False
for i in range(4):
    d.dispatch('ping', i)
d.dispatch_enabled = True
d.dispatch_enabled = True
flush('6b clear during release')

# handler removing itself / adding another during the release
d = desper.EventDispatcher()
newcomer = Recorder('newcomer')


def swap(rec, d=d):
    d.remove_handler(rec)
    d.add_handler(newcomer)


rec = Recorder('leaver', {('ping', 1): swap})
d.add_handler(rec)
d.dispatch_enabled = False
for i in range(4):
    d.dispatch('ping', i)
d.dispatch_enabled = True
flush('6c swap handlers during release')

# 7. several handlers for one event: per-handler sequences -------------
d = desper.EventDispatcher()
many = [PingOnly('p%d' % i) for i in range(4)] + [Renamed('q%d' % i)
                                                  for i in range(3)]
for h in many:
    d.add_handler(h)
d.add_handler(many[0])       # adding twice is idempotent
d.dispatch_enabled = False
for i in range(3):
    d.dispatch('ping', i)
    d.dispatch('pong', -i)
d.remove_handler(many[1])
d.remove_handler(many[1])    # removing twice is harmless
d.dispatch_enabled = True
out('-- 7 several handlers')
for h in sorted(many, key=lambda h: h.name):
    out('   ', h.name, h.seen, d.is_handler(h))

# 8. worlds: deferred on_add/on_remove and switching --------------------


@desper.event_handler('on_add', 'on_remove', 'on_switch_in', 'on_switch_out',
                      'on_quit')
class Comp:
    def __init__(self, name):
        self.name = name

    def on_add(self, entity, world):
        LOG.append((self.name, 'on_add', entity))

    def on_remove(self, entity, world):
        LOG.append((self.name, 'on_remove', entity))

    def on_switch_in(self, from_world, to_world):
        LOG.append((self.name, 'on_switch_in', from_world is None))

    def on_switch_out(self, from_world, to_world):
        LOG.append((self.name, 'on_switch_out'))

    def on_quit(self):
        LOG.append((self.name, 'on_quit'))


w = desper.World()
w.dispatch_enabled = False
e = w.create_entity(Comp('a'))
w.add_component(e, Comp('b'))           # replaces a
w.remove_component(e, Comp)
w.create_entity(Comp('c'), entity_id=0)
flush('8 world while disabled')
w.dispatch_enabled = True
flush('8 world after enabling')


class Stepper(desper.Processor):
    def __init__(self, name, steps):
        self.name = name
        self.steps = steps

    def process(self, dt):
        LOG.append((self.name, 'process'))
        self.steps.pop(0)()


class Handle(desper.Handle):
    def __init__(self, name, steps):
        self.name = name
        self.steps = steps

    def load(self):
        LOG.append((self.name, 'load'))
        world = desper.World()
        world.dispatch_enabled = False
        world.create_entity(Comp(self.name + '.comp'))
        world.add_processor(Stepper(self.name, self.steps))
        return world


loop = desper.SimpleLoop(time_function=iter(range(100)).__next__)
handles = {}
handles['one'] = Handle('one', [
    lambda: desper.switch(handles['two'], from_world=loop.current_world),
    lambda: desper.quit_loop(loop.current_world),
])
handles['two'] = Handle('two', [
    lambda: None,
    lambda: desper.switch(handles['one'], from_world=loop.current_world),
])
loop.switch(handles['one'])
flush('8 loop: first world entered')
loop.start()
flush('8 loop: run until quit, running=%r' % loop.running)


# Quit raised from a callback released while entering a world
@desper.event_handler('on_add')
class Quitter:
    def on_add(self, entity, world):
        LOG.append(('quitter', 'on_add', entity))
        raise desper.Quit()


class QuitHandle(desper.Handle):
    def load(self):
        world = desper.World()
        world.dispatch_enabled = False
        world.create_entity(Comp('before'))
        world.create_entity(Quitter())
        world.create_entity(Comp('after'))
        return world


qh = QuitHandle()
loop = desper.SimpleLoop(time_function=iter(range(100)).__next__)
try:
    loop.switch(qh)
except desper.Quit:
    LOG.append(('Quit escaped switch',))
flush('8 quit while entering ' + state(qh()))
qh().dispatch_enabled = True
flush('8 remaining events delivered later, once')

# 9. listener bookkeeping under add/remove from callbacks --------------
# (several listeners of one event: only order-independent facts printed)


@desper.event_handler('tick', tock='tick')
class Member:
    def __init__(self, name, d, action=None):
        self.name = name
        self.d = d
        self.action = action
        self.seen = []

    def tick(self, *args):
        self.seen.append(args)
        if self.action is not None:
            self.action(self)


d = desper.EventDispatcher()
extra = Member('extra', d)
victim = Member('victim', d)


def mutate(member):
    # the snapshot taken by dispatch() still contains the victim and
    # does not contain the newcomer, whatever the delivery order
    d.remove_handler(victim)
    d.add_handler(extra)


members = [Member('m0', d), Member('m1', d, mutate), victim,
           Member('m3', d)]
for m in members:
    d.add_handler(m)
d.dispatch('tick', 'live')
d.dispatch('tock', 'live 2')
d.dispatch_enabled = False
d.dispatch('tick', 'deferred')
d.add_handler(victim)
d.dispatch('tock', 'deferred 2')
d.dispatch_enabled = True
out('-- 9 add/remove from callbacks')
for m in sorted(members + [extra], key=lambda m: m.name):
    out('   ', m.name, m.seen, d.is_handler(m))

# an event whose listeners all left is still a known name: it is queued
d = desper.EventDispatcher()
solo = Member('solo', d)
d.add_handler(solo)
d.remove_handler(solo)
d.dispatch_enabled = False
d.dispatch('tick', 'queued although nobody listens')
d.dispatch('never heard of', 'dropped')
d.add_handler(solo)
d.dispatch_enabled = True
out('-- 9b', solo.seen)

# raising handler, sole listener of its event, others on other events
d = desper.EventDispatcher()


def explode(member):
    raise Boom(member.name)


bad = Member('bad', d, explode)
d.add_handler(bad)
goods = [PingOnly('g%d' % i) for i in range(3)]
for g in goods:
    d.add_handler(g)
d.dispatch_enabled = False
d.dispatch('ping', 1)
d.dispatch('tick', 2)
d.dispatch('ping', 3)
try:
    d.dispatch_enabled = True
except Boom as ex:
    out('-- 9c raised', ex.args)
out('   ', bad.seen, [g.seen for g in goods])
d.dispatch_enabled = True
out('   ', bad.seen, [g.seen for g in goods])
try:
    d.dispatch('tock', 4)
except Boom as ex:
    out('    raised live', ex.args, bad.seen)
