"""Exercise DirectoryResourcePopulator (C16) through the public API."""
import os
import os.path as pt
import shutil
import tempfile

import desper

LOG = []


def log(*items):
    LOG.append(' '.join(str(i) for i in items))


# A fixed location, recreated identically at each run, so that the
# order in which the file system lists entries is the same across runs
ROOT = pt.join(pt.dirname(pt.abspath(__file__)), '_exercise_tree')
shutil.rmtree(ROOT, ignore_errors=True)
try:
    os.makedirs(ROOT)
except OSError:                 # Read-only location, fall back
    ROOT = tempfile.mkdtemp(prefix='desper_c16_')

TREE = [
    # directories end with a slash
    'sprites/',
    'sprites/player.png',
    'sprites/player.json',
    'sprites/enemy.png',
    'sprites/README',
    'sprites/archive.tar.gz',
    'sprites/level1/',
    'sprites/level1/boss.png',
    'sprites/level1/boss.txt',
    'sprites/level1/deep/er/still/leaf.png',
    'sprites/level1/empty/',
    'sprites/clash/',                   # directory and file, same stem
    'sprites/clash/inner.png',
    'sprites/clash.png',
    'sprites/.hidden.png',
    'sprites/.hiddendir/ghost.png',
    'sprites/with space/odd name.png',
    'sounds/',
    'sounds/beep.wav',
    'sounds/music/theme.ogg',
    'sounds/music/theme.wav',
    'emptydir/',
    'notadir',
    'outside.png',
    'nested/rule/dir/a.bin',
    'nested/rule/dir/sub/b.bin',
    'nested/other/c.bin',
]

for entry in TREE:
    full = pt.join(ROOT, *entry.split('/'))
    if entry.endswith('/'):
        os.makedirs(full, exist_ok=True)
    else:
        os.makedirs(pt.dirname(full), exist_ok=True)
        with open(full, 'w') as file:
            file.write(entry)


def clean(text):
    return str(text).replace(ROOT, '<ROOT>').replace(os.sep, '/')


class FileHandle(desper.Handle):
    kind = 'file'

    def __init__(self, filename, *args, **kwargs):
        self.filename = filename
        self.args = args
        self.kwargs = kwargs

    def load(self):
        with open(self.filename) as file:
            return file.read()

    def __repr__(self):
        return clean(f'{self.kind}({self.filename}, {self.args}, '
                     f'{sorted(self.kwargs.items())})')


class OtherHandle(FileHandle):
    kind = 'other'


class FalsyHandle(FileHandle):
    kind = 'falsy'

    def __bool__(self):
        return False


CALLS = []


def picky_factory(filename, *args, **kwargs):
    """Factory (not a type) refusing some files by returning None."""
    CALLS.append(clean(filename))
    if filename.endswith('.txt') or filename.endswith('README'):
        return None
    return OtherHandle(filename, *args, **kwargs)


def dump(map_, indent=1):
    pad = '  ' * indent
    parent_ok = all(h.parent is map_ for h in map_.handles.maps[0].values())
    log(f'{pad}[key={map_.key!r} layers={len(map_.handles.maps)} '
        f'top_parents_ok={parent_ok}]')
    for depth, layer in enumerate(map_.handles.maps):
        for key in sorted(layer):
            handle = layer[key]
            log(f'{pad}handle[{depth}] {key!r} -> {handle!r} '
                f'key={handle.key!r} parent_here={handle.parent is map_}')
    for key in sorted(map_.maps):
        sub = map_.maps[key]
        log(f'{pad}map {key!r} parent_ok={sub.parent is map_} '
            f'key={sub.key!r}:')
        dump(sub, indent + 1)


def attempt(title, populator, map_=None, **kwargs):
    log('== ' + title)
    map_ = desper.ResourceMap() if map_ is None else map_
    try:
        populator(map_, **kwargs)
    except Exception as err:
        log('  raised', type(err).__name__, clean(err))
    dump(map_)
    return map_


# 1 defaults: nesting on, no trimming, a single rule, all extensions
pop = desper.DirectoryResourcePopulator(ROOT)
pop.add_rule('sprites', FileHandle)
m = attempt('1 single rule, defaults', pop)
log('  content', m['sprites/level1/boss.png'],
    m['sprites']['level1']['deep/er/still']['leaf.png'],
    m.get('sprites/README')())

# 2 trimming at construction: conflicts nest
pop = desper.DirectoryResourcePopulator(ROOT, trim_extensions=True)
pop.add_rule('sprites', FileHandle)
m = attempt('2 trim at construction, nest on conflict', pop)

# 3 same, nesting disabled per call
attempt('3 trim, no nesting per call', pop, nest_on_conflict=False)

# 4 nesting disabled at construction, enabled per call, trimming off per call
pop4 = desper.DirectoryResourcePopulator(ROOT, nest_on_conflict=False,
                                         trim_extensions=True)
pop4.add_rule('sprites', FileHandle)
attempt('4a construction no-nest+trim', pop4)
attempt('4b per call nest, no trim', pop4, nest_on_conflict=True,
        trim_extensions=False)

# 5 extension filters, extra arguments, several rules, missing dir
pop = desper.DirectoryResourcePopulator(ROOT, trim_extensions=True)
pop.add_rule('sprites', FileHandle, 1, 'two', file_exts=['.png'], scale=2)
pop.add_rule('sounds', OtherHandle, file_exts=('.wav', '.ogg'), loop=False)
pop.add_rule('missing', FileHandle)
pop.add_rule('emptydir', FileHandle)
pop.add_rule(pt.join('nested', 'rule', 'dir'), FalsyHandle, None)
pop.add_rule('sprites/level1', OtherHandle, file_exts={'.txt', ''})
m = attempt('5 several rules with filters and arguments', pop)
log('  rules', [(r.directory_path, sorted(r.file_exts), list(r.args),
                 sorted(r.kwargs.items())) for r in pop.rules])

# 6 repeated population of the same map, with and without nesting
attempt('6a populate again, nesting', pop, m)
attempt('6b populate again, no nesting', pop, m, nest_on_conflict=False)
attempt('6c populate again, no trimming', pop, m, trim_extensions=False)

# 7 rule on something that is not a directory; earlier rules did apply
pop = desper.DirectoryResourcePopulator(ROOT)
pop.add_rule('sounds', FileHandle)
pop.add_rule('notadir', FileHandle)
pop.add_rule('sprites', FileHandle)
attempt('7 not a directory', pop)

# 8 factory function refusing files, root given per call
pop = desper.DirectoryResourcePopulator('/nonexistent/root')
pop.add_rule('sprites', picky_factory, 'extra')
attempt('8a wrong root: everything skipped', pop)
attempt('8b root per call, picky factory', pop, root=ROOT,
        trim_extensions=True)
log('  factory calls', sorted(CALLS))

# 9 rule for the root itself, and for a nested root
pop = desper.DirectoryResourcePopulator(pt.join(ROOT, 'nested'))
pop.add_rule('', FileHandle)
attempt('9a rule is the root itself', pop)
pop = desper.DirectoryResourcePopulator(pt.join(ROOT, 'nested'))
pop.add_rule('.', FileHandle, file_exts=['.bin'])
attempt('9b rule is dot', pop)
pop = desper.DirectoryResourcePopulator(pt.join(ROOT, 'nested') + os.sep)
pop.add_rule('rule/../other', FileHandle)
attempt('9c unnormalised rule path', pop)

# 10 pre-populated map: existing handle where a directory is expected,
# existing map where a file is expected, falsy handles in conflicts
pre = desper.ResourceMap()
pre['sprites/level1'] = FileHandle('pre-level1')
pre['sprites/player/sub'] = FileHandle('pre-sub')
pre['sounds'] = FalsyHandle('pre-sounds')
pop = desper.DirectoryResourcePopulator(ROOT, trim_extensions=True)
pop.add_rule('sprites', FalsyHandle, file_exts=['.png', '.json'])
pop.add_rule('sounds', FalsyHandle)
attempt('10a pre-populated, nesting', pop, pre)
attempt('10b pre-populated again, no nesting', pop, pre,
        nest_on_conflict=False)

# 11 no rules at all, rule given as dataclass with unsized container
pop = desper.DirectoryResourcePopulator(ROOT)
attempt('11a no rules', pop)


class Everything:
    """Container without a length."""
    def __contains__(self, item):
        return True


pop.rules.append(desper.DirectoryPopulatorRule('sounds', FileHandle))
pop.rules.append(desper.DirectoryPopulatorRule(
    'sprites', OtherHandle, ['x'], ['.json', '.gz'], {'k': 'v'}))
attempt('11b rules built by hand', pop)
pop.rules.append(desper.DirectoryPopulatorRule(
    'emptydir', OtherHandle, file_exts=Everything()))
attempt('11c unsized extension container', pop)

shutil.rmtree(ROOT, ignore_errors=True)
print('\n'.join(LOG))
