"""Exercise desper's event dispatching through the public API only.

Prints a canonical transcript: everything whose order is unspecified
(the order in which the listeners of one event are called) is sorted.
"""
import gc

import desper

LOG = []


def flush(title):
    """Print what was logged since the last flush, sorted."""
    print(title, sorted(LOG))
    LOG.clear()


def attempt(title, function, *args, **kwargs):
    try:
        function(*args, **kwargs)
        outcome = 'ok'
    except Exception as ex:     # NOQA
        outcome = type(ex).__name__ + repr(ex.args)
    print(title, outcome, sorted(LOG))
    LOG.clear()


@desper.event_handler('ping', 'both', pong='on_pong')
class Base:

    def __init__(self, name):
        self.name = name

    def ping(self, *args, **kwargs):
        LOG.append((self.name, 'Base.ping', repr(args),
                    repr(sorted(kwargs.items()))))

    def both(self, *args, **kwargs):
        LOG.append((self.name, 'Base.both', repr(args),
                    repr(sorted(kwargs.items()))))

    def on_pong(self, *args, **kwargs):
        LOG.append((self.name, 'Base.on_pong', repr(args),
                    repr(sorted(kwargs.items()))))


@desper.event_handler('extra', ping='other_ping')
class Derived(Base):

    def other_ping(self, *args, **kwargs):
        LOG.append((self.name, 'Derived.other_ping', repr(args),
                    repr(sorted(kwargs.items()))))

    def extra(self, *args, **kwargs):
        LOG.append((self.name, 'Derived.extra', repr(args),
                    repr(sorted(kwargs.items()))))

    def both(self, *args, **kwargs):
        LOG.append((self.name, 'Derived.both', repr(args),
                    repr(sorted(kwargs.items()))))


@desper.event_handler()
class NoEvents:
    pass


class Mixin:
    pass


@desper.event_handler('extra')
class Diamond(Derived, Mixin):

    def extra(self, *args, **kwargs):
        LOG.append((self.name, 'Diamond.extra', repr(args)))


print('mappings',
      sorted(Base.__events__.items()),
      sorted(Derived.__events__.items()),
      sorted(Diamond.__events__.items()),
      hasattr(NoEvents, '__events__'))

# --- 1. plain deliveries, unusual arguments ---------------------------
dispatcher = desper.EventDispatcher()
base = Base('base')
derived = Derived('derived')
diamond = Diamond('diamond')
for handler in base, derived, diamond:
    dispatcher.add_handler(handler)
print('is_handler', [dispatcher.is_handler(h)
                     for h in (base, derived, diamond, Base('stranger'))])

for arguments, keywords in (((), {}), ((0,), {}), ((None, '', ()), {}),
                            ((1, 2), {'a': 0, 'b': None}),
                            (([], {}), {'event_name': 'shadow'})):
    for name in 'ping', 'pong', 'both', 'extra', 'nobody':
        if 'event_name' in keywords:
            # Cannot be passed by keyword, it is dispatch's own parameter
            attempt(f'dispatch {name} {arguments} {keywords}',
                    dispatcher.dispatch, name, *arguments, **keywords)
        else:
            dispatcher.dispatch(name, *arguments, **keywords)
            flush(f'dispatch {name} {arguments} {keywords}')

# --- 2. double registration, removal ---------------------------------
dispatcher.add_handler(derived)
dispatcher.add_handler(derived)
dispatcher.dispatch('ping', 'twice')
flush('after double add')
dispatcher.remove_handler(derived)
print('is_handler after remove', dispatcher.is_handler(derived))
dispatcher.dispatch('ping', 'removed')
dispatcher.dispatch('extra', 'removed')
flush('after remove')
dispatcher.remove_handler(derived)        # Not there: nothing happens
dispatcher.remove_handler(Base('never added'))
dispatcher.add_handler(derived)
dispatcher.dispatch('ping', 'back')
flush('after re-add')

# --- 3. garbage collected handlers ------------------------------------
temporary = Derived('temporary')
dispatcher.add_handler(temporary)
dispatcher.dispatch('extra', 'alive')
flush('temporary alive')
del temporary
gc.collect()
dispatcher.dispatch('extra', 'collected')
flush('temporary collected')


# --- 4. re-entrant callbacks ------------------------------------------
@desper.event_handler('poke', 'chain', 'leave')
class Reentrant:

    def __init__(self, name, dispatcher, victim=None):
        self.name = name
        self.dispatcher = dispatcher
        self.victim = victim
        self.spawned = []

    def poke(self, depth):
        LOG.append((self.name, 'poke', depth))
        # Remove somebody else, add somebody new: neither changes who
        # receives the event being dispatched
        if self.victim is not None:
            self.dispatcher.remove_handler(self.victim)
        newcomer = Reentrant(f'{self.name}+', self.dispatcher)
        self.spawned.append(newcomer)
        self.dispatcher.add_handler(newcomer)

    def chain(self, depth):
        LOG.append((self.name, 'chain', depth))
        if depth:
            self.dispatcher.dispatch('chain', depth - 1)
            self.dispatcher.dispatch('ping', depth)

    def leave(self):
        LOG.append((self.name, 'leave'))
        self.dispatcher.remove_handler(self)


reentrant_dispatcher = desper.EventDispatcher()
listener = Base('listener')
victim = Reentrant('victim', reentrant_dispatcher)
first = Reentrant('first', reentrant_dispatcher, victim)
second = Reentrant('second', reentrant_dispatcher, first)
victim.victim = second
for handler in listener, victim, first, second:
    reentrant_dispatcher.add_handler(handler)
reentrant_dispatcher.dispatch('poke', 0)
flush('poke 0')
print('registered', [reentrant_dispatcher.is_handler(h)
                     for h in (listener, victim, first, second)])
reentrant_dispatcher.dispatch('poke', 1)
flush('poke 1')
reentrant_dispatcher.dispatch('chain', 1)
flush('chain 1')
reentrant_dispatcher.dispatch('leave')
flush('leave')
reentrant_dispatcher.dispatch('leave')
flush('leave again')
reentrant_dispatcher.dispatch('chain', 1)
flush('chain after leave')


# --- 5. raising callbacks ---------------------------------------------
@desper.event_handler('explode', 'fine')
class Raiser:

    def __init__(self, name):
        self.name = name
        self.count = 0

    def explode(self, error):
        self.count += 1
        raise error(self.count)

    def fine(self, value):
        LOG.append((self.name, 'fine', value))


raising_dispatcher = desper.EventDispatcher()
lonely = Raiser('lonely')
raising_dispatcher.add_handler(lonely)
attempt('lonely explode', raising_dispatcher.dispatch, 'explode', KeyError)
attempt('lonely explode', raising_dispatcher.dispatch, 'explode', ValueError)
attempt('lonely fine', raising_dispatcher.dispatch, 'fine', 0)
others = [Raiser(f'other{i}') for i in range(4)]
for other in others:
    raising_dispatcher.add_handler(other)
# Which listener is called first is unspecified, but only one is called
lonely.count = 0
attempt('crowd explode', raising_dispatcher.dispatch, 'explode', LookupError)
print('calls', sum(raiser.count for raiser in [lonely, *others]))
attempt('crowd fine', raising_dispatcher.dispatch, 'fine', None)


# --- 6. handlers releasing each other ---------------------------------
@desper.event_handler('release')
class Releaser:
    registry = {}
    calls = 0

    def release(self):
        Releaser.calls += 1
        Releaser.registry.clear()


release_dispatcher = desper.EventDispatcher()
Releaser.registry.update(a=Releaser(), b=Releaser())
for handler in Releaser.registry.values():
    release_dispatcher.add_handler(handler)
del handler
release_dispatcher.dispatch('release')
print('release calls', Releaser.calls)
release_dispatcher.dispatch('release')
print('release calls', Releaser.calls)


# --- 7. equal handlers, falsy handlers --------------------------------
@desper.event_handler('ping')
class Equal:

    def __init__(self, name):
        self.name = name

    def __eq__(self, other):
        return isinstance(other, Equal)

    def __hash__(self):
        return 7

    def __bool__(self):
        return False

    def __len__(self):
        return 0

    def ping(self, *args):
        LOG.append((self.name, 'Equal.ping', args))


equal_dispatcher = desper.EventDispatcher()
equal1, equal2 = Equal('equal1'), Equal('equal2')
equal_dispatcher.add_handler(equal1)
equal_dispatcher.dispatch('ping', 1)
flush('one equal')
equal_dispatcher.add_handler(equal2)
print('is_handler', equal_dispatcher.is_handler(equal1),
      equal_dispatcher.is_handler(equal2))
equal_dispatcher.dispatch('ping', 2)
flush('two equal')
equal_dispatcher.remove_handler(equal2)
equal_dispatcher.dispatch('ping', 3)
flush('equal removed')
equal_dispatcher.add_handler(equal2)
equal_dispatcher.dispatch('ping', 4)
flush('equal added')


# --- 8. a handler that cannot be added completely ---------------------
class Broken:
    __events__ = {'ping': 'ping', 'pong': 'missing', 'extra': 'extra'}

    def ping(self, *args):
        LOG.append(('broken', 'ping', args))

    def extra(self, *args):
        LOG.append(('broken', 'extra', args))


broken_dispatcher = desper.EventDispatcher()
broken = Broken()
attempt('add broken', broken_dispatcher.add_handler, broken)
print('is_handler', broken_dispatcher.is_handler(broken))
for name in 'ping', 'pong', 'extra':
    attempt(f'broken {name}', broken_dispatcher.dispatch, name, 5)
broken_dispatcher.dispatch_enabled = False
for name in 'ping', 'pong', 'extra':
    broken_dispatcher.dispatch(name, 6)
late = Base('late')
broken_dispatcher.add_handler(late)
broken_dispatcher.dispatch_enabled = True
flush('broken released')
broken_dispatcher.remove_handler(broken)
broken_dispatcher.dispatch('ping', 7)
flush('broken after remove')


# --- 9. disabled dispatching -------------------------------------------
@desper.event_handler('first', 'second', 'third', 'fourth')
class Sequenced:
    """Single listener: the order of its calls is specified (FIFO)."""

    def __init__(self, dispatcher):
        self.dispatcher = dispatcher
        self.calls = []

    def first(self, *args, **kwargs):
        self.calls.append(('first', args, sorted(kwargs.items())))
        self.dispatcher.dispatch('fourth', 'from first')

    def second(self, *args, **kwargs):
        self.calls.append(('second', args, sorted(kwargs.items())))
        if args and args[0] == 'disable':
            self.dispatcher.dispatch_enabled = False
            # Queued behind the events already waiting
            self.dispatcher.dispatch('fourth', 'queued by second')
        if args and args[0] == 'raise':
            raise RuntimeError('second')

    def third(self, *args, **kwargs):
        self.calls.append(('third', args, sorted(kwargs.items())))

    def fourth(self, *args, **kwargs):
        self.calls.append(('fourth', args, sorted(kwargs.items())))


queue_dispatcher = desper.EventDispatcher()
sequenced = Sequenced(queue_dispatcher)
queue_dispatcher.add_handler(sequenced)
queue_dispatcher.dispatch_enabled = False
queue_dispatcher.dispatch('first', 1)
queue_dispatcher.dispatch('unknown', 1)
queue_dispatcher.dispatch('second', 'disable', key=None)
queue_dispatcher.dispatch('third', 0, x=0)
queue_dispatcher.dispatch('second', 'raise')
queue_dispatcher.dispatch('third', 'last')
print('while disabled', sequenced.calls, queue_dispatcher.dispatch_enabled)
queue_dispatcher.dispatch_enabled = True
print('released', sequenced.calls, queue_dispatcher.dispatch_enabled)
sequenced.calls.clear()
try:
    queue_dispatcher.dispatch_enabled = True
except RuntimeError as ex:
    print('raised', ex.args)
print('released', sequenced.calls, queue_dispatcher.dispatch_enabled)
sequenced.calls.clear()
queue_dispatcher.dispatch_enabled = True
print('released', sequenced.calls, queue_dispatcher.dispatch_enabled)
sequenced.calls.clear()
queue_dispatcher.dispatch_enabled = False
queue_dispatcher.dispatch('third', 'lost')
queue_dispatcher.clear()
print('cleared', queue_dispatcher.dispatch_enabled,
      queue_dispatcher.is_handler(sequenced))
queue_dispatcher.dispatch('third', 'nobody')
queue_dispatcher.add_handler(sequenced)
queue_dispatcher.dispatch('third', 'again')
print('after clear', sequenced.calls)


# --- 10. a world is a dispatcher too ----------------------------------
@desper.event_handler('on_add', 'on_remove', 'ping')
class Component:

    def on_add(self, entity, world):
        LOG.append(('component', 'on_add', entity))
        world.dispatch('ping', 'from on_add')

    def on_remove(self, entity, world):
        LOG.append(('component', 'on_remove', entity))

    def ping(self, *args):
        LOG.append(('component', 'ping', args))


world = desper.World()
world_listener = Base('world listener')
world.add_handler(world_listener)
entity = world.create_entity(Component())
flush('world create')
world.dispatch('ping', 'direct')
flush('world ping')
world.dispatch_enabled = False
world.add_component(entity, Component())
world.dispatch('ping', 'queued')
flush('world disabled')
world.dispatch_enabled = True
flush('world enabled')
world.delete_entity(entity, immediate=True)
world.dispatch('ping', 'after delete')
flush('world delete')
world.clear()
world.dispatch('ping', 'after clear')
flush('world clear')
