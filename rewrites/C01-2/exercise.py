"""Exercise World bookkeeping (create/add/replace/remove/delete/process/clear)
through the public API only and print a canonical transcript."""
import os
import random
import sys

# str hashes are salted per process: pin the salt so that set.pop() order of
# the world's private sets (unspecified) is the same in every run
if os.environ.get('PYTHONHASHSEED') != '0':
    os.environ['PYTHONHASHSEED'] = '0'
    os.execv(sys.executable, [sys.executable] + sys.argv)

import desper


class Base:
    def __init__(self, tag):
        self.tag = tag

    def __repr__(self):
        return f'{type(self).__name__}({self.tag})'


class Left(Base):
    pass


class Right(Base):
    pass


class Diamond(Left, Right):
    pass


class Other:
    def __init__(self, tag):
        self.tag = tag

    def __repr__(self):
        return f'Other({self.tag})'


class Falsy(Base):
    """A component that is falsy and compares equal to everything."""

    def __bool__(self):
        return False

    def __len__(self):
        return 0

    def __eq__(self, other):
        return True

    __hash__ = object.__hash__


LOG = []


@desper.event_handler('on_add', 'on_remove')
class Noisy(Base):
    def on_add(self, entity, world):
        LOG.append(('add', repr(self), repr(entity),
                    world.has_component(entity, type(self)),
                    world.entity_exists(entity)))

    def on_remove(self, entity, world):
        LOG.append(('remove', repr(self), repr(entity),
                    world.has_component(entity, type(self)),
                    world.entity_exists(entity)))


@desper.event_handler('on_add')
class Spawner(Base):
    """Re-entrant: adds another component to its own entity on add."""

    def on_add(self, entity, world):
        LOG.append(('spawner', repr(self), repr(entity)))
        world.add_component(entity, Other(self.tag + '-spawned'))


class NoisyController(desper.Controller):
    def __init__(self, tag):
        self.tag = tag

    def __repr__(self):
        return f'NoisyController({self.tag})'


TYPES = [Base, Left, Right, Diamond, Other, Falsy, Noisy, Spawner,
         NoisyController]


def snapshot(world, title):
    print(f'--- {title}')
    ents = sorted(world.entities, key=repr)
    print('entities', [repr(e) for e in ents])
    for t in TYPES:
        pairs = sorted((repr(e), repr(c)) for e, c in world.get(t))
        print('get', t.__name__, pairs)
    probe = ents + [0, '', None, 999, ('x', 1), 'ghost']
    seen = []
    for e in probe:
        if e is None or any(e == s and type(e) is type(s) for s in seen):
            continue
        seen.append(e)
        comps = sorted(repr(c) for c in world.get_components(e))
        has = [t.__name__ for t in TYPES if world.has_component(e, t)]
        got = [(t.__name__, repr(world.get_component(e, t, 'DEFAULT')))
               for t in (Left, Right, Diamond, Other, Falsy, Noisy, Spawner)]
        print(' ent', repr(e), world.entity_exists(e), comps, has, got)
    if LOG:
        print(' log', LOG)
        LOG.clear()


def scenario_basic():
    w = desper.World()
    snapshot(w, 'empty')
    e1 = w.create_entity(Base('a'), Left('b'), Right('c'))
    e2 = w.create_entity(Diamond('d'))
    e3 = w.create_entity()            # no components: does not exist
    print('ids', e1, e2, e3)
    snapshot(w, 'created')
    w.add_component(e3, Falsy('f'))
    w.add_component(e1, Left('b2'))   # replacement
    snapshot(w, 'replaced + falsy')
    print('removed', w.remove_component(e1, Base))   # exact type first
    print('removed', w.remove_component(e1, Base))   # then a subtype
    print('removed', w.remove_component(e1, Base))
    print('removed', w.remove_component(e1, Base))   # nothing left: None
    print('removed', w.remove_component(e3, Base))   # falsy component
    print('removed', w.remove_component('ghost', Base))
    snapshot(w, 'removed')
    return w


def scenario_ids():
    w = desper.World()
    for eid in (0, '', ('x', 1), frozenset({1, 2}), 2, 1, -1, 1.5, True):
        got = w.create_entity(Other(repr(eid)), entity_id=eid)
        print('custom id', repr(eid), '->', repr(got))
    snapshot(w, 'custom ids (True == 1 replaces the Other of 1)')
    # automatic ids must skip 1 and 2
    autos = [w.create_entity(Base(f'auto{i}')) for i in range(3)]
    print('autos', autos)
    w.create_entity(Left('again'), Right('again'), entity_id=0)  # extend 0
    w.create_entity(Other('same type twice'), Other('wins'), entity_id=7)
    snapshot(w, 'auto ids')
    w.delete_entity(0)
    w.delete_entity(('x', 1), immediate=True)
    snapshot(w, 'deferred 0, immediate tuple')
    w.add_component(0, Other('replaced while dead'))
    w.add_component(0, Diamond('added while dead'))
    snapshot(w, 'dead entity modified')
    w.process()
    snapshot(w, 'processed')
    try:
        w.delete_entity('ghost', immediate=True)
    except KeyError as ex:
        print('KeyError', ex)
    w.delete_entity('ghost')
    try:
        w.process()
    except KeyError as ex:
        print('KeyError on process', ex)
    w.process()
    w.clear()
    snapshot(w, 'cleared')
    print('after clear auto id', w.create_entity(Base('fresh')))
    snapshot(w, 'fresh')


def scenario_events():
    w = desper.World()
    e = w.create_entity(Noisy('n1'), Spawner('s1'), NoisyController('c1'))
    snapshot(w, 'events: created')
    c = w.get_component(e, NoisyController)
    print('controller', c.entity == e, c.world is w)
    w.add_component(e, Noisy('n2'))
    snapshot(w, 'events: replaced noisy')
    w.dispatch_enabled = False
    e2 = w.create_entity(Noisy('n3'), Spawner('s2'))
    w.add_component(e2, Noisy('n4'))
    w.add_component('late', Spawner('s3'))
    snapshot(w, 'events: disabled')
    w.dispatch_enabled = True
    snapshot(w, 'events: enabled')
    w.delete_entity(e)
    w.remove_component(e2, Base)
    snapshot(w, 'events: delete deferred + remove by supertype')
    w.process(0.5)
    snapshot(w, 'events: processed')
    w.clear()
    snapshot(w, 'events: cleared')


def scenario_random(seed):
    rng = random.Random(seed)
    w = desper.World()
    ctors = [Base, Left, Right, Diamond, Other, Falsy, Noisy]
    ids = [0, 1, 2, 3, 'a', ('t',), None]
    n = 0
    for step in range(120):
        op = rng.choice(['create', 'add', 'add', 'remove', 'delete',
                         'delete_now', 'process', 'toggle', 'clear'])
        eid = rng.choice(ids)
        n += 1
        try:
            if op == 'create':
                comps = [rng.choice(ctors)(f'r{n}.{i}')
                         for i in range(rng.randrange(3))]
                w.create_entity(*comps, entity_id=eid)
            elif op == 'add' and eid is not None:
                w.add_component(eid, rng.choice(ctors)(f'r{n}'))
            elif op == 'remove' and eid is not None:
                w.remove_component(eid, rng.choice(ctors + [Spawner]))
            elif op == 'delete' and eid is not None:
                w.delete_entity(eid)
            elif op == 'delete_now' and eid is not None:
                w.delete_entity(eid, immediate=True)
            elif op == 'process':
                w.process()
            elif op == 'toggle':
                w.dispatch_enabled = not w.dispatch_enabled
            elif op == 'clear' and rng.random() < 0.2:
                w.clear()
        except KeyError as ex:
            print('step', step, op, repr(eid), 'KeyError', ex)
            # finish the interrupted clean-up so later steps can go on
            for _ in range(10):
                try:
                    w.process()
                    break
                except KeyError:
                    pass
        if step % 6 == 0:
            snapshot(w, f'random {seed} step {step} {op} {eid!r}')
    w.dispatch_enabled = True
    snapshot(w, f'random {seed} end')


class Deep(Diamond):
    pass


class Wide(Deep, Other):
    """Reachable from Base along three paths and from Other."""


def attempt(label, fn):
    try:
        print(label, '->', repr(fn()))
    except Exception as ex:
        print(label, 'raised', type(ex).__name__, ex)


def scenario_walk():
    """Subtype walks: diamonds, odd query types, order independence."""
    w = desper.World()
    a = w.create_entity(Wide('w1'), Deep('d1'), Diamond('m1'))
    b = w.create_entity(Wide('w2'), Left('l2'), entity_id='b')
    c = w.create_entity(Falsy('f3'), Right('r3'), entity_id=0)
    for t in (Base, Left, Right, Diamond, Deep, Wide, Other, Falsy):
        pairs = w.get(t)
        print('walk get', t.__name__, len(pairs),
              sorted((repr(e), repr(x)) for e, x in pairs))
        # one pair per component: no duplicates through diamonds
        print('  distinct', len({(repr(e), id(x)) for e, x in pairs}))
        for e in (a, b, c, 'nobody'):
            print('  has', repr(e), w.has_component(e, t),
                  'get', repr(w.get_component(e, t)))
    # a result list is a private copy
    lst = w.get(Base)
    lst.clear()
    print('copy', len(w.get(Base)))
    # odd query types
    attempt('get(object)', lambda: len(w.get(object)))
    attempt('get(type)', lambda: w.get(type))
    attempt('get(5)', lambda: w.get(5))
    attempt('get([])', lambda: w.get([]))
    attempt('get(int)', lambda: w.get(int))
    attempt('has(a, object)', lambda: w.has_component(a, object))
    attempt('has(nobody, object)', lambda: w.has_component('nobody', object))
    attempt('has(nobody, 5)', lambda: w.has_component('nobody', 5))
    attempt('has(a, 5)', lambda: w.has_component(a, 5))
    attempt('has(a, [])', lambda: w.has_component(a, []))
    attempt('has(a, int)', lambda: w.has_component(a, int))
    attempt('has([], Base)', lambda: w.has_component([], Base))
    # deleting while holding a result list is fine
    for e, x in w.get(Base):
        if isinstance(x, Deep):
            w.remove_component(e, type(x))
    for t in (Base, Deep, Wide, Other):
        print('after removal', t.__name__,
              sorted((repr(e), repr(x)) for e, x in w.get(t)))
    w.delete_entity(b)
    print('dead still listed', sorted(repr(x) for _, x in w.get(Left)),
          w.entity_exists(b), w.has_component(b, Left))
    w.process()
    print('gone', w.get(Left), w.has_component(b, Left))


scenario_walk()
scenario_basic()
scenario_ids()
scenario_events()
for seed in (1, 2, 3):
    scenario_random(seed)
