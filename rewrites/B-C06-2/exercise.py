"""Exercise type queries (C06) through the public API only.

Canonical transcript: lists returned by World.get() are sorted (their
order is unspecified), everything else is printed as returned.
"""
import random

import desper

LOG = []


def out(*parts):
    print(*parts)


def flush(title):
    out('--', title)
    for line in LOG:
        out('   ', line)
    LOG.clear()


def cname(obj):
    if obj is None:
        return 'None'
    return getattr(obj, 'name', repr(obj))


def show_get(world, type_):
    pairs = world.get(type_)
    shown = sorted((repr(e), cname(c)) for e, c in pairs)
    assert len(shown) == len(pairs)
    return shown


class Named:
    def __init__(self, name=None):
        self.name = name or type(self).__name__.lower()

    def __repr__(self):
        return '<%s>' % self.name


# Hand-written hierarchy with diamonds -----------------------------------
class A(Named):
    pass


class B(A):
    pass


class C(A):
    pass


class D(B, C):          # diamond
    pass


class E(D):
    pass


class F(C):
    def __bool__(self):     # falsy component
        return False


class G(Named):
    def __len__(self):      # falsy component
        return 0


class H(G, A):
    pass


class I(E, F, H):       # NOQA many paths to A
    pass


TYPES = [A, B, C, D, E, F, G, H, I, Named]


def table(world, entities, types=TYPES):
    for t in types:
        out('   get(%s) = %s' % (t.__name__, show_get(world, t)))
        for e in entities:
            out('      %r: has=%r get_component=%s'
                % (e, world.has_component(e, t),
                   cname(world.get_component(e, t))))


world = desper.World()
e1 = world.create_entity(A(), B(), D())
e2 = world.create_entity(C(), I())
e3 = world.create_entity(F(), G(), entity_id='')
e4 = world.create_entity(H(), E(), entity_id=0)
e5 = world.create_entity(entity_id=('empty', 1))
e6 = world.create_entity(E('e-late'), entity_id=-7)
world.add_component(e1, G('g-on-1'))
world.add_component(e6, A('a-late'))
world.add_component(e2, C('c-replaced'))        # replaces
ENTITIES = [e1, e2, e3, e4, e5, e6, 'missing']
out('-- 1 hand-written hierarchy', [repr(e) for e in ENTITIES])
table(world, ENTITIES)
out('   default:', world.get_component(e5, A, 'dflt'),
    world.get_component('missing', A, 0), world.get_component(e3, A, None))
out('   get_components:',
    [sorted(cname(c) for c in world.get_components(e)) for e in ENTITIES])

# removal detaches exactly one object, preferring the exact type
out('-- 2 removals')
for e, t in ((e1, A), (e1, A), (e1, A), (e1, A), (e2, A), (e2, G), (e2, G),
             (e3, C), (e3, Named), (e3, Named), (e4, B), (e4, A), (e4, A),
             ('missing', A), (e6, D), (e6, Named), (e6, Named)):
    removed = world.remove_component(e, t)
    out('   remove(%r, %s) -> %s; left=%s exists=%r'
        % (e, t.__name__, cname(removed),
           sorted(cname(c) for c in world.get_components(e)),
           world.entity_exists(e)))
table(world, ENTITIES, [A, G, Named])
out('   entities:', sorted(map(repr, world.entities)))

# builtin types, falsy values, None components --------------------------
out('-- 3 builtin component types')
w = desper.World()
x = w.create_entity(0, '', 0.0, (), None)
y = w.create_entity(True, 'text', entity_id=x + 1)
z = w.create_entity(False, 7, entity_id='z')
for t in (int, bool, str, float, tuple, type(None)):
    out('   get(%s) = %s' % (t.__name__,
                             sorted((repr(e), repr(c)) for e, c in w.get(t))))
    for e in (x, y, z):
        out('      %r: has=%r get_component=%r default=%r'
            % (e, w.has_component(e, t), w.get_component(e, t),
               w.get_component(e, t, 'dflt')))
out('   remove int from z:', w.remove_component(z, int),
    sorted(map(repr, w.get_components(z))))
out('   remove int from z:', w.remove_component(z, int),
    sorted(map(repr, w.get_components(z))), w.entity_exists(z))
out('   remove int from z:', w.remove_component(z, int), w.entity_exists(z))
out('   remove NoneType from x:', w.remove_component(x, type(None)),
    sorted(map(repr, w.get_components(x))))
out('   remove int from x:', w.remove_component(x, int),
    sorted(map(repr, w.get_components(x))))

# deletion keeps the index consistent ------------------------------------
out('-- 4 deletion and re-creation')
w = desper.World()
ids = [w.create_entity(A('a%d' % i), (B if i % 2 else C)('s%d' % i))
       for i in range(8)]
for i in (5, 1, 3):
    w.delete_entity(ids[i], immediate=True)
w.delete_entity(ids[0])
out('   before process:', show_get(w, A), sorted(w.entities))
w.process()
out('   after process:', show_get(w, A), sorted(w.entities))
for i in (3, 0, 1):
    w.create_entity(D('d%d' % i), entity_id=ids[i])
w.add_component(ids[7], A('a7-replaced'))
out('   re-created:', show_get(w, A))
out('   by B:', show_get(w, B), ' by C:', show_get(w, C), ' by D:',
    show_get(w, D))
try:
    w.delete_entity('nope', immediate=True)
except KeyError as ex:
    out('   KeyError', ex.args)
w.clear()
out('   cleared:', show_get(w, A), w.entities, w.create_entity(A()))


# callbacks: re-entrant and raising --------------------------------------
class Boom(Exception):
    pass


@desper.event_handler('on_add', 'on_remove')
class Hooked(A):
    def __init__(self, name, on_add=None, on_remove=None):
        super().__init__(name)
        self.hooks = {'on_add': on_add, 'on_remove': on_remove}

    def on_add(self, entity, world):
        LOG.append((self.name, 'on_add', entity, show_get(world, A)))
        if self.hooks['on_add']:
            self.hooks['on_add'](entity, world)

    def on_remove(self, entity, world):
        LOG.append((self.name, 'on_remove', entity, show_get(world, A),
                    world.has_component(entity, A)))
        if self.hooks['on_remove']:
            self.hooks['on_remove'](entity, world)


class HookedSub(Hooked):
    pass


def boom(entity, world):
    raise Boom(entity)


def readd(entity, world):
    world.add_component(entity, B('b-readded'))


def remove_sibling(entity, world):
    LOG.append(('sibling removed:',
                cname(world.remove_component(entity, Hooked))))


w = desper.World()
p = w.create_entity(Hooked('h1', on_remove=readd), C('c1'))
q = w.create_entity(HookedSub('h2', on_remove=boom), Hooked('h3'))
r = w.create_entity(Hooked('h4', on_add=remove_sibling),
                    HookedSub('h5', on_remove=boom))
flush('5 creation with hooks')
out('   removed', cname(w.remove_component(p, A)))
flush('5 remove with re-entrant add')
for t in (A, Hooked, HookedSub, A):
    try:
        out('   removed', cname(w.remove_component(q, t)))
    except Boom as ex:
        out('   Boom', ex.args)
    flush('5 remove %s from q -> %s' % (t.__name__, show_get(w, A)))
try:
    w.add_component(r, HookedSub('h6'))       # replaces raising h5
except Boom as ex:
    out('   Boom', ex.args)
flush('5 replace raising component -> %s' % show_get(w, A))
w.dispatch_enabled = False
w.add_component(r, HookedSub('h7', on_add=boom))
w.remove_component(r, Hooked)
flush('5 disabled: nothing yet -> %s' % show_get(w, A))
try:
    w.dispatch_enabled = True
except Boom as ex:
    out('   Boom', ex.args)
flush('5 released')
w.dispatch_enabled = True
flush('5 released rest')
try:
    w.delete_entity(q, immediate=True)
except (Boom, KeyError) as ex:
    out('  ', type(ex).__name__, ex.args)
flush('5 delete q -> %s' % show_get(w, A))
w.clear()
flush('5 clear -> %s' % show_get(w, A))


# processors -------------------------------------------------------------
class P(desper.Processor):
    def process(self, dt):
        LOG.append((type(self).__name__, dt))


class PA(P):
    pass


class PB(P):
    priority = -1


class PAB(PA, PB):
    pass


class PC(PAB):
    priority = 5


@desper.event_handler('on_add', 'on_remove')
class PH(PB):
    def on_add(self):
        LOG.append(('PH on_add', type(self.world.get_processor(P)).__name__))

    def on_remove(self):
        LOG.append(('PH on_remove',
                    type(self.world.get_processor(PB)).__name__,
                    [type(p).__name__ for p in self.world.processors]))
        raise Boom('PH')


PTYPES = [P, PA, PB, PAB, PC, PH, desper.Processor]


def ptable(w):
    out('   processors:', [type(p).__name__ for p in w.processors])
    out('   get_processor:', [(t.__name__, type(w.get_processor(t)).__name__)
                              for t in PTYPES])


w = desper.World()
for proc, prio in ((PC(), None), (PA(), 3), (PH(), None), (PAB(), 0),
                   (PB(), None)):
    w.add_processor(proc, prio)
flush('6 processors added')
ptable(w)
w.process(0.5)
flush('6 processed')
for t in (PAB, PB, PB, PB, P, desper.Processor, PC, P, P):
    try:
        removed = w.remove_processor(t)
        out('   remove_processor(%s) -> %s'
            % (t.__name__, type(removed).__name__))
    except Boom as ex:
        out('   remove_processor(%s) raised Boom%r' % (t.__name__, ex.args))
    flush('6 after removing %s' % t.__name__)
    ptable(w)

# random hierarchies ------------------------------------------------------
out('-- 7 random hierarchies')
rng = random.Random(60606)
for round_ in range(6):
    classes = []
    for i in range(10):
        for attempt in range(20):
            k = rng.choice((0, 1, 1, 2, 2, 3))
            bases = tuple(rng.sample(classes, min(k, len(classes))))
            try:
                classes.append(type('K%d_%d' % (round_, i),
                                    bases or (Named,), {}))
                break
            except TypeError:       # no consistent MRO
                continue
    w = desper.World()
    ents = []
    for j in range(5):
        chosen = rng.sample(classes, rng.randint(1, 4))
        ents.append(w.create_entity(*(c() for c in chosen),
                                    entity_id=rng.choice((None, 'e%d' % j,
                                                          100 - j))))
    for t in classes:
        out('   %s%s: get=%s' % (t.__name__,
                                 tuple(b.__name__ for b in t.__bases__),
                                 show_get(w, t)))
        out('      has=%s one=%s'
            % ([w.has_component(e, t) for e in ents],
               [cname(w.get_component(e, t)) for e in ents]))
    for step in range(12):
        e = rng.choice(ents)
        t = rng.choice(classes)
        before = len(w.get_components(e))
        removed = w.remove_component(e, t)
        after = len(w.get_components(e))
        assert before - after == (removed is not None)
        assert removed is None or isinstance(removed, t)
        out('   remove(%r, %s) -> %s ; get=%s'
            % (e, t.__name__, cname(removed), show_get(w, t)))
    out('   all left:', show_get(w, Named))

# 8. deep chains and lattices -------------------------------------------
out('-- 8 deep chain and lattice')
chain = [type('Chain0', (Named,), {})]
for i in range(1, 1500):
    chain.append(type('Chain%d' % i, (chain[-1],), {}))
w = desper.World()
deep = w.create_entity(chain[-1]('bottom'))
mid = w.create_entity(chain[700]('middle'), chain[1400]('lower'))
out('   ', w.has_component(deep, chain[0]), cname(w.get_component(deep, chain[0])),
    cname(w.get_component(mid, chain[0])), cname(w.get_component(mid, chain[701])),
    w.has_component(mid, chain[1401]), show_get(w, chain[3]))
out('   ', cname(w.remove_component(mid, chain[10])),
    cname(w.remove_component(mid, chain[10])),
    cname(w.remove_component(mid, chain[10])), w.entity_exists(mid))

layer = [type('L0', (Named,), {})]
lattice = list(layer)
for depth in range(1, 7):
    layer = [type('L%d_%d' % (depth, k), tuple(layer), {}) for k in range(2)]
    lattice += layer
w = desper.World()
ents = [w.create_entity(lattice[-1]('last'), lattice[-2]('other'),
                        lattice[3]('high')),
        w.create_entity(lattice[4]('single'))]
for t in lattice:
    out('   %s get=%s has=%s one=%s'
        % (t.__name__, show_get(w, t),
           [w.has_component(e, t) for e in ents],
           [cname(w.get_component(e, t)) for e in ents]))
out('   ', [cname(w.remove_component(ents[0], lattice[0])) for i in range(4)])

# querying by `object` walks every class of the interpreter and fails on
# `type` itself unless a match is found first: same outcome either way
w = desper.World()
e = w.create_entity(None, 5, 'five')
for query in ('has_component', 'get_component', 'remove_component',
              'remove_component', 'remove_component', 'remove_component'):
    try:
        out('   %s(e, object) -> %r' % (query, getattr(w, query)(e, object)))
    except TypeError as ex:
        out('   %s(e, object) raised TypeError' % query)
    out('      left:', sorted(map(repr, w.get_components(e))))
try:
    out('   ', w.get_component('missing', object, 'dflt'))
except TypeError:
    out('    get_component(missing, object) raised TypeError')
out('   ', w.has_component('missing', object))
