"""Exercise type queries of desper.World (public API only)."""
import desper


class A:
    def __init__(self, tag=''):
        self.tag = tag

    def __repr__(self):
        return f'{type(self).__name__}({self.tag})'


class B(A): pass            # NOQA
class C(A): pass            # NOQA
class D(B, C): pass         # NOQA  diamond
class E(D): pass            # NOQA
class F(C): pass            # NOQA
class G(B, F): pass         # NOQA  second diamond
class Mixin:
    def __repr__(self):
        return type(self).__name__ + '()'
class H(Mixin, E, G): pass  # NOQA  deep join
class Lonely:
    def __repr__(self):
        return 'Lonely()'


class Zero(int): pass               # NOQA falsy components
class SubZero(Zero): pass           # NOQA
class Empty(list):                  # NOQA
    __hash__ = None


@desper.event_handler('on_add', 'on_remove')
class Noisy(B):
    def on_add(self, entity, world):
        print('   on_add', self, entity)

    def on_remove(self, entity, world):
        print('   on_remove', self, entity)


TYPES = [A, B, C, D, E, F, G, Mixin, H, Lonely, Zero, SubZero, Empty, Noisy,
         int, list, type(None)]


def name(t):
    return t.__name__


def show(world, entities, title):
    print(f'--- {title}')
    for t in TYPES:
        got = world.get(t)
        # each component reported once
        assert len({(e, id(c)) for e, c in got}) == len(got), got
        print(f'get({name(t)}):', sorted((repr(e), repr(c)) for e, c in got))
    for ent in entities:
        print(f'entity {ent!r}:',
              [(name(t), int(world.has_component(ent, t)),
                repr(world.get_component(ent, t)),
                repr(world.get_component(ent, t, default=0)))
               for t in TYPES])


w = desper.World()
e1 = w.create_entity(A('e1'))
e2 = w.create_entity(B('e2'), C('e2'))
e3 = w.create_entity(D('e3'), F('e3'), Lonely())
e4 = w.create_entity(H('e4'), E('e4'), G('e4'))
e5 = w.create_entity(Zero(0), Empty(), None)
e6 = w.create_entity(SubZero(0), Noisy('e6'), entity_id='six')
e7 = w.create_entity(A('e7'), B('e7'), C('e7'), D('e7'), E('e7'), F('e7'),
                     G('e7'), H('e7'), entity_id=None)
e8 = w.create_entity(Mixin(), entity_id=0)
e9 = w.create_entity(entity_id=('t', 1))            # empty entity
ALL = [e1, e2, e3, e4, e5, e6, e7, e8, e9, 'ghost', -1, None]
show(w, ALL, 'initial')

# classes defined after the world was populated
class Late(H): pass     # NOQA
class Late2(Late, Lonely): pass     # NOQA
TYPES += [Late, Late2]
w.add_component(e1, Late2('late'))
w.add_component(e9, Late('late9'))
show(w, [e1, e9], 'late classes')

# removals: exactly one object each time, exact type preferred
for ent, t in [(e7, A), (e7, A), (e7, Mixin), (e7, C), (e7, B), (e7, B),
               (e7, Lonely), (e3, A), (e3, A), (e3, A),
               (e5, int), (e5, int), (e5, list), (e5, type(None)),
               (e6, A), (e6, A), (e6, int), ('ghost', A),
               (e1, Lonely), (e1, Lonely), (e9, Mixin), (e9, Mixin)]:
    before = len(w.get_components(ent))
    removed = w.remove_component(ent, t)
    print(f'remove_component({ent!r}, {name(t)}) -> {removed!r}',
          before - len(w.get_components(ent)),
          sorted(map(repr, w.get_components(ent))), w.entity_exists(ent))
show(w, ALL, 'after removals')

# disabled dispatching
w.dispatch_enabled = False
n = Noisy('quiet')
w.add_component(e2, n)
print('has while disabled', w.has_component(e2, A), w.has_component(e2, Noisy),
      w.get_component(e2, Noisy), sorted(map(repr, w.get(B))))
print('removed while disabled', w.remove_component(e2, B),
      w.remove_component(e2, B), w.remove_component(e2, B))
w.dispatch_enabled = True


# processors
class P(desper.Processor):
    def process(self, dt=1):
        pass

    def __repr__(self):
        return type(self).__name__ + '()'


class P1(P): pass           # NOQA
class P2(P): pass           # NOQA
class P12(P1, P2): pass     # NOQA
class P21(P2, P1): pass     # NOQA


@desper.event_handler('on_add', 'on_remove')
class PN(P2):
    def on_add(self):
        print('   processor on_add', self)

    def on_remove(self):
        print('   processor on_remove', self)


class PX(P12, PN): pass     # NOQA


PTYPES = [desper.Processor, P, P1, P2, P12, P21, PX, PN]


def pshow(title):
    print(f'--- {title}', w.processors)
    print([(name(t), repr(w.get_processor(t))) for t in PTYPES])


pshow('no processors')
for p in (PX(), P21(), P1(), PN(), P()):
    w.add_processor(p)
pshow('five processors')
w.add_processor(P12(), priority=-1)
w.add_processor(P2(), priority=5)
pshow('seven processors')
for t in (P1, P1, P1, P1, P12, P2, P2, P2, desper.Processor, P, P):
    before = len(w.processors)
    print(f'remove_processor({name(t)}) ->', w.remove_processor(t),
          before - len(w.processors))
    pshow('after removal')
w.dispatch_enabled = False
w.add_processor(PN())
print('disabled:', w.get_processor(P), w.remove_processor(P2),
      w.get_processor(P))
w.dispatch_enabled = True
try:
    w.remove_processor(A)
except AssertionError:
    print('remove_processor(A): AssertionError')
print('get_processor(A):', w.get_processor(A))

# odd query arguments
for bad in (5, 'A', None, [], object, type):
    for fn in (w.has_component, w.get_component, w.remove_component):
        for ent in (e4, 'ghost'):
            try:
                print(fn.__name__, repr(ent), repr(bad), '->', fn(ent, bad))
            except Exception as ex:
                print(fn.__name__, repr(ent), repr(bad), 'raises',
                      type(ex).__name__)
    try:
        print('get', repr(bad), '->', w.get(bad))
    except Exception as ex:
        print('get', repr(bad), 'raises', type(ex).__name__)
show(w, ALL, 'final')
