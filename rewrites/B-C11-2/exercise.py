"""Exercise resource maps (C11) through the public API only."""
import random
from collections import ChainMap

import desper

LOG = []


def out(*parts):
    print(*parts)


class Boom(Exception):
    pass


class H(desper.Handle):
    """Handle with a scripted load(), counting and logging its calls."""

    def __init__(self, name, value=None, action=None):
        self.name = name
        self.value = value
        self.action = action
        self.loads = 0

    def load(self):
        self.loads += 1
        LOG.append('load ' + self.name)
        if self.action is not None:
            return self.action(self)
        return self.value

    def __repr__(self):
        return '<H %s>' % self.name


def label(obj):
    if isinstance(obj, desper.ResourceMap):
        return 'map'
    return repr(obj)


def dump(m, indent='   ', seen=None):
    """Canonical description of everything reachable from a map."""
    seen = seen if seen is not None else set()
    if id(m) in seen:
        out(indent + '(cycle)')
        return
    seen.add(id(m))
    layers = [sorted(layer) for layer in m.handles.maps]
    out('%slayers=%s len(handles)=%d' % (indent, layers, len(m.handles)))
    for name in sorted(m.handles):
        h = m.handles[name]
        out('%shandle %r: %r parent_ok=%r key=%r cached=%r loads=%r'
            % (indent, name, h, h.parent is m, h.key, h.cached,
               getattr(h, 'loads', None)))
    # shadowed handles
    for depth, layer in enumerate(m.handles.maps):
        for name in sorted(layer):
            h = layer[name]
            if m.handles[name] is not h:
                out('%sshadowed[%d] %r: %r parent_ok=%r key=%r'
                    % (indent, depth, name, h, h.parent is m, h.key))
    for name in sorted(m.maps):
        sub = m.maps[name]
        out('%smap %r: parent_ok=%r key=%r' % (indent, name,
                                               sub.parent is m, sub.key))
        dump(sub, indent + '   ', seen)


def probe(m, keys):
    """The three access paths must agree, get default iff [] raises."""
    for key in keys:
        sentinel = object()
        got = m.get(key, sentinel)
        try:
            item = m[key]
            item_desc = label(item)
        except KeyError as ex:
            item_desc = 'KeyError%r' % (ex.args,)
        except Boom as ex:
            item_desc = 'Boom%r' % (ex.args,)
        # step by step
        try:
            step = m
            for part in key.split(m.split_char):
                step = step[part]
            step_desc = label(step)
        except KeyError as ex:
            step_desc = 'KeyError%r' % (ex.args,)
        except Boom as ex:
            step_desc = 'Boom%r' % (ex.args,)
        except TypeError as ex:
            # stepping through a loaded value which is not subscriptable
            step_desc = 'TypeError'
        if got is sentinel:
            got_desc = 'default'
        elif isinstance(got, desper.ResourceMap):
            got_desc = 'map same=%r' % (got is item)
        else:
            got_desc = repr(got)
        out('   %r: get=%s []=%s steps=%s none-default=%r'
            % (key, got_desc, item_desc, step_desc,
               m.get(key) is None))


def flush():
    if LOG:
        out('   log:', LOG)
    LOG.clear()


# 1. plain and composite keys -------------------------------------------
out('-- 1 basics')
m = desper.ResourceMap()
m['a'] = H('a', 0)
m['b/c'] = H('bc', '')
m['b/d/e'] = H('bde', None)
m['b/d/f'] = H('bdf', [])
m[''] = H('empty', 'empty-name')
m['/x'] = H('slash-x', 'under empty map?')
m['t//u'] = H('t__u', 1)
m['t/'] = H('t_', 2)
pre = desper.ResourceMap()
pre['in/side'] = H('inside', 'inside')
pre['top'] = H('top', 'top')
m['pre'] = pre
m['deep/er/and/deep/er/still/leaf'] = H('leaf', 'leaf')
dump(m)
KEYS = ['a', 'b', 'b/c', 'b/d', 'b/d/e', 'b/d/f', 'b/d/g', 'b/c/d', '', '/',
        '/x', 't', 't/', 't//u', 't///u', 'pre', 'pre/in', 'pre/in/side',
        'pre/top', 'pre/top/x', 'nope', 'nope/nope', 'a/b', 'a/',
        'deep/er/and/deep/er/still/leaf', 'deep/er/and/deep/er/still',
        'deep/er/and/deep/er/still/leaf/more']
probe(m, KEYS)
flush()
probe(m, KEYS[:6])       # cached now: no further loads
flush()
out('   get default kinds:', repr(m.get('nope', 0)), repr(m.get('a/b', '')),
    m.get('b/zz', False), label(m.get('b')), m.get('a'))

# 2. shadowing: latest assignment wins -----------------------------------
out('-- 2 shadowing')
m = desper.ResourceMap()
m['n'] = H('n1')
m['n'] = H('n2')                 # handle replaces handle
dump(m)
m['n/inner'] = H('inner')        # implicit map replaces handle
dump(m)
m['n'] = H('n3')                 # handle replaces whole subtree
dump(m)
sub = desper.ResourceMap()
sub['k'] = H('k')
m['n'] = sub                     # map replaces handle
dump(m)
m['n/k/below'] = H('below')      # handle k becomes a map inside sub
dump(m)
out('   sub is m[n]:', sub is m['n'], sorted(sub.maps), sorted(sub.handles))
m['n'] = desper.ResourceMap()    # map replaces map
dump(m)
out('   old sub still says:', sub.parent is m, sub.key)
probe(m, ['n', 'n/k', 'n/k/below'])

# 3. layered handle maps ---------------------------------------------------
out('-- 3 layers')
m = desper.ResourceMap()
m['x'] = H('x-front')
m['y'] = H('y-front')
back = {'x': H('x-back'), 'z': H('z-back'), 'w': H('w-back')}
for name, h in back.items():
    h.parent = m
    h.key = name
m.handles.maps.append(back)
m.handles = m.handles.new_child()
m['z'] = H('z-newest')
dump(m)
probe(m, ['x', 'y', 'z', 'w', 'v'])
flush()
m['x/child'] = H('child')        # purges x from every layer
m['w'] = desper.ResourceMap()    # purges w from every layer
m['y'] = H('y-again')            # written to the first layer only
dump(m)
probe(m, ['x', 'x/child', 'y', 'z', 'w'])
flush()
layered = desper.ResourceMap()
layered.handles = ChainMap({'p': H('p0')}, {'p': H('p1'), 'q': H('q1')})
layered['r/s'] = H('rs')
m['lay/ered'] = layered
dump(m)
probe(m, ['lay/ered/p', 'lay/ered/q', 'lay/ered/r/s', 'lay/ered/r'])
flush()
m.clear()
out('   after clear:')
dump(m)
out('   former children:', label(layered.parent), layered.parent.parent,
    layered.parent.key, layered.key, back['z'].parent, back['z'].key)
dump(layered)

# 4. clear ------------------------------------------------------------------
out('-- 4 clear')
root = desper.ResourceMap()
shared = H('shared', 'shared')
root['one/h'] = shared
root['two/h'] = shared           # same handle under two maps: last wins
root['one/sub/leaf'] = H('leaf', 'leaf')
one = root['one']
two = root['two']
leafmap = root['one/sub']
dump(root)
one.clear()
out('   one cleared: shared parent is two:', shared.parent is two, shared.key)
dump(root)
out('   detached sub:', leafmap.parent, leafmap.key, sorted(leafmap.handles),
    leafmap['leaf'])
flush()
root.clear()
out('   root cleared:', one.parent, one.key, two.parent, two.key,
    shared.parent is two, shared.key)
dump(root)
probe(root, ['one', 'two/h', ''])
root.clear()                     # clearing twice
root['again'] = H('again', 'again')
dump(root)


# 5. user code in load(): re-entrant and raising -----------------------------
out('-- 5 load callbacks')
m = desper.ResourceMap()


def reenter(handle):
    other = handle.parent['sibling']
    handle.parent['made/by/' + handle.name] = H('made', 'made')
    return 'saw ' + repr(other)


def missing(handle):
    raise KeyError('from load')


def boom(handle):
    raise Boom(handle.name)


m['dir/sibling'] = H('sibling', 'sib')
m['dir/reenter'] = H('reenter', action=reenter)
m['dir/missing'] = H('missing', action=missing)
m['dir/boom'] = H('boom', action=boom)
probe(m, ['dir/reenter', 'dir/missing', 'dir/boom', 'dir/made/by/reenter',
          'dir/missing', 'dir/boom'])
flush()
dump(m)


# 6. custom separators ---------------------------------------------------------
out('-- 6 separators')


class DotMap(desper.ResourceMap):
    split_char = '.'


dm = DotMap()
dm['a.b/c.d'] = H('abcd', 'abcd')
dm['a/b'] = H('a_b', 'a/b is one name here')
dump(dm)
probe(dm, ['a.b/c.d', 'a/b', 'a.b/c', 'a', 'a.b', '.', 'a..b'])
flush()
out('   implicit maps are plain ResourceMaps:',
    type(dm.get('a')).__name__, type(dm.get('a.b/c')).__name__)
plain = desper.ResourceMap()
plain['p/q'] = dm
probe(plain, ['p/q', 'p/q/a', 'p/q/a.b', 'p/q/a/b'])
old = desper.ResourceMap.split_char
desper.ResourceMap.split_char = '::'
try:
    wide = desper.ResourceMap()
    wide['k::l::m'] = H('klm', 'klm')
    wide['k/l'] = H('k_l', 'k/l')
    dump(wide)
    probe(wide, ['k::l::m', 'k::l', 'k/l', 'k:l', '::', 'k::'])
    flush()
finally:
    desper.ResourceMap.split_char = old
probe(wide, ['k/l/m', 'k::l::m', 'k/l'])
flush()

# 7. static maps mirror the tree -----------------------------------------------
out('-- 7 static map')
m = desper.ResourceMap()
m['a/b'] = H('ab', 'ab')
m['a/not an identifier'] = H('nai', 'nai')
m['c'] = H('c', 0)
static = m.get_static_map()
out('   ', static.a.b, static['a']['not an identifier'], static.c,
    static.get('c'), type(static.get('a')).__bases__[0].__name__)
flush()

# 8. random sequences ------------------------------------------------------------
out('-- 8 random sequences')
rng = random.Random(1111)
PARTS = ['a', 'b', 'c', '']


def random_key():
    return '/'.join(rng.choice(PARTS) for _ in range(rng.choice((1, 1, 2, 2,
                                                                 3, 4))))


for round_ in range(6):
    root = desper.ResourceMap()
    known = [root]
    counter = 0
    for step in range(25):
        op = rng.choice(('set', 'set', 'set', 'setmap', 'clear', 'layer',
                         'get'))
        target = rng.choice(known)
        key = random_key()
        if op == 'set':
            counter += 1
            target[key] = H('h%d' % counter, counter)
            out('   [%d] set %r on map#%d' % (step, key, known.index(target)))
        elif op == 'setmap':
            new = desper.ResourceMap()
            if rng.random() < 0.5:
                counter += 1
                new[random_key()] = H('h%d' % counter, counter)
            if rng.random() < 0.3 and len(known) > 1:
                new = rng.choice(known[1:])     # move/alias an existing map
            if new is target or new is root:
                continue
            target[key] = new
            if new not in known:
                known.append(new)
            out('   [%d] setmap %r on map#%d (map#%d)'
                % (step, key, known.index(target), known.index(new)))
        elif op == 'clear':
            target.clear()
            out('   [%d] clear map#%d' % (step, known.index(target)))
        elif op == 'layer':
            counter += 1
            target.handles = target.handles.new_child()
            out('   [%d] new layer on map#%d' % (step, known.index(target)))
        else:
            out('   [%d] probe map#%d' % (step, known.index(target)))
            probe(target, [key, random_key()])
            flush()
    out('   round %d final tree:' % round_)
    dump(root)
    probe(root, sorted({random_key() for _ in range(12)}))
    flush()
    for i, km in enumerate(known):
        out('   map#%d parent=%s key=%r' % (
            i, 'None' if km.parent is None else 'map#%d' % known.index(
                km.parent) if km.parent in known else 'implicit', km.key))

# 9. aliases, moved children and subclassed values ------------------------------
out('-- 9 aliases and moves')
root = desper.ResourceMap()
twin = desper.ResourceMap()
twin['leaf'] = H('twin-leaf', 'tl')
root['first'] = twin
root['second'] = twin            # same map under two names: last name wins
h = H('roamer', 'r')
root['h1'] = h
root['x/h2'] = h                 # same handle in two maps
dump(root)
root.clear()
out('   after clear: twin', twin.parent, twin.key, 'roamer parent key:',
    h.parent.key, h.key, 'x detached:', h.parent.parent, h.parent.key)
dump(root)
dump(twin)


class EqMap(desper.ResourceMap):
    """Submap comparing equal to everything."""
    compared = 0

    def __eq__(self, other):
        EqMap.compared += 1
        return True

    __hash__ = desper.ResourceMap.__hash__


holder = desper.ResourceMap()
other_holder = desper.ResourceMap()
eq = EqMap()
eq['inside'] = H('eq-inside', 'ei')
holder['eq'] = eq
other_holder['moved/eq'] = eq        # now eq.parent is another map
kept = H('kept', 'k')
holder['kept'] = kept
kept.parent = eq                     # foreign parent which equals anything
holder.clear()
out('   eq parent key:', eq.parent.key, eq.key, '| kept:', kept.parent,
    kept.key, '| comparisons:', EqMap.compared)
eq.clear()
out('   eq cleared:', sorted(eq.handles), sorted(eq.maps), EqMap.compared)
for key, value in (('', H('e1')), ('/', H('e2')), ('//', eq), ('/', eq),
                   ('', eq), ('', H('e3'))):
    holder[key] = value
    out('   set %r -> %s' % (key, label(value)))
    dump(holder)
try:
    holder['bad'] = 'not a resource'
except AssertionError:
    out('   AssertionError for a bad value')
try:
    holder[0] = H('bad key')
except AssertionError:
    out('   AssertionError for a bad key')
dump(holder)
