"""Exercise world switching through SimpleLoop (public API only).

A script of actions is consumed one per frame by the Director processor of
whichever world is running. Every world has exactly one listener per event,
so that the order of the printed lines is fully specified.
"""
import desper

HANDLES = {}
SCRIPT = []
ON_ENTER = {}       # handle name -> list of actions done inside on_switch_in
ON_LOAD = {}        # handle name -> list of actions done inside on_world_load
CLOCK = [0.0]


def fake_time():
    CLOCK[0] += 0.25
    return CLOCK[0]


def wname(world):
    return getattr(world, 'name', repr(world)) if world is not None else None


def perform(action, world, who):
    kind, *rest = action
    print(f'    {who} in {wname(world)} does {action}')
    if kind == 'switch':
        target, cc, cn = rest
        desper.switch(HANDLES[target], cc, cn, from_world=world)
    elif kind == 'switch_default':
        target, cc, cn = rest
        desper.switch(HANDLES[target], clear_current=cc, clear_next=cn)
    elif kind == 'raise':
        target, cc, cn = rest
        raise desper.SwitchWorld(HANDLES[target], cc, cn)
    elif kind == 'coro':
        world.get_processor(desper.CoroutineProcessor).start(
            delayed(world, rest[0]))
    elif kind == 'event':
        world.dispatch('trigger', ('switch',) + tuple(rest))
    elif kind == 'poke':
        target = HANDLES[rest[0]]
        print('      target cached:', target.cached)
        target().dispatch('poke', f'poke from {wname(world)}')
    elif kind == 'quit':
        desper.quit_loop(world)
    elif kind == 'nop':
        pass
    else:
        raise ValueError(action)


def delayed(world, target):
    print(f'    coroutine started in {wname(world)}')
    yield
    perform(('switch', target, False, False), world, 'coroutine')
    print('    NOT REACHED')


@desper.event_handler('on_switch_in', 'on_switch_out', 'on_world_load',
                      'on_quit', 'trigger', 'poke')
class Witness:
    def __init__(self, world):
        self.world = world

    def on_world_load(self, handle, world):
        print(f'  [{wname(self.world)}] on_world_load({handle.name}, '
              f'{wname(world)})')
        actions = ON_LOAD.get(handle.name)
        if actions:
            perform(actions.pop(0), self.world, 'on_world_load')

    def on_switch_in(self, from_, to):
        print(f'  [{wname(self.world)}] on_switch_in({wname(from_)}, '
              f'{wname(to)}) to is self.world: {to is self.world}')
        actions = ON_ENTER.get(self.world.name.split('#')[0])
        if actions:
            perform(actions.pop(0), self.world, 'on_switch_in')

    def on_switch_out(self, from_, to):
        print(f'  [{wname(self.world)}] on_switch_out({wname(from_)}, '
              f'{wname(to)}) from is self.world: {from_ is self.world}')

    def on_quit(self):
        print(f'  [{wname(self.world)}] on_quit')

    def trigger(self, action):
        print(f'  [{wname(self.world)}] trigger')
        perform(action, self.world, 'event callback')

    def poke(self, text):
        print(f'  [{wname(self.world)}] poke: {text}')


class Director(desper.Processor):
    def process(self, dt):
        loop = LOOP[0]
        print(f'frame: world={wname(self.world)} dt={dt!r} '
              f'current={wname(loop.current_world)} '
              f'handle={loop.current_world_handle.name} '
              f'enabled={self.world.dispatch_enabled}')
        action = SCRIPT.pop(0) if SCRIPT else ('quit',)
        perform(action, self.world, 'processor')


class Tail(desper.Processor):
    """Runs after the Director, only if the frame is not abandoned."""
    priority = 10

    def process(self, dt):
        print(f'  tail of frame in {wname(self.world)}')


class NamedHandle(desper.WorldHandle):
    def __init__(self, name):
        super().__init__()
        self.name = name
        self.loads = 0
        self.transform_functions.append(NamedHandle.populate)

    def populate(self, world):
        self.loads += 1
        world.name = f'{self.name}#{self.loads}'
        print(f'  loading {world.name}')
        world.add_processor(Director())
        world.add_processor(Tail())
        world.add_processor(desper.CoroutineProcessor(), priority=5)
        world.create_entity(Witness(world))


LOOP = [None]


def run(title, loop, start, script, on_enter=None, on_load=None):
    print(f'===== {title}')
    HANDLES.clear()
    for name in 'ABCD':
        HANDLES[name] = NamedHandle(name)
    SCRIPT[:] = script
    ON_ENTER.clear()
    ON_ENTER.update(on_enter or {})
    ON_LOAD.clear()
    ON_LOAD.update(on_load or {})
    CLOCK[0] = 0.0
    LOOP[0] = loop
    loop.switch(HANDLES[start])
    print('started in', wname(loop.current_world), 'running', loop.running)
    try:
        loop.start()
    except Exception as ex:
        print('loop died:', type(ex).__name__, ex,
              '| context:', type(ex.__context__).__name__)
    print('end: current', wname(loop.current_world),
          loop.current_world_handle.name, 'running', loop.running,
          'last_timestamp', loop.last_timestamp, 'script left', SCRIPT)
    for name, handle in HANDLES.items():
        print(f'  handle {name}: loads={handle.loads} cached={handle.cached}',
              wname(handle()) if handle.cached else '-',
              handle().dispatch_enabled if handle.cached else '-')


own = desper.SimpleLoop(fake_time)

run('plain switches back and forth', own, 'A',
    [('nop',), ('switch', 'B', False, False), ('nop',),
     ('switch', 'A', False, False), ('switch', 'B', False, False)])

run('raising SwitchWorld directly (no events)', own, 'A',
    [('raise', 'B', False, False), ('raise', 'A', False, False),
     ('raise', 'B', True, True), ('raise', 'B', False, False)])

run('switch to the current handle', own, 'A',
    [('switch', 'A', False, False), ('nop',), ('switch', 'A', True, False),
     ('switch', 'A', False, True), ('switch', 'A', True, True),
     ('raise', 'A', False, False), ('raise', 'A', True, False)])

run('clear_current and clear_next', own, 'A',
    [('switch', 'B', True, False), ('switch', 'A', False, False),
     ('switch', 'B', False, True), ('switch', 'A', True, True),
     ('switch', 'C', False, True), ('switch', 'A', True, False)])

run('left worlds hold their events', own, 'A',
    [('switch', 'B', False, False), ('poke', 'A'), ('poke', 'C'), ('poke', 'B'),
     ('switch', 'C', False, False), ('poke', 'A'), ('switch', 'A', False, False),
     ('poke', 'A')])

run('switch from event callbacks and coroutines', own, 'A',
    [('event', 'B', False, False), ('coro', 'C'), ('nop',), ('nop',),
     ('event', 'A', True, True), ('coro', 'A'), ('switch', 'D', False, False),
     ('switch', 'C', False, False), ('nop',)])

run('nested: switch again while entering', own, 'A',
    [('switch', 'B', False, False), ('nop',), ('switch', 'B', False, False),
     ('switch', 'D', False, True)],
    on_enter={'B': [('switch', 'C', False, False), ('raise', 'C', True, False)],
              'C': [('switch', 'D', True, False), ('switch', 'A', False, True)],
              'D': [('nop',), ('switch', 'D', False, False),
                    ('switch', 'D', True, False)]})

run('switch requested at load time', own, 'A',
    [('switch', 'B', False, False), ('nop',), ('switch', 'C', False, False)],
    on_load={'B': [('switch', 'C', False, False)],
             'C': [('nop',), ('raise', 'D', False, False)]})

run('failure while entering', own, 'A',
    [('switch', 'B', False, False)],
    on_enter={'B': [('bogus',)]})

desper.default_loop.time_function = fake_time
run('default loop, implicit from_world', desper.default_loop, 'B',
    [('switch_default', 'A', False, False), ('switch_default', 'A', True, False),
     ('switch_default', 'C', False, True), ('event', 'B', False, False)],
    on_enter={'A': [('switch_default', 'D', False, False)]})


# ---- handles on their own: caching of falsy resources, clear, failures
class Counting(desper.Handle):
    def __init__(self, values):
        self.values = list(values)
        self.loads = 0

    def load(self):
        self.loads += 1
        value = self.values.pop(0)
        if isinstance(value, Exception):
            raise value
        if callable(value):
            return value(self)
        return value


print('===== handles')
for values in ([None, 1], [0, 1], [[], 1], ['', 'x'], [False, True],
               [ValueError('boom'), 'recovered', 'again'],
               [lambda h: h.clear() or 'cleared while loading', 'second'],
               [lambda h: h.cached, 'second']):
    h = Counting(values)
    line = [h.cached]
    for step in range(2):
        for _ in range(3):
            try:
                line.append(repr(h()))
            except ValueError as ex:
                line.append(f'raised {ex}')
            line.append(h.cached)
        line.append(f'loads={h.loads}')
        h.clear()
        h.clear()
        line.append(h.cached)
    print(line)

base = desper.Handle()
print('base handle:', base.cached, base(), base.cached, base(), base.clear(),
      base.cached)
first = desper.WorldHandle()
w1 = first()
print('world handle:', first.cached, first() is w1, w1.dispatch_enabled,
      first.clear(), first.cached, first() is w1, first().dispatch_enabled)

# switch() outside of any loop: events and the carried request
print('===== bare switch()')
HANDLES.clear()
for name in 'AB':
    HANDLES[name] = NamedHandle(name)
for from_world, cc, cn in ((None, False, False), ('A', True, False),
                           ('B', False, True), ('A', True, True)):
    src = HANDLES[from_world]() if from_world else None
    if src is not None:
        src.dispatch_enabled = True
    try:
        desper.switch(HANDLES['B'], clear_current=cc, clear_next=cn,
                      from_world=src)
    except desper.SwitchWorld as ex:
        print('request:', ex.world_handle.name, ex.clear_current,
              ex.clear_next, ex.args and ex.args[0].name,
              type(ex.__context__).__name__,
              'enabled:', [HANDLES[n]().dispatch_enabled for n in 'AB'])
    HANDLES['B']().dispatch_enabled = True
