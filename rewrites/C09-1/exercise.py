"""Exercise CoroutineProcessor lifecycle through the public API.

Everything printed is deterministic (queues are FIFO, waits are ordered by
deadline); nothing depends on set iteration order.
"""
import desper
from desper import CoroutineProcessor, CoroutineState

LOG = []


def st(proc, gen):
    return proc.state(gen).name


def show(title, proc, gens, promises=()):
    print(title,
          'states', [st(proc, g) for g in gens],
          'values', [repr(p.value) for p in promises],
          'pstates', [p.state.name for p in promises],
          'log', LOG)
    LOG.clear()


def attempt(label, fn, *args):
    try:
        res = fn(*args)
        print('  ', label, 'ok', type(res).__name__)
        return res
    except (TypeError, ValueError) as ex:
        print('  ', label, type(ex).__name__, ex)


def worker(name, script, result=None):
    """script: sequence of values to yield."""
    for i, wait in enumerate(script):
        LOG.append((name, i))
        yield wait
    LOG.append((name, 'end'))
    return result


# --- 1. plain lifecycle, falsy/odd waits ---------------------------
print('== 1 lifecycle')
proc = CoroutineProcessor()
gens = [worker('a', [None, None], 'ra'),
        worker('b', [0, 0.0, -1, False], 0),
        worker('c', [], None),
        worker('d', [1, 2], ''),
        worker('e', [0.5, None, 0.25], [])]
show('fresh', proc, gens)
promises = [proc.start(g) for g in gens]
show('started', proc, gens, promises)
for frame, dt in enumerate([1, 0.25, 0.25, 0.5, 1, 1, 1, 1]):
    proc.process(dt)
    show(f'frame {frame} dt={dt}', proc, gens, promises)
print('  promise identity', [p.generator is g for p, g in zip(promises, gens)],
      [p.processor is proc for p in promises])

# --- 2. errors ------------------------------------------------------
print('== 2 errors')
proc = CoroutineProcessor()
g = worker('g', [None, None, None])
for bad in (None, 0, 'gen', worker, [], lambda: (yield)):
    attempt(f'start {type(bad).__name__}', proc.start, bad)
    attempt(f'kill {type(bad).__name__}', proc.kill, bad)
    attempt(f'state {type(bad).__name__}', proc.state, bad)
attempt('kill unknown', proc.kill, g)
p = attempt('start', proc.start, g)
attempt('start twice', proc.start, g)
show('after failed start', proc, [g], [p])
proc.process(1)
show('frame', proc, [g], [p])
attempt('kill', proc.kill, g)
attempt('kill twice', proc.kill, g)
attempt('promise kill twice', p.kill)
show('after kill', proc, [g], [p])
proc.process(1)
proc.process(1)
show('frames after kill', proc, [g], [p])
attempt('kill released', proc.kill, g)
# restart: carries on from where it stopped
p2 = attempt('restart', proc.start, g)
print('   same promise', p2 is p)
proc.process(1)
proc.process(1)
proc.process(1)
show('restarted', proc, [g], [p, p2])
attempt('kill finished', proc.kill, g)
p3 = attempt('start exhausted', proc.start, g)
proc.process(1)
show('exhausted restarted', proc, [g], [p, p2, p3])

# --- 3. kill / restart of waiting coroutines -----------------------
print('== 3 waiting')
proc = CoroutineProcessor()
w1 = worker('w1', [2, None, 2], 'w1')
w2 = worker('w2', [2, None], 'w2')
w3 = worker('w3', [3, 1], 'w3')
w4 = worker('w4', [5], 'w4')
ws = [w1, w2, w3, w4]
ps = [proc.start(w) for w in ws]
proc.process(1)
show('paused', proc, ws, ps)
proc.kill(w1)               # killed while waiting, released when due
proc.kill(w2)
ps.append(proc.start(w2))   # restarted before the kill was applied
attempt('start w2 again', proc.start, w2)
show('killed w1, restarted w2', proc, ws, ps)
proc.process(1)
show('t=1', proc, ws, ps)
proc.process(1)
show('t=2', proc, ws, ps)
ps[3].kill()
ps.append(proc.start(w4))
ps[-1].kill()
show('w4 kill-start-kill', proc, ws, ps)
proc.process(1)
show('t=3', proc, ws, ps)
ps.append(proc.start(w1))
for t in range(4, 10):
    proc.process(1)
    show(f't={t}', proc, ws, ps)

# --- 4. kill / restart of active coroutines in the same frame ------
print('== 4 active kill/restart')
proc = CoroutineProcessor()
x = worker('x', [None] * 6, 'x')
y = worker('y', [None] * 6, 'y')
z = worker('z', [None] * 6, 'z')
xs = [x, y, z]
ps = [proc.start(v) for v in xs]
proc.process(1)
proc.kill(y)
ps.append(proc.start(y))        # keeps its place in the queue
proc.kill(x)
show('killed x, y restarted', proc, xs, ps)
proc.process(1)
show('frame', proc, xs, ps)
ps.append(proc.start(x))        # x goes to the back
proc.process(1)
show('x restarted', proc, xs, ps)
for v in xs:
    proc.kill(v)
show('all killed', proc, xs, ps)
proc.process(1)
show('frame', proc, xs, ps)
proc.process(1)
show('idle frame', proc, xs, ps)

# --- 5. re-entrant: start / kill / state from inside bodies --------
print('== 5 re-entrant')
proc = CoroutineProcessor()
box = {}


def victim():
    for i in range(10):
        LOG.append(('victim', i))
        yield


def child():
    LOG.append(('child', 'run'))
    yield
    LOG.append(('child', 'end'))
    return 'child done'


def boss():
    LOG.append(('boss', 'self state', st(proc, box['boss'])))
    box['child_promise'] = proc.start(box['child'])
    LOG.append(('boss', 'child state', st(proc, box['child'])))
    yield
    proc.kill(box['victim'])
    LOG.append(('boss', 'victim state', st(proc, box['victim'])))
    try:
        proc.kill(box['victim'])
    except ValueError as ex:
        LOG.append(('boss', 'ValueError', str(ex)))
    try:
        proc.start(box['boss'])
    except ValueError as ex:
        LOG.append(('boss', 'ValueError', str(ex)))
    yield 1
    LOG.append(('boss', 'woke'))
    proc.start(box['victim'])
    yield
    # kill itself, keep running until next yield
    proc.kill(box['boss'])
    LOG.append(('boss', 'killed self', st(proc, box['boss'])))
    yield
    LOG.append(('boss', 'NEVER'))


def suicidal():
    LOG.append(('suicidal', 'run'))
    yield
    proc.kill(box['suicidal'])
    LOG.append(('suicidal', 'returning'))
    return 'last words'


def phoenix():
    LOG.append(('phoenix', 1))
    yield
    proc.kill(box['phoenix'])
    proc.start(box['phoenix'])      # kill cancelled at once
    LOG.append(('phoenix', 2, st(proc, box['phoenix'])))
    yield 1
    proc.kill(box['phoenix'])
    box['phoenix_promise2'] = proc.start(box['phoenix'])
    LOG.append(('phoenix', 3))
    yield 2
    LOG.append(('phoenix', 4))
    return 'ashes'


for name, fn in [('victim', victim), ('child', child), ('boss', boss),
                 ('suicidal', suicidal), ('phoenix', phoenix)]:
    box[name] = fn()
names = ['victim', 'boss', 'suicidal', 'phoenix', 'child']
gens = [box[n] for n in names]
ps = [proc.start(box[n]) for n in names[:-1]]
for frame in range(9):
    proc.process(0.5)
    show(f'frame {frame}', proc, gens, ps)
print('  child promise', box['child_promise'].value,
      'phoenix2', box['phoenix_promise2'].value)
# after a self kill the generator can be started again by others
attempt('restart boss', proc.start, box['boss'])
proc.process(0.5)
show('boss restarted', proc, gens, ps)
attempt('restart suicidal', proc.start, box['suicidal'])
proc.process(0.5)
show('suicidal restarted', proc, gens, ps)

# --- 6. through a World, with the decorator -------------------------
print('== 6 world')
world = desper.World()
world.add_processor(CoroutineProcessor())


@desper.coroutine
def decorated(n, world=None):
    total = 0
    for i in range(n):
        total += i
        yield i * 0.5
    return total


promises = [decorated(n, world=world) for n in (0, 1, 2, 3)]
for frame in range(6):
    world.process(0.5)
    print('  frame', frame, [p.state.name for p in promises],
          [p.value for p in promises])

# --- 7. exception in a body propagates, processor stays usable ------
print('== 7 raising body')
proc = CoroutineProcessor()


def raiser():
    yield
    raise RuntimeError('body failed')


r = raiser()
ok = worker('ok', [None, None, None], 'fine')
pr, pok = proc.start(r), proc.start(ok)
proc.process(1)
try:
    proc.process(1)
except RuntimeError as ex:
    print('   raised', ex)
show('after raise', proc, [r, ok], [pr, pok])
attempt('kill raiser', proc.kill, r)
for _ in range(4):
    try:
        proc.process(1)
    except Exception as ex:
        print('   raised', type(ex).__name__, ex)
show('later', proc, [r, ok], [pr, pok])
