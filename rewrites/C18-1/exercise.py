"""Exercise desper.math (public API only); floats are printed with hex()
so that any difference in the last bit shows up."""
import math
import random
import warnings
from fractions import Fraction

from desper.math import Vec2, Vec3, Vec4, Mat3, Mat4, clamp


def fmt(x):
    if isinstance(x, float):
        return x.hex()
    if isinstance(x, (tuple, list)):
        return type(x).__name__ + '(' + ', '.join(fmt(v) for v in x) + ')'
    return repr(x)


def attempt(label, f):
    try:
        print(label, '=', fmt(f()))
    except Exception as ex:
        print(label, 'raises', type(ex).__name__, ex)


rnd = random.Random(18)


def floats(n, scale=1.0):
    return [rnd.uniform(-scale, scale) for _ in range(n)]


def mats(n, size):
    out = [
        list(range(1, size + 1)),
        [Fraction(rnd.randint(-9, 9), rnd.randint(1, 7)) for _ in range(size)],
        floats(size), floats(size, 1e6), floats(size, 1e-6),
        [0.1 * i for i in range(size)],
        [10 ** 20 + i for i in range(size)],
        [(-1) ** i * 0.0 for i in range(size)],
        [float('inf'), float('nan'), -0.0, 1e308] * (size // 4)
        + [1.5] * (size % 4),
        [True, False] * (size // 2) + [True] * (size % 2),
    ]
    return out[:n]


print('===== Mat4 @')
M4 = [Mat4()] + [Mat4(v) for v in mats(10, 16)] + [Mat4(tuple(floats(16)))]
for i, a in enumerate(M4):
    for j, b in enumerate(M4):
        attempt(f'M4[{i}]@M4[{j}]', lambda: a @ b)
for i, a in enumerate(M4):
    attempt(f'M4[{i}]@list', lambda: a @ list(M4[3]))
    attempt(f'M4[{i}]@tuple', lambda: a @ tuple(M4[2]))
    attempt(f'M4[{i}]@Vec4', lambda: a @ Vec4(1, 2.5, -3, Fraction(1, 3)))
    attempt(f'M4[{i}]@4tuple', lambda: a @ (1, 2.5, -3, 0.1))
    attempt(f'M4[{i}]@4list', lambda: a @ [2, 3, 4, 5])
    attempt(f'M4[{i}]@Vec3', lambda: a @ Vec3(1, 2, 3))
    attempt(f'M4[{i}]@None', lambda: a @ None)
    attempt(f'M4[{i}]@str', lambda: a @ 'abcdefghijklmnop')
    attempt(f'M4[{i}]@range', lambda: a @ range(16))
    attempt(f'M4[{i}]@Mat3', lambda: a @ Mat3())
    attempt(f'type', lambda: type(a @ a).__name__)
a, b, c = M4[1], M4[2], M4[3]
print('assoc exact:', (a @ b) @ M4[1] == a @ (b @ M4[1]),
      'identity:', Mat4() @ b == b == b @ Mat4(),
      'vec:', (a @ b) @ Vec4(1, 2, 3, 4) == b @ (a @ Vec4(1, 2, 3, 4)))

print('===== Mat3 @')
M3 = [Mat3()] + [Mat3(v) for v in mats(10, 9)]
for i, a in enumerate(M3):
    for j, b in enumerate(M3):
        attempt(f'M3[{i}]@M3[{j}]', lambda: a @ b)
    attempt(f'M3[{i}]@Vec3', lambda: a @ Vec3(1, -2.5, Fraction(2, 3)))
    attempt(f'M3[{i}]@3tuple', lambda: a @ (1, -2.5, 3))
    attempt(f'M3[{i}]@list', lambda: a @ list(M3[3]))
    attempt(f'M3[{i}]@Vec2', lambda: a @ Vec2(1, 2))
    attempt(f'M3[{i}].scale', lambda: a.scale(2, -0.3))
    attempt(f'M3[{i}].translate', lambda: a.translate(2, -0.3))
    attempt(f'M3[{i}].rotate', lambda: a.rotate(33.3))
    attempt(f'M3[{i}].shear', lambda: a.shear(2, -0.3))

print('===== Mat4 transforms and inverse')
for i, a in enumerate(M4):
    attempt(f'M4[{i}].translate', lambda: a.translate(Vec3(1, -2.5, 0.1)))
    attempt(f'M4[{i}].rotate', lambda: a.rotate(0.7, Vec3(0.6, 0, -0.8)))
    attempt(f'M4[{i}].scale', lambda: a.scale(Vec3(2, -0.3, 7)))
    attempt(f'M4[{i}].transpose', lambda: a.transpose())
    with warnings.catch_warnings(record=True) as caught:
        warnings.simplefilter('always')
        attempt(f'~M4[{i}]', lambda: ~a)
        attempt(f'~~M4[{i}]', lambda: ~~a)
        attempt(f'~M4[{i}] is self', lambda: (~a) is a)
        print('   warnings:', sorted(str(w.message) for w in caught))
exact = Mat4([Fraction(rnd.randint(-5, 5)) for _ in range(16)])
print('exact inverse:', (~exact) @ exact == Mat4(), exact @ (~exact) == Mat4())
for vals in ([2, 0, 0, 0, 0, 4, 0, 0, 0, 0, 8, 0, 1, 2, 3, 1],
             [0, 1, 0, 0, 1, 0, 0, 0, 0, 0, 1, 0, 0, 0, 0, 1],
             [1, 2, 3, 4, 5, 6, 7, 8, 9, 10, 11, 12, 13, 14, 15, 16],
             [0] * 16, [None] * 16, ['a'] * 16):
    with warnings.catch_warnings(record=True) as caught:
        warnings.simplefilter('always')
        attempt(f'~Mat4({vals})', lambda: ~Mat4(vals))
        print('   warnings:', len(caught))
attempt('from_translation', lambda: Mat4.from_translation(Vec3(1, 2.5, -3)))
attempt('from_scale', lambda: Mat4.from_scale((1, 2.5, -3)))
attempt('from_rotation', lambda: Mat4.from_rotation(1.1, Vec3(0, 1, 0)))
attempt('orthogonal', lambda: Mat4.orthogonal_projection(0, 800, 0, 600.5,
                                                         -1, 1))
attempt('perspective', lambda: Mat4.perspective_projection(0, 800, 0, 600,
                                                           0.1, 100, 75))
attempt('look_at', lambda: Mat4.look_at(Vec3(1, 2, 3), Vec3(0, 0.5, 0),
                                        Vec3(0, 1, 0)))

print('===== vectors')
V2 = [Vec2(), Vec2(3, 4), Vec2(-0.1, 0.7), Vec2(1e-200, 1e-200),
      Vec2(1e200, -1e200), Vec2(Fraction(1, 3), Fraction(-2, 7)),
      Vec2(0.0, -0.0), Vec2(-0.0, 0.0), Vec2(float('nan'), 1),
      Vec2(float('inf'), -1), Vec2(10 ** 30, 1), Vec2(True, False)] \
    + [Vec2(*floats(2, 10)) for _ in range(4)]
ANGLES = [0, 0.0, -0.0, 1, math.pi, -math.pi / 2, 1e-9, 100.5, 7e22,
          Fraction(1, 3), float('inf'), float('nan'), True]
for i, v in enumerate(V2):
    attempt(f'V2[{i}]', lambda: v)
    attempt(f'V2[{i}].mag/heading', lambda: (v.mag, v.heading, abs(v)))
    for ang in ANGLES:
        attempt(f'V2[{i}].rotate({ang!r})', lambda: v.rotate(ang))
        attempt(f'V2[{i}].from_heading({ang!r})', lambda: v.from_heading(ang))
    for m in (0, 1, 2.5, -1, 1e-300, Fraction(1, 2), float('inf')):
        attempt(f'V2[{i}].from_magnitude({m!r})', lambda: v.from_magnitude(m))
        attempt(f'V2[{i}].limit({m!r})', lambda: v.limit(m))
        attempt(f'from_polar({m!r})', lambda: Vec2.from_polar(m, v[1]))
    attempt(f'V2[{i}].normalize', lambda: v.normalize())
    attempt(f'V2[{i}] ops', lambda: (v + V2[1], v - V2[2], v * V2[3],
                                     -v, v.scale(3), v.dot(V2[2]),
                                     v.lerp(V2[1], 0.3), v.distance(V2[2]),
                                     v.clamp(-1, 1), round(v), round(v, 1),
                                     sum([v, v]), v.yx, v.xyxy, v.xxx))
    attempt(f'V2[{i}] / ', lambda: v / V2[1])
    attempt(f'V2[{i}] bad', lambda: v.xz)
attempt('subclass safe', lambda: type(Vec2(1, 2).rotate(1)).__name__)
attempt('string heading', lambda: Vec2(1, 2).from_heading('x'))
attempt('string rotate', lambda: Vec2(1, 2).rotate('x'))
attempt('none rotate', lambda: Vec2(1, 2).rotate(None))
attempt('string vec', lambda: Vec2('a', 'b').rotate(1))
attempt('string vec', lambda: Vec2('a', 'b').from_heading(1))

for v in (Vec3(1, 2, 3), Vec3(0.1, -0.2, 0.3), Vec3()):
    attempt('Vec3', lambda: (v.mag, v.normalize(), v.cross(Vec3(3, -2, 0.5)),
                             v.dot(Vec3(3, -2, 0.5)), v.limit(1),
                             v.from_magnitude(2), v.zyx, v.xy, v.xyzx,
                             v.lerp(Vec3(1, 1, 1), 0.25), v.clamp(0, 0.25),
                             v.distance(Vec3(1, 1, 1))))
for v in (Vec4(1, 2, 3, 4), Vec4(0.1, -0.2, 0.3, 1e-3), Vec4()):
    attempt('Vec4', lambda: (abs(v), v.normalize(), v.dot(Vec4(3, -2, 0.5, 1)),
                             v.wzyx, v.xy, v.xyw,
                             v.lerp(Vec4(1, 1, 1, 1), 0.25), v.clamp(0, 0.25),
                             v.distance(Vec4(1, 1, 1, 1))))
attempt('clamp', lambda: [clamp(x, -1, 1) for x in
                          (-5, 0, 5, 0.5, float('nan'), -0.0, True)])
