"""Exercise component lifecycle callbacks through the public API only.

Prints a canonical transcript: anything whose order is unspecified
(results of World.get, delivery order among several listeners of one
event, order in which several dead entities are finalized) is sorted.
"""
import desper

LOG = []


def log(*items):
    LOG.append(' '.join(str(i) for i in items))


def flush(title, sort=False):
    print('--', title)
    for line in (sorted(LOG) if sort else LOG):
        print('   ', line)
    LOG.clear()


def owners(world, component_type):
    return sorted((repr(e), c.name) for e, c in world.get(component_type))


class Plain:
    """Not a handler at all."""

    def __init__(self, name):
        self.name = name


class PlainChild(Plain):
    pass


@desper.event_handler('on_add', 'on_remove', 'ping')
class Tracked:
    def __init__(self, name):
        self.name = name

    def on_add(self, entity, world):
        log(self.name, 'on_add', repr(entity), world.tag,
            'handler' if world.is_handler(self) else 'NOT-handler',
            'owned' if self in world.get_components(entity) else 'NOT-owned')

    def on_remove(self, entity, world):
        log(self.name, 'on_remove', repr(entity), world.tag,
            'handler' if world.is_handler(self) else 'NOT-handler',
            'owned' if self in world.get_components(entity) else 'NOT-owned')

    def ping(self, *args):
        log(self.name, 'ping', *args)


class TrackedLeft(Tracked):
    pass


class TrackedRight(Tracked):
    pass


class TrackedDiamond(TrackedLeft, TrackedRight):
    pass


@desper.event_handler('on_add')
class OnlyAdd:
    def __init__(self, name):
        self.name = name

    def on_add(self, entity, world):
        log(self.name, 'on_add', repr(entity), world.tag)


@desper.event_handler('on_remove')
class OnlyRemove:
    def __init__(self, name):
        self.name = name

    def on_remove(self, entity, world):
        log(self.name, 'on_remove', repr(entity), world.tag)


@desper.event_handler(on_add='added', on_remove='removed')
class Renamed:
    def __init__(self, name):
        self.name = name

    def added(self, entity, world):
        log(self.name, 'added', repr(entity))

    def removed(self, entity, world):
        log(self.name, 'removed', repr(entity))


@desper.event_handler('ping')
class Listener:
    """Handler without lifecycle callbacks."""

    def __init__(self, name):
        self.name = name

    def ping(self, *args):
        log(self.name, 'ping', *args)


@desper.event_handler('on_add', 'on_remove')
class Reentrant:
    """Calls back into the world from its lifecycle callbacks."""

    def __init__(self, name, on_add_action=None, on_remove_action=None):
        self.name = name
        self.on_add_action = on_add_action
        self.on_remove_action = on_remove_action

    def on_add(self, entity, world):
        log(self.name, 'on_add', repr(entity), 'begin')
        if self.on_add_action is not None:
            self.on_add_action(entity, world)
        log(self.name, 'on_add', repr(entity), 'end')

    def on_remove(self, entity, world):
        log(self.name, 'on_remove', repr(entity), 'begin')
        if self.on_remove_action is not None:
            self.on_remove_action(entity, world)
        log(self.name, 'on_remove', repr(entity), 'end')


class Boom(Exception):
    pass


@desper.event_handler('on_add', 'on_remove')
class Raising:
    def __init__(self, name, raise_on_add=False, raise_on_remove=False):
        self.name = name
        self.raise_on_add = raise_on_add
        self.raise_on_remove = raise_on_remove

    def on_add(self, entity, world):
        log(self.name, 'on_add', repr(entity))
        if self.raise_on_add:
            raise Boom(self.name + ' add')

    def on_remove(self, entity, world):
        log(self.name, 'on_remove', repr(entity))
        if self.raise_on_remove:
            raise Boom(self.name + ' remove')


@desper.event_handler('on_add', 'on_remove')
class TrackedProcessor(desper.Processor):
    def on_add(self):
        log('processor on_add', self.world.tag)

    def on_remove(self):
        log('processor on_remove', self.world.tag)

    def process(self, dt=1):
        log('processor process', dt)


def attempt(title, function, *args, **kwargs):
    try:
        result = function(*args, **kwargs)
        log(title, '->', type(result).__name__
            if not isinstance(result, (int, str, type(None), bool))
            else repr(result))
    except Exception as exc:
        log(title, 'raised', type(exc).__name__, exc)


def new_world(tag):
    world = desper.World()
    world.tag = tag
    return world


def summary(world, title):
    log('entities', [repr(e) for e in world.entities])
    for component_type in (Plain, Tracked, OnlyAdd, OnlyRemove, Renamed,
                           Reentrant, Raising, Listener):
        found = owners(world, component_type)
        if found:
            log(component_type.__name__, found)
    flush(title)


# 1. plain attach / detach, handler and non-handler ----------------------
w = new_world('w1')
t1, p1 = Tracked('t1'), Plain('p1')
e1 = w.create_entity(t1, p1)
e2 = w.create_entity()
w.add_component(e2, Tracked('t2'))
w.add_component(e2, PlainChild('pc2'))
flush('create and add')
log('is_handler t1', w.is_handler(t1))
w.dispatch('ping', 'a')
flush('ping both', sort=True)
log('removed', w.remove_component(e1, Tracked) is t1)
log('is_handler t1', w.is_handler(t1))
log('removed again', w.remove_component(e1, Tracked))
log('removed plain by base', w.remove_component(e2, Plain).name)
log('removed missing entity', w.remove_component(12345, Tracked))
w.dispatch('ping', 'b')
flush('remove')
summary(w, 'state 1')

# 2. replacement ----------------------------------------------------------
t2b = Tracked('t2b')
w.add_component(e2, t2b)
flush('replace t2 by t2b')
w.add_component(e2, t2b)
flush('replace t2b by itself')
w.add_component(e2, TrackedLeft('left'))
w.add_component(e2, TrackedDiamond('diamond'))
flush('subtypes do not replace')
log('remove by base', w.remove_component(e2, Tracked).name)
log('remove by base', w.remove_component(e2, TrackedRight).name)
log('remove by base', w.remove_component(e2, Tracked).name)
log('remove by base', w.remove_component(e2, Tracked))
log('exists', w.entity_exists(e2))
flush('remove through base types')
summary(w, 'state 2')

# 3. falsy and unusual entity ids, None component ------------------------
for entity in (0, '', (), False, None.__class__, 'deep/key', (1, (2, 3)),
               -1, 1.5, frozenset()):
    w.add_component(entity, Tracked('id' + repr(entity)))
    w.add_component(entity, OnlyAdd('oa' + repr(entity)))
flush('falsy ids added')
log('custom id', repr(w.create_entity(Renamed('r'), entity_id='')))
log('custom id', repr(w.create_entity(OnlyRemove('or0'), entity_id=0)))
w.add_component('', None)
log('none component', w.get_components('')[-1],
    w.has_component('', type(None)))
log('remove none', w.remove_component('', type(None)))
flush('custom ids')
summary(w, 'state 3')
for entity in ('', 0, (), 'deep/key'):
    w.delete_entity(entity, immediate=True)
    flush('immediate delete ' + repr(entity), sort=True)
attempt('delete missing', w.delete_entity, 'nope', immediate=True)
flush('delete missing')
summary(w, 'state 3b')

# 4. deferred deletion ------------------------------------------------------
w.delete_entity((1, (2, 3)))
w.delete_entity(-1)
w.delete_entity(-1)
w.add_component(-1, Tracked('replacement on dead'))
log('exists', w.entity_exists(-1), w.entity_exists(1.5))
flush('deferred delete, replacement on a dead entity')
w.add_processor(TrackedProcessor())
w.process(0.5)
flush('process finalizes', sort=True)
summary(w, 'state 4')

# 5. dispatching disabled: callbacks postponed, operation order ------------
w.dispatch_enabled = False
d1, d2, d3 = Tracked('d1'), Tracked('d2'), Renamed('d3')
e5 = w.create_entity(d1, d3, Plain('p5'))
w.add_component(e5, d2)                 # replaces d1
w.remove_component(e5, Renamed)
w.add_component(e5, OnlyRemove('d4'))
w.delete_entity(e5, immediate=True)
w.add_component(e5, OnlyAdd('d5'))
w.remove_processor(TrackedProcessor)
log('is_handler d1 d2', w.is_handler(d1), w.is_handler(d2))
flush('nothing delivered while disabled')
w.dispatch_enabled = True
flush('delivered in operation order', sort=False)
w.dispatch_enabled = False
w.dispatch('ping', 'postponed')
flush('ping not delivered while disabled')
w.dispatch_enabled = True
flush('ping delivered', sort=True)
summary(w, 'state 5')

# 6. re-entrant callbacks ---------------------------------------------------
w = new_world('w6')
victim = w.create_entity(Tracked('victim'), Plain('pv'))
other = w.create_entity(Tracked('other'))
flush('setup')


def add_more(entity, world):
    world.add_component(entity, Tracked('added by on_add'))
    world.add_component(other, OnlyAdd('added to other'))


def delete_victim(entity, world):
    if world.entity_exists(victim):
        world.delete_entity(victim, immediate=True)
    world.add_component(other, Renamed('added by on_remove'))


def replace_self(entity, world):
    world.add_component(entity, Reentrant('second generation'))


r = Reentrant('r', add_more, delete_victim)
e6 = w.create_entity(r)
flush('re-entrant on_add')
w.remove_component(e6, Reentrant)
flush('re-entrant on_remove')
e6b = w.create_entity(Reentrant('first generation', None, replace_self))
w.delete_entity(e6b, immediate=True)
flush('on_remove re-creates its entity')
log('exists', w.entity_exists(e6b),
    [c.name for c in w.get_components(e6b)])
flush('state')


def disable(entity, world):
    world.dispatch_enabled = False


def enable(entity, world):
    world.dispatch_enabled = True


w.create_entity(Reentrant('disabler', disable))
w.create_entity(Tracked('postponed 1'))
e6c = w.create_entity(Reentrant('enabler', enable))
w.create_entity(Tracked('postponed 2'))
flush('disabled from a callback')
w.dispatch_enabled = True
flush('enabled again: enabler runs inside the release')
w.dispatch_enabled = False
w.create_entity(Reentrant('disabler 2', disable))
w.create_entity(Tracked('postponed 3'))
w.dispatch_enabled = True
flush('release interrupted by a callback that disables')
w.dispatch_enabled = True
flush('release resumed')
summary(w, 'state 6')

# 7. raising callbacks ----------------------------------------------------------
w = new_world('w7')
attempt('create raising', w.create_entity, Raising('ra', raise_on_add=True),
        Tracked('after raising'), entity_id='x')
log([type(c).__name__ for c in w.get_components('x')])
flush('on_add raises in create_entity')
attempt('add raising', w.add_component, 'x', Raising('rb', True, True))
flush('replace: old on_remove fine, new on_add raises')
attempt('remove raising', w.remove_component, 'x', Raising)
log('still handler?', [w.is_handler(c) for c in w.get_components('x')],
    [type(c).__name__ for c in w.get_components('x')])
flush('on_remove raises in remove_component')
w.create_entity(Raising('rc', raise_on_remove=True), Tracked('sibling'),
                entity_id='y')
attempt('delete raising', w.delete_entity, 'y', immediate=True)
log('exists', w.entity_exists('y'), owners(w, Tracked))
flush('on_remove raises in delete_entity', sort=True)
w.dispatch_enabled = False
w.create_entity(Raising('rd', raise_on_add=True), entity_id='z')
w.create_entity(Tracked('after rd'), entity_id='z2')
attempt('enable', setattr, w, 'dispatch_enabled', True)
flush('postponed on_add raises during release')
log('enabled', w.dispatch_enabled)
w.dispatch_enabled = True
flush('rest of the queue')
w.create_entity(Raising('re', raise_on_remove=True), entity_id=7)
w.create_entity(Tracked('dead 8'), entity_id=8)
w.delete_entity(7)
w.delete_entity(8)
attempt('process', w.process)
attempt('process', w.process)
log('exists', w.entity_exists(7), w.entity_exists(8))
flush('on_remove raises while finalizing dead entities', sort=True)
summary(w, 'state 7')

# 8. clear and reuse --------------------------------------------------------------
w = new_world('w8')
kept = [Tracked('c%d' % i) for i in range(3)]
for component in kept:
    w.create_entity(component, Plain('p'))
w.add_processor(TrackedProcessor())
flush('setup', sort=False)
w.clear()
flush('clear', sort=True)
log('handlers left', [w.is_handler(c) for c in kept], w.entities)
w.dispatch('ping', 'after clear')
log('next id', w.create_entity(Tracked('reborn')))
flush('reuse after clear')
w.dispatch_enabled = False
w.create_entity(Tracked('pending at clear'))
w.clear()
flush('clear while disabled', sort=True)
log('enabled after clear', w.dispatch_enabled)
w.dispatch_enabled = False
late = Tracked('late')
w.create_entity(late)
w.remove_component(1, Tracked)
w.create_entity(late)
flush('disabled on the reused world')
w.dispatch_enabled = True
flush('postponed callbacks delivered on the reused world')


def clear_again(entity, world):
    world.delete_entity(entity + 1, immediate=True)


w = new_world('w8b')
w.create_entity(Reentrant('clears next', None, clear_again))
w.create_entity(Tracked('next'))
w.create_entity(Tracked('last'))
flush('setup')
w.clear()
flush('clear with an on_remove that deletes another entity')
summary(w, 'state 8')

# 9. prototypes and controllers use the same path -------------------------
w = new_world('w9')


class Hero(desper.Controller):
    tracked = desper.ComponentReference(Tracked)


hero = Hero()
e9 = w.create_entity(hero, Tracked('hero tracked'))
log('controller', hero.entity == e9, hero.world is w, hero.tracked.name)
hero.tracked = Tracked('hero tracked 2')
del hero.tracked
log('controller has', hero.has_component(Tracked))
hero.delete()
w.process()
log('exists', w.entity_exists(e9))
flush('controller')
