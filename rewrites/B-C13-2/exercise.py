"""Exercise world switching with SimpleLoop through the public API only.

Every world has exactly one listener per event, so the transcript is
deterministic (delivery order among listeners of one event is not).
"""
import desper

SCRIPT = []          # one action per processed frame, whatever the world
HOOKS = {}           # handle name -> actions run by on_switch_in callbacks
HANDLES = {}
WORLDS = []          # every world ever loaded (kept alive)


def name(world):
    return None if world is None else world.tag


@desper.event_handler('on_switch_in', 'on_switch_out', 'on_world_load',
                      'on_add', 'on_remove', 'on_quit', 'go')
class Watcher:
    def __init__(self, owner):
        self.owner = owner
        self.world = None

    def on_add(self, entity, world):
        self.world = world
        print('  ', name(world), 'on_add watcher of', self.owner)

    def on_remove(self, entity, world):
        print('  ', name(world), 'on_remove watcher')

    def on_world_load(self, handle, world):
        print('  ', name(world), 'on_world_load', handle.name)

    def on_switch_in(self, from_, to):
        print('  ', name(self.world), 'on_switch_in', name(from_), '->',
              name(to), '| delivered in entered world:', to is self.world)
        hooks = HOOKS.get(self.owner)
        if hooks:
            hooks.pop(0)(self.world)

    def on_switch_out(self, from_, to):
        print('  ', name(self.world), 'on_switch_out', name(from_), '->',
              name(to), '| delivered in left world:', from_ is self.world)

    def on_quit(self):
        print('  ', name(self.world), 'on_quit')

    def go(self, action):
        print('  ', name(self.world), 'go')
        action(self.world)


class Director(desper.Processor):
    def process(self, dt):
        print(' ', name(self.world), 'frame dt=%r' % (dt,),
              'loop sees', name(LOOP.current_world))
        if not SCRIPT:
            desper.quit_loop(self.world)
        SCRIPT.pop(0)(self.world)


class Tail(desper.Processor):
    def process(self, dt):
        print(' ', name(self.world), 'tail')


def populate(handle, world):
    world.tag = '%s#%d' % (handle.name, handle.loads)
    WORLDS.append(world)
    world.add_processor(Director(), priority=0)
    world.add_processor(desper.CoroutineProcessor(), priority=5)
    world.add_processor(Tail(), priority=10)
    world.create_entity(Watcher(handle.name))


class LazyHandle(desper.WorldHandle):
    """World loaded with dispatching disabled (load-time callbacks wait)."""

    def __init__(self, name):
        super().__init__()
        self.name = name
        self.loads = 0
        self.transform_functions.append(populate)

    def load(self):
        self.loads += 1
        print('   load', self.name, self.loads)
        return super().load()


class EagerHandle(desper.Handle):
    """World loaded with dispatching enabled."""

    def __init__(self, name):
        self.name = name
        self.loads = 0

    def load(self):
        self.loads += 1
        print('   load', self.name, self.loads)
        world = desper.World()
        populate(self, world)
        return world


# actions ------------------------------------------------------------------
def nop(world):
    pass


def sw(target, clear_current=False, clear_next=False):
    def action(world):
        desper.switch(HANDLES[target], clear_current, clear_next,
                      from_world=world)
    return action


def sw_default(target, **kwargs):
    def action(world):
        desper.switch(HANDLES[target], **kwargs)
    return action


def raw(target, clear_current=False, clear_next=False):
    def action(world):
        raise desper.SwitchWorld(HANDLES[target], clear_current, clear_next)
    return action


def via_event(inner):
    def action(world):
        world.dispatch('go', inner)
    return action


def via_coroutine(inner, wait=None):
    def action(world):
        def coroutine():
            print('  ', name(world), 'coroutine started')
            yield wait
            print('  ', name(world), 'coroutine resumed')
            inner(world)
        world.get_processor(desper.CoroutineProcessor).start(coroutine())
    return action


def boom(world):
    raise RuntimeError('boom')


def fresh_handles():
    HANDLES.clear()
    WORLDS.clear()
    HOOKS.clear()
    for handle_name in 'ABC':
        HANDLES[handle_name] = LazyHandle(handle_name)
    HANDLES['E'] = EagerHandle('E')


class Clock:
    def __init__(self, step):
        self.now = 0
        self.step = step
        self.calls = 0

    def __call__(self):
        self.calls += 1
        self.now += self.step * self.calls
        return self.now


def run(title, first, script, hooks=None, loop=None, step=1, preload=()):
    global LOOP
    print('=====', title)
    fresh_handles()
    HOOKS.update({key: list(value) for key, value in (hooks or {}).items()})
    SCRIPT[:] = script
    clock = Clock(step)
    if loop is None:
        loop = desper.SimpleLoop(clock)
    else:
        loop.time_function = clock
    LOOP = loop
    for handle_name in preload:
        HANDLES[handle_name]()
    loop.switch(HANDLES[first])
    for attempt in range(4):
        try:
            loop.start()
        except Exception as ex:
            print(' loop raised', type(ex).__name__, '| running', loop.running,
                  '| last_timestamp', loop.last_timestamp)
            continue
        break
    print(' ended | running', loop.running,
          '| current', name(loop.current_world),
          '| handle', loop.current_world_handle.name,
          '| current is cached:',
          loop.current_world_handle() is loop.current_world,
          '| last_timestamp', loop.last_timestamp,
          '| clock calls', clock.calls)
    print(' worlds', [(name(world), world.dispatch_enabled)
                      for world in WORLDS])
    print(' cached', sorted((key, handle.cached, handle.loads)
                            for key, handle in HANDLES.items()))


run('1 switch() from a processor, there and back', 'A',
    [nop, sw('B'), nop, sw('A'), nop])
run('2 raising SwitchWorld directly (no events)', 'A',
    [raw('B'), nop, raw('A'), raw('A'), nop], step=0.5)
run('3 switching to the current handle', 'A',
    [sw('A'), nop, sw('A', clear_current=True), nop,
     sw('A', clear_next=True), nop, sw('A', True, True), nop])
run('4 clear_current / clear_next combinations', 'A',
    [sw('B', clear_current=True), sw('A', clear_next=True),
     sw('B', True, True), sw('C', False, True), sw('A', True, False),
     raw('B', True, True), nop], preload='C')
run('5 from event callbacks and coroutines', 'A',
    [via_event(sw('B')), via_coroutine(sw('C')), nop, nop,
     via_coroutine(raw('E'), wait=3), nop, nop, nop, via_event(raw('A')),
     nop])
run('6 eager (dispatching enabled at load) targets', 'E',
    [sw('A'), sw('E'), sw('E', clear_next=True), nop])
run('7 switch requested while a world is being entered', 'A',
    [sw('B'), nop, sw('C'), nop, nop],
    hooks={'B': [sw('C')], 'C': [raw('A'), sw('B', clear_current=True)]})
run('8 callbacks raising while a world is being entered', 'A',
    [sw('B'), nop, sw('A'), sw('B'), nop],
    hooks={'B': [boom], 'A': [boom]})
run('9 processors raising in the middle of a run', 'A',
    [boom, sw('B'), boom, nop])
run('10 default loop, from_world left to the default', 'A',
    [sw_default('B'), sw_default('A', clear_current=True),
     sw_default('C', clear_next=True), sw_default('C'), nop],
    loop=desper.default_loop, step=2, preload='BC')


# A world which was left holds what is sent to it, in order, until entered
def tell(target, *messages):
    def action(world):
        other = HANDLES[target]()
        for message in messages:
            other.dispatch('go', message)
    return action


def say(text):
    def message(world):
        print('    ', name(world), 'hears', text)
    return message


def say_and_switch(text, target):
    def message(world):
        print('    ', name(world), 'hears', text)
        desper.switch(HANDLES[target], from_world=world)
    return message


def say_and_boom(text):
    def message(world):
        print('    ', name(world), 'hears', text)
        raise RuntimeError(text)
    return message


def say_and_disable(text):
    def message(world):
        print('    ', name(world), 'hears', text, 'and disables itself')
        world.dispatch_enabled = False
        world.dispatch('go', say('sent while disabled from a callback'))
    return message


def enable(target):
    def action(world):
        other = HANDLES[target]()
        print('  ', name(other), 'enabled by hand, was',
              other.dispatch_enabled)
        other.dispatch_enabled = True
    return action


run('11 events held by the world which was left', 'A',
    [sw('B'), tell('A', say('one'), say('two'), say('three')), nop,
     sw('A'), nop])
run('12 held events asking for a switch / raising / disabling', 'A',
    [sw('B'),
     tell('A', say('first'), say_and_switch('second', 'C'), say('third')),
     sw('A'), nop, sw('A'), nop,
     tell('B', say_and_boom('fourth'), say('fifth')), sw('B'), nop,
     tell('C', say_and_disable('sixth'), say('seventh')),
     sw('C'), nop, enable('C'), nop])

# the dispatcher alone: order of release, re-entrancy, failures
print('===== 13 plain dispatcher')


@desper.event_handler('note', 'act')
class Listener:
    def note(self, *args, **kwargs):
        print('   note', args, sorted(kwargs.items()))

    def act(self, action):
        action()


d = desper.EventDispatcher()
listener = Listener()
d.add_handler(listener)
d.dispatch_enabled = False
d.dispatch_enabled = False
for i in range(5):
    d.dispatch('note', i, None, key=i)
d.dispatch('unknown', 'dropped')
d.dispatch('note')
print('  nothing yet, enabled:', d.dispatch_enabled)
d.dispatch_enabled = True
d.dispatch_enabled = True
print('  released, enabled:', d.dispatch_enabled)


def reenter():
    print('   re-entrant enable, enabled:', d.dispatch_enabled)
    d.dispatch_enabled = True          # releases what follows, nested
    print('   back from re-entrant enable')
    d.dispatch('note', 'sent from the callback')


def disable():
    print('   disabling from a callback')
    d.dispatch_enabled = False


def fail():
    raise ValueError('fail')


d.dispatch_enabled = False
d.dispatch('note', 'a')
d.dispatch('act', reenter)
d.dispatch('note', 'b')
d.dispatch('act', disable)
d.dispatch('note', 'c')
d.dispatch('act', fail)
d.dispatch('note', 'd')
for attempt in range(4):
    try:
        d.dispatch_enabled = 1        # any true value
    except ValueError as ex:
        print('  raised', type(ex).__name__)
    print('  attempt', attempt, 'enabled:', d.dispatch_enabled)
d.dispatch_enabled = 0
d.dispatch('note', 'lost')
d.clear()
print('  cleared, enabled:', d.dispatch_enabled)
d.add_handler(listener)
d.dispatch('note', 'after clear')
