"""Exercise World queries, controllers, references and prototypes.

Uses the public API only and prints a canonical transcript: results that
are documented as unordered (``World.get``) are sorted, event deliveries
whose relative order depends on set iteration are sorted per segment.
"""
import itertools

import desper

LOG = []


def flush(title, sort=False):
    lines = sorted(LOG) if sort else list(LOG)
    print(f'  [{title}] events:', '; '.join(lines) if lines else '-')
    LOG.clear()


def label(component):
    name = getattr(component, 'name', None)
    if name is not None:
        return f'{type(component).__name__}:{name}'
    return f'{type(component).__name__}={component!r}'


class A:
    def __init__(self, name='a'):
        self.name = name


class B(A):
    pass


class C(A):
    pass


class D(B, C):
    """Diamond."""


class E(D):
    pass


class Falsy:
    """A component that is false and empty."""
    name = 'falsy'

    def __bool__(self):
        return False

    def __len__(self):
        return 0


@desper.event_handler('on_add', 'on_remove', 'on_update')
class H:
    def __init__(self, name):
        self.name = name

    def on_add(self, entity, world):
        LOG.append(f'add {self.name}@{entity!r} exists={world.entity_exists(entity)}')

    def on_remove(self, entity, world):
        LOG.append(f'remove {self.name}@{entity!r} '
                   f'has={world.has_component(entity, type(self))} '
                   f'exists={world.entity_exists(entity)}')

    def on_update(self, dt):
        LOG.append(f'update {self.name} {dt!r}')


class H2(H):
    pass


@desper.event_handler('on_add')
class OnlyAdd:
    def __init__(self, name):
        self.name = name

    def on_add(self, entity, world):
        LOG.append(f'onlyadd {self.name}@{entity!r}')


@desper.event_handler('on_add', 'on_remove')
class Reenter:
    """Callbacks that call back into the world."""

    def __init__(self, name, on_add=None, on_remove=None):
        self.name = name
        self.add_action = on_add
        self.remove_action = on_remove

    def on_add(self, entity, world):
        LOG.append(f'add {self.name}@{entity!r}')
        if self.add_action is not None:
            self.add_action(entity, world)

    def on_remove(self, entity, world):
        LOG.append(f'remove {self.name}@{entity!r}')
        if self.remove_action is not None:
            self.remove_action(entity, world)


class Reenter2(Reenter):
    pass


class Boom(Exception):
    pass


@desper.event_handler('on_add', 'on_remove')
class Raiser:
    def __init__(self, name, on_add=False, on_remove=False):
        self.name = name
        self.raise_add = on_add
        self.raise_remove = on_remove

    def on_add(self, entity, world):
        LOG.append(f'add {self.name}@{entity!r}')
        if self.raise_add:
            raise Boom(f'add {self.name}')

    def on_remove(self, entity, world):
        LOG.append(f'remove {self.name}@{entity!r}')
        if self.raise_remove:
            raise Boom(f'remove {self.name}')


QUERY_TYPES = (A, B, C, D, E, Falsy, H, H2, OnlyAdd, Reenter,
               Reenter2, Raiser, int, bool, str, tuple, type(None),
               desper.Controller)


def attempt(title, function, *args, **kwargs):
    raw = kwargs.pop('_raw', False)
    try:
        result = function(*args, **kwargs)
    except BaseException as exception:
        print(f'  {title} -> raised {type(exception).__name__}')
        return None
    if raw:
        shown = repr(result)
    elif isinstance(result, (list, tuple)):
        shown = [label(c) for c in result]
    elif result is None or isinstance(result, (bool, int, str)):
        shown = repr(result)
    else:
        shown = label(result)
    print(f'  {title} -> {shown}')
    return result


def dump(world, title, probe=()):
    print(f'  ({title})')
    entities = world.entities
    print('   entities:', [repr(e) for e in entities])
    for component_type in QUERY_TYPES:
        pairs = world.get(component_type)
        if pairs:
            shown = sorted((repr(e), label(c)) for e, c in pairs)
            print(f'   get({component_type.__name__}):', shown)
            # Identity: what get reports is what get_component family sees
            for entity, component in pairs:
                assert component in world.get_components(entity)
                assert world.has_component(entity, component_type)
    candidates = list(entities)
    for extra in probe:
        if not any(extra is c or (extra == c and type(extra) is type(c))
                   for c in candidates):
            candidates.append(extra)
    for entity in candidates:
        comps = [label(c) for c in world.get_components(entity)]
        has = [t.__name__ for t in QUERY_TYPES
               if world.has_component(entity, t)]
        got = [f'{t.__name__}->'
               f'{label(world.get_component(entity, t, "dflt"))}'
               for t in (A, B, C, D, H, int, Falsy)
               if world.get_component(entity, t, 'dflt') != 'dflt'
               or world.get_component(entity, t, 'dflt') == 0]
        print(f'   {entity!r}: exists={world.entity_exists(entity)} '
              f'components={comps} has={has} get={got}')
    print('   processors:',
          [f'{type(p).__name__}/{p.priority}' for p in world.processors])


class Proc(desper.Processor):
    def __init__(self, name='p'):
        self.name = name

    def process(self, dt):
        LOG.append(f'process {type(self).__name__}:{self.name} {dt!r}')


class ProcB(Proc):
    priority = -3


class ProcC(Proc):
    priority = 5


class ProcCC(ProcC):
    pass


@desper.event_handler('on_add', 'on_remove')
class ProcH(Proc):
    priority = 5

    def on_add(self):
        LOG.append(f'proc add {self.name} world={self.world is not None}')

    def on_remove(self):
        LOG.append(f'proc remove {self.name}')


def scenario_basic():
    print('scenario basic')
    w = desper.World()
    e1 = w.create_entity(A('a1'), B('b1'))
    e2 = w.create_entity(D('d2'), H('h2'), 0)
    e3 = w.create_entity(Falsy(), '', None, ())
    e4 = w.create_entity()
    print('  ids', e1, e2, e3, e4)
    flush('create')
    dump(w, 'after create', probe=(e4, 99, 'nobody'))
    w.add_component(e4, True)
    w.add_component(e4, E('e4'))
    w.add_component(e1, A('a1-bis'))            # replace
    w.add_component(e2, H('h2-bis'))            # replace a handler
    w.add_component('custom', C('c-custom'))    # implicit creation
    flush('add')
    dump(w, 'after adds', probe=(e4,))
    attempt('remove A from e2 (diamond, finds D)', w.remove_component, e2, A)
    attempt('remove A from e2 again', w.remove_component, e2, A)
    attempt('remove int from e2 (falsy 0)', w.remove_component, e2, int)
    attempt('remove int from e4 (bool subclass)', w.remove_component, e4, int)
    attempt('remove NoneType from e3', w.remove_component, e3, type(None))
    attempt('remove Falsy from e3', w.remove_component, e3, Falsy)
    attempt('remove str from e3 (falsy empty string)', w.remove_component,
            e3, str)
    attempt('remove tuple from e3', w.remove_component, e3, tuple)
    attempt('remove tuple from e3 (now empty)', w.remove_component, e3,
            tuple)
    attempt('remove A from nobody', w.remove_component, 'nobody', A)
    attempt('remove H from e2', w.remove_component, e2, H)
    attempt('get_component default', w.get_component, 'nobody', A, 'fallback')
    attempt('get_component falsy default', w.get_component, e1, H, 0)
    attempt('has_component unhashable entity', w.has_component, [], A)
    attempt('get_component non-type', w.get_component, e1, 5)
    attempt('has_component non-type, missing entity', w.has_component,
            'nobody', 5)
    attempt('has_component non-type, existing entity', w.has_component, e1, 5)
    attempt('get_component unhashable type', w.get_component, e1, [])
    attempt('has_component unhashable type', w.has_component, e1, [])
    attempt('remove_component unhashable type', w.remove_component, e1, [])
    attempt('get_component non-type, missing entity', w.get_component,
            'nobody', 5)
    attempt('get_processor non-type', w.get_processor, 5)
    attempt('get_processor unhashable', w.get_processor, [])
    flush('remove')
    dump(w, 'after removes', probe=(e2, e3))


def scenario_ids():
    print('scenario ids')
    w = desper.World()
    w.create_entity(A('three'), entity_id=3)
    w.add_component(1, A('one'))
    ids = [w.create_entity(A(f'auto{i}')) for i in range(3)]
    print('  auto ids skipping 1 and 3:', ids)
    for entity_id in (0, False, '', (), ('t', 1), frozenset({1}), 2.0, -1,
                      None):
        attempt(f'create id {entity_id!r}', w.create_entity,
                B(f'b{entity_id!r}'), entity_id=entity_id, _raw=True)
    attempt('create unhashable id', w.create_entity, A(), entity_id=[])
    dump(w, 'ids', probe=(0, '', (), 2, 2.0))
    w.clear()
    print('  after clear:', w.create_entity(A()), w.entities)
    w2 = desper.World(lambda: itertools.count(10, 5))
    w2.add_component(15, A())
    print('  custom generator:', [w2.create_entity(A()) for _ in range(3)])
    w2.clear()
    print('  custom generator after clear:', w2.create_entity(A()))


def scenario_delete():
    print('scenario delete')
    w = desper.World()
    e1 = w.create_entity(H('h1'), A('a1'))
    e2 = w.create_entity(H('h2'), H2('h2sub'))
    e3 = w.create_entity(B('b3'))
    flush('create')
    w.delete_entity(e1)
    dump(w, 'e1 pending', probe=(e1,))
    w.add_component(e1, A('a1-replaced'))       # stays dead
    w.add_component(e1, C('c1-new'))
    print('  exists after replace:', w.entity_exists(e1))
    attempt('remove C from dead', w.remove_component, e1, C)
    w.process(1)
    flush('process')
    dump(w, 'e1 gone', probe=(e1,))
    attempt('immediate delete missing', w.delete_entity, e1, immediate=True)
    attempt('deferred delete missing', w.delete_entity, 'ghost')
    attempt('process with ghost', w.process, 1)
    attempt('process again', w.process, 1)
    w.delete_entity(e2)
    attempt('remove H from dead e2', w.remove_component, e2, H)
    attempt('remove H2 from dead e2 (empties it)', w.remove_component, e2, H)
    print('  e2 exists', w.entity_exists(e2))
    w.add_component(e2, A('reborn'))
    print('  e2 reborn exists', w.entity_exists(e2))
    w.process(1)
    flush('process 2')
    w.delete_entity(e3, immediate=True)
    w.delete_entity(e2)
    w.delete_entity(e2)
    w.delete_entity(e2, immediate=True)
    w.process(1)
    flush('immediate')
    dump(w, 'end', probe=(e1, e2, e3))


def scenario_disabled():
    print('scenario disabled dispatching')
    w = desper.World()
    w.dispatch_enabled = False
    e1 = w.create_entity(H('h1'), OnlyAdd('o1'), A('a1'))
    w.add_component(e1, H('h1-bis'))
    w.add_component(e1, H2('h1-sub'))
    w.remove_component(e1, H2)
    e2 = w.create_entity(H2('h2'))
    w.delete_entity(e2, immediate=True)
    w.add_processor(ProcH('ph'))
    w.remove_processor(Proc)
    w.add_processor(ProcH('ph2'))
    flush('while disabled')
    dump(w, 'disabled', probe=(e2,))
    w.dispatch_enabled = True
    flush('released')
    w.dispatch('on_update', 0.5)
    flush('update', sort=True)
    dump(w, 'enabled')


def scenario_reentrant():
    print('scenario re-entrant callbacks')
    w = desper.World()
    victim = w.create_entity(H('victim'), A('va'))
    other = w.create_entity(H('other'))

    def kill_victim(entity, world):
        if world.entity_exists(victim):
            world.delete_entity(victim, immediate=True)

    def add_more(entity, world):
        world.add_component(entity, A(f'added-by-{entity!r}'))
        world.create_entity(B('spawned'), entity_id=('spawn', entity))

    def remove_sibling(entity, world):
        world.remove_component(entity, A)
        world.add_component(other, C('c-from-remove'))

    e1 = w.create_entity(Reenter('r1', on_add=add_more,
                                 on_remove=kill_victim), A('a1'))
    flush('create r1')
    dump(w, 'after r1')
    w.add_component(e1, Reenter('r1-bis', on_remove=remove_sibling))
    flush('replace r1')
    dump(w, 'after replace')
    e2 = w.create_entity(Reenter2('r2', on_remove=remove_sibling), A('a2'),
                         B('b2'))
    w.delete_entity(e2)
    w.process(1)
    flush('process')
    dump(w, 'after process', probe=(e2,))

    def readd(entity, world):
        world.add_component(entity, H('phoenix'))

    e3 = w.create_entity(Reenter('r3', on_remove=readd))
    attempt('remove with re-adding callback', w.remove_component, e3, Reenter)
    flush('readd')
    dump(w, 'after readd', probe=(e3,))
    e4 = w.create_entity(Reenter('r4', on_remove=readd), A('a4'))
    w.delete_entity(e4, immediate=True)
    flush('readd on delete')
    dump(w, 'after readd on delete', probe=(e4,))

    def clear_all(entity, world):
        for target in world.entities:
            if target != entity:
                world.delete_entity(target, immediate=True)

    w.create_entity(Reenter('r5', on_remove=clear_all))
    w.add_processor(ProcH('ph'))
    w.clear()
    flush('clear')
    dump(w, 'after clear')
    print('  next id', w.create_entity(A()))


def scenario_raising():
    print('scenario raising callbacks')
    w = desper.World()
    attempt('create with raising on_add', w.create_entity, A('a'),
            Raiser('x1', on_add=True), H('late'), entity_id='e1')
    flush('create')
    dump(w, 'after failed create')
    attempt('add raising', w.add_component, 'e2', Raiser('x2', on_add=True))
    attempt('replace raising on_remove', w.add_component, 'e3',
            Raiser('x3', on_remove=True))
    attempt('replace raising on_remove (2)', w.add_component, 'e3',
            Raiser('x3-bis'))
    flush('add')
    dump(w, 'after adds')
    attempt('remove raising', w.remove_component, 'e3', Raiser)
    w.add_component('e4', Raiser('x4', on_remove=True))
    w.add_component('e4', A('a4'))
    w.add_component('e4', H('h4'))
    attempt('immediate delete raising', w.delete_entity, 'e4', immediate=True)
    flush('delete')
    dump(w, 'after delete', probe=('e3', 'e4'))
    w.add_component(5, Raiser('x5', on_remove=True))
    w.delete_entity(5)
    attempt('process raising', w.process, 1)
    attempt('process again', w.process, 1)
    flush('process')
    dump(w, 'after process', probe=(5,))
    w.dispatch_enabled = False
    w.add_component(6, Raiser('x6', on_add=True))
    w.add_component(6, H('h6'))
    try:
        w.dispatch_enabled = True
    except Boom:
        print('  enabling raised Boom')
    flush('enable')
    w.dispatch_enabled = True
    flush('enable again')
    dump(w, 'end')


def scenario_processors():
    print('scenario processors')
    w = desper.World()
    for processor, priority in ((Proc('p0'), None), (ProcB('b'), None),
                               (ProcC('c'), None), (ProcCC('cc'), 5),
                               (ProcH('h'), None), (Proc('p0-bis'), 5)):
        w.add_processor(processor, priority)
    flush('add')
    dump(w, 'processors')
    w.process(2)
    flush('process')
    for query in (desper.Processor, Proc, ProcB, ProcC, ProcCC, ProcH):
        found = w.get_processor(query)
        print(f'  get_processor({query.__name__}) ->',
              None if found is None else f'{type(found).__name__}:{found.name}')
    attempt('remove ProcC', w.remove_processor, ProcC)
    attempt('remove ProcC', w.remove_processor, ProcC)
    attempt('remove ProcC', w.remove_processor, ProcC)
    attempt('remove Processor', w.remove_processor, desper.Processor)
    attempt('remove non processor', w.remove_processor, A)
    flush('remove')
    dump(w, 'after removal')

    class Meddler(Proc):
        def process(self, dt):
            super().process(dt)
            self.world.remove_processor(ProcB)
            self.world.add_processor(ProcCC('late'))
            self.world.create_entity(A('from-processor'))

    w.add_processor(Meddler('m'), -10)
    w.process(3)
    w.process(4)
    flush('meddler')
    dump(w, 'after meddler')


class Ctl(desper.Controller):
    a = desper.ComponentReference(A)
    h = desper.ComponentReference(H)
    proc = desper.ProcessorReference(Proc)
    update = desper.ProcessorReference(desper.OnUpdateProcessor)

    def __init__(self, name='ctl'):
        self.name = name


class Proto(desper.Prototype):
    component_types = (A, B, H, Falsy, int)
    init_methods = {B: lambda t: t('from-dict'),
                    int: lambda t: t(7)}

    def init_A(self, component_type):
        return component_type('from-method')

    def init_B(self, component_type):
        raise AssertionError('init_methods has priority')

    def init_H(self, component_type):
        return component_type('proto-h')


class ProtoSub(Proto):
    component_types = (int, A, C, D)
    init_prefix = 'make_'
    init_methods = {}

    def make_C(self, component_type):
        return component_type('made-c')

    def make_int(self, component_type):
        return 0


class ProtoBad(desper.Prototype):
    component_types = (A, H)


def scenario_controllers():
    print('scenario controllers')
    w = desper.World()
    ctl = Ctl()
    print('  detached:', ctl.world, ctl.entity)
    e = w.create_entity(ctl, A('a'), entity_id=0)
    print('  attached:', ctl.world is w, ctl.entity)
    print('  ref a:', label(ctl.a), 'ref h:', ctl.h)
    ctl.h = H('h-by-ref')
    ctl.a = B('b-by-ref')
    flush('set refs')
    print('  ref a:', label(ctl.a), 'ref h:', label(ctl.h))
    attempt('has A', ctl.has_component, A)
    attempt('has C', ctl.has_component, C)
    attempt('get B', ctl.get_component, B)
    attempt('get C', ctl.get_component, C)
    attempt('get_components', ctl.get_components)
    ctl.add_component(Falsy())
    attempt('remove Falsy', ctl.remove_component, Falsy)
    attempt('remove Falsy', ctl.remove_component, Falsy)
    attempt('set wrong type', setattr, ctl, 'a', 5)
    attempt('class access', getattr, Ctl, 'a')
    del ctl.a
    del ctl.a
    print('  after del:', label(ctl.a) if ctl.a is not None else None)
    dump(w, 'controller world')
    print('  proc ref:', ctl.proc, ctl.update)
    ctl.proc = ProcC('by-ref')
    ctl.update = desper.OnUpdateProcessor()
    print('  proc ref:', label(ctl.proc), type(ctl.update).__name__)
    w.process(0.25)
    flush('process', sort=True)
    del ctl.proc
    del ctl.proc
    print('  proc ref:', ctl.proc)
    plain = desper.controller('elsewhere', w)
    plain.add_component(A('plain'))
    attempt('plain get', plain.get_component, A)
    ctl.delete()
    print('  exists after delete():', w.entity_exists(e))
    w.process(0)
    flush('process 2', sort=True)
    dump(w, 'after delete', probe=(e,))
    w.dispatch_enabled = False
    late = Ctl('late')
    w.create_entity(late, entity_id='late')
    print('  late before enabling:', late.world, late.entity)
    w.dispatch_enabled = True
    print('  late after enabling:', late.world is w, late.entity)

    class SpyOwner:
        a = desper.ComponentReference(A)
        proc = desper.ProcessorReference(Proc)

        def __init__(self, world, entity):
            self._world, self._entity = world, entity

        @property
        def world(self):
            LOG.append('read world')
            return self._world

        @property
        def entity(self):
            LOG.append('read entity')
            return self._entity

    class NoEntity:
        a = desper.ComponentReference(A)
        proc = desper.ProcessorReference(Proc)
        world = w

    owner = SpyOwner(w, 'spied')
    print('  spy get:', owner.a, owner.proc)
    flush('spy get', sort=True)
    owner.a = C('spy-c')
    owner.proc = ProcB('spy-proc')
    flush('spy set', sort=True)
    print('  spy get:', label(owner.a), label(owner.proc))
    flush('spy get 2', sort=True)
    del owner.a
    del owner.proc
    flush('spy del', sort=True)
    print('  spy get:', owner.a, owner.proc, w.entity_exists('spied'))
    flush('spy get 3', sort=True)
    detached = SpyOwner(None, 'spied')
    attempt('detached get', getattr, detached, 'a')
    attempt('detached set', setattr, detached, 'a', A())
    attempt('detached del', delattr, detached, 'a')
    attempt('detached proc get', getattr, detached, 'proc')
    flush('detached', sort=True)
    attempt('not a controller get', getattr, NoEntity(), 'a')
    attempt('not a controller set', setattr, NoEntity(), 'a', A())
    attempt('not a controller del', delattr, NoEntity(), 'a')
    attempt('not a controller proc', getattr, NoEntity(), 'proc')
    attempt('not a controller proc del', delattr, NoEntity(), 'proc')
    attempt('bad processor reference', desper.ProcessorReference, A)

    print('  prototype:', [label(c) for c in Proto()])
    print('  prototype sub:', [label(c) for c in ProtoSub()])
    iterator = iter(Proto())
    print('  lazy:', label(next(iterator)), label(next(iterator)))
    attempt('prototype needing arguments', lambda: list(ProtoBad()))
    print('  empty prototype:', list(desper.Prototype()))
    pe = w.create_entity(*ProtoSub())
    flush('prototype entity')
    dump(w, 'prototype', probe=(pe,))


@desper.event_handler('on_add', 'on_remove')
class ProcReenter(Proc):
    """Processor whose callbacks call back into the world."""
    priority = 1
    add_action = None
    remove_action = None

    def on_add(self):
        LOG.append(f'proc add {self.name}')
        if self.add_action is not None:
            self.add_action(self.world)

    def on_remove(self):
        LOG.append(f'proc remove {self.name}')
        if self.remove_action is not None:
            self.remove_action(self.world)


class ProcReenterSub(ProcReenter):
    priority = 2


def scenario_processor_callbacks():
    print('scenario processor callbacks')
    w = desper.World()
    w.add_processor(ProcB('b'))
    w.add_processor(ProcCC('cc'))

    first = ProcReenter('first')
    first.add_action = lambda world: world.add_processor(ProcC('by-first'))
    first.remove_action = lambda world: (
        world.remove_processor(ProcC),
        world.add_processor(ProcReenterSub('by-removal')),
        world.create_entity(A('by-removal')))
    w.add_processor(first)
    flush('add first')
    dump(w, 'first added')
    replacement = ProcReenter('second')

    def boom(world):
        raise Boom('processor on_remove')

    replacement.remove_action = boom
    w.add_processor(replacement)            # replaces first
    flush('replace first')
    dump(w, 'first replaced')
    attempt('remove raising', w.remove_processor, desper.Processor)
    attempt('remove Proc', w.remove_processor, Proc)
    attempt('remove Proc', w.remove_processor, Proc)
    attempt('get ProcReenter', w.get_processor, ProcReenter)
    flush('remove')
    dump(w, 'removed')
    w.dispatch_enabled = False
    late = ProcReenter('late')
    late.add_action = lambda world: world.add_processor(ProcB('by-late'), 7)
    w.add_processor(late)
    attempt('remove while disabled', w.remove_processor, ProcReenterSub)
    flush('disabled')
    dump(w, 'disabled')
    w.dispatch_enabled = True
    flush('enabled')
    dump(w, 'enabled')
    w.process(1)
    flush('process')
    raiser = ProcReenter('raiser')
    raiser.add_action = boom
    attempt('add raising', w.add_processor, raiser, -1)
    flush('raising add')
    dump(w, 'end')
    w.clear()
    flush('clear')
    dump(w, 'cleared')


class Spy(desper.Prototype):
    """Prototype reporting every lookup made on it."""

    def __init__(self, types, methods, prefix='init_'):
        self._types = types
        self._methods = methods
        self._prefix = prefix

    @property
    def component_types(self):
        LOG.append('types')
        return self._types

    @property
    def init_methods(self):
        LOG.append('methods')
        return self._methods

    @property
    def init_prefix(self):
        LOG.append('prefix')
        return self._prefix

    @property
    def init_B(self):
        LOG.append('property init_B')
        return lambda t: t('b-from-property')

    def init_C(self, component_type):
        LOG.append('init_C')
        return component_type('c-from-method')

    def make_A(self, component_type):
        LOG.append('make_A')
        return component_type('a-made')

    def init_D(self, component_type):
        LOG.append('init_D nested ' + str(
            [label(c) for c in Spy((A,), {})]))
        return component_type('d-nested')

    def init_Raiser(self, component_type):
        LOG.append('init_Raiser')
        raise Boom('cannot build')

    def __getattr__(self, name):
        LOG.append(f'missing {name}')
        raise AttributeError(name)


def scenario_prototypes():
    print('scenario prototypes')
    methods = {B: lambda t: t('b-from-dict'), Falsy: lambda t: t(),
               C: lambda t: 0}
    spy = Spy((A, B, C, D, Falsy), methods)
    iterator = iter(spy)
    flush('iter() only')
    print('  iterator is its own iterator:', iter(iterator) is iterator)
    spy._types = (H,)           # too late for the running iteration
    for _ in range(5):
        print('  next ->', label(next(iterator)))
        flush('next')
    attempt('exhausted', next, iterator)
    flush('exhausted')
    print('  prefix make_:', [label(c) for c in Spy((A, C, B), {}, 'make_')])
    flush('make_')
    print('  empty prefix:', [label(c) for c in Spy((A,), {}, '')])
    flush('empty prefix')
    print('  non string prefix:', [label(c) for c in Spy((A,), {}, 5)])
    flush('non string prefix')
    failing = iter(Spy((A, Raiser, B), {}))
    print('  before failure:', label(next(failing)))
    attempt('failing init', next, failing)
    attempt('after failure', next, failing)
    flush('failure')
    attempt('types not iterable', iter, Spy(None, {}))
    flush('not iterable')
    attempt('methods without get', list, Spy((A,), None))
    flush('no get')
    attempt('type without name', list, Spy((5,), {}))
    flush('no name')
    attempt('unhashable type', list, Spy(([],), {}))
    flush('unhashable')

    class Defaults(desper.Prototype):
        component_types = [A, A, Falsy, int, str, dict]

    first, second = list(Defaults()), list(Defaults())
    print('  defaults:', [label(c) for c in first],
          'fresh objects:', all(a is not b for a, b
                                in zip(first[:3], second[:3])))

    class Over(ProtoSub):
        component_types = ProtoSub.component_types + (B,)
        init_methods = {int: lambda t: t(-1), B: A}

        def make_C(self, component_type):
            return component_type('over-c')

        def init_B(self, component_type):
            raise AssertionError('wrong prefix')

    print('  override:', [label(c) for c in Over()])
    w = desper.World()
    w.create_entity(*Over(), entity_id='proto')
    dump(w, 'prototype world')


for scenario in (scenario_prototypes, scenario_processor_callbacks,
                 scenario_basic, scenario_ids, scenario_delete,
                 scenario_disabled, scenario_reentrant, scenario_raising,
                 scenario_processors, scenario_controllers):
    scenario()
    assert not LOG, LOG
