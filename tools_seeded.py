#!/venv/bin/python
"""Run checks against the seeded bugs kept under /verif/seeded/<name>/.

usage: tools_seeded.py [name ...]      (default: all)
For each: scratch worktree of /repo under /tmp, apply patch.diff, confirm the
demo fails there (and passes on /repo), run the check of the property the bug
breaks with DESPER_REPO pointing at the worktree, remove the worktree.
Writes seeded/RESULTS.json.  Never touches /repo's working tree."""
import json, os, subprocess, sys, shutil
ROOT = os.path.dirname(os.path.abspath(__file__))
def sh(cmd, **kw):
    return subprocess.run(cmd, shell=True, capture_output=True, text=True, **kw)
names = sys.argv[1:] or sorted(d for d in os.listdir(os.path.join(ROOT, 'seeded'))
                               if os.path.isdir(os.path.join(ROOT, 'seeded', d)))
resf = os.environ.get('SEEDED_OUT') or os.path.join(ROOT, 'seeded', 'RESULTS.json')
results = json.load(open(resf)) if os.path.exists(resf) else {}
for name in names:
    d = os.path.join(ROOT, 'seeded', name)
    meta = json.load(open(os.path.join(d, 'meta.json')))
    wt = '/tmp/wt-seeded-%s-%d' % (name, os.getpid())
    sh('git -C /repo worktree add --detach %s' % wt)
    try:
        r = sh('git -C %s apply %s' % (wt, os.path.join(d, 'patch.diff')))
        if r.returncode:
            results[name] = dict(error='patch does not apply: ' + r.stderr[-300:])
            continue
        tests = sh('cd %s && PYTHONPATH=%s timeout 600 /venv/bin/python -m pytest -q -p no:cacheprovider -x 2>&1 | tail -1' % (wt, wt))
        demo_bad = sh('PYTHONPATH=%s timeout 60 /venv/bin/python %s' % (wt, os.path.join(d, 'demo.py')))
        demo_ok = sh('PYTHONPATH=/repo timeout 60 /venv/bin/python %s' % os.path.join(d, 'demo.py'))
        out = {}
        for pid in meta.get('checks', [meta['property']]):
            if not os.path.exists(os.path.join(ROOT, 'harness', 'props', pid.lower() + '.py')):
                out[pid] = 'no-check-yet'
                continue
            c = sh('cd %s && DESPER_REPO=%s timeout 1800 ./check %s quick' % (ROOT, wt, pid))
            out[pid] = dict(exit=c.returncode,
                            lines=[l for l in c.stdout.split('\n') if l.startswith(('VIOLATION', 'KNOWN'))][:4],
                            err=c.stderr[-300:] if c.returncode == 2 else '')
        results[name] = dict(property=meta['property'], tests=tests.stdout.strip(),
                             demo_fails_with_patch=demo_bad.returncode != 0,
                             demo_passes_without=demo_ok.returncode == 0, checks=out)
        print(name, json.dumps(results[name])[:400])
    finally:
        sh('git -C /repo worktree remove --force %s' % wt)
        shutil.rmtree(wt, ignore_errors=True)
json.dump(results, open(resf, 'w'), indent=1, sort_keys=True)
