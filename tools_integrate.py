#!/venv/bin/python
"""Rebuild coq/_CoqProject from Lib + every coq/theories/*/FILES* list."""
import glob, os
os.chdir(os.path.join(os.path.dirname(os.path.abspath(__file__)), 'coq'))
files = ['theories/Lib/Alist.v', 'theories/Tree/C12Model.v', 'theories/Tree/C12Proofs.v',
         'theories/Props/C12.v']
for fl in [l.strip() for l in open('INTEGRATED') if l.strip()]:
    for ln in open(fl):
        ln = ln.strip()
        if ln and not ln.startswith('#') and ln not in files:
            assert os.path.exists(ln), (fl, ln)
            files.append(ln)
props = [f for f in files if '/Props/' in f]
rest = [f for f in files if '/Props/' not in f]
open('_CoqProject', 'w').write('-Q theories Desper\n' + '\n'.join(rest + props) + '\n')
print(len(files), 'files')
