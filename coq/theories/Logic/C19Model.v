(* C19 - controllers, references and prototypes are faithful shorthands.

   Three parts, one case type:

   A. desper/logic/__init__.py : Controller (entity / world recorded by
      on_add), the six shorthands add_component, remove_component,
      has_component, get_component, get_components, delete, the descriptors
      ComponentReference and ProcessorReference, and desper.controller().
      Each is modelled as the code writes it: a delegation to the World call
      with controller.entity.  The World calls themselves (world.py:
      create_entity, add_component, remove_component, has_component,
      get_component, get_components, delete_entity, process, the
      dispatch_enabled setter as far as the relay of on_add is concerned, and
      the processor part of C07Model) are modelled on the entity table.  A
      trace is run on twin sides A and B, each with two independent Worlds
      (1 and 2) sharing the component and controller instances of the side:
      side A is driven through controllers, side B through the corresponding
      World call, on the world and for the entity of the controller's latest
      delivered on_add.

   B. Prototype.__iter__ : init_methods.get(T, getattr(self, prefix + name, default))(T)

   C. OnUpdateProcessor.process : world.dispatch('on_update', dt)

   Models only: no proofs in this file. *)
From Coq Require Import ZArith List Bool.
From Desper Require Import Lib.Alist Logic.Bisect.
From Desper Require Export Logic.C07Model.
Import ListNotations.
Open Scope Z_scope.

(* ====================================================================== *)
(* Part A: controllers                                                    *)
(* ====================================================================== *)

(* a component instance: its exact class, and whether it is a Controller
   (its __events__ maps on_add; nothing else in these traces is a handler) *)
Record cinst := { k_ty : Z; k_ctrl : bool }.
Definition comps := list (Z * cinst).
Definition cinst_of (K : comps) (c : Z) : cinst :=
  match alookup c K with Some i => i | None => {| k_ty := -1; k_ctrl := false |} end.

(* World calls *)
Inductive wop :=
| WCreate (e : Z) (cs : list Z)        (* create_entity( *cs, entity_id=e) *)
| WAdd (e c : Z)                       (* add_component(e, c) *)
| WRemove (e t : Z)                    (* remove_component(e, T) *)
| WHas (e t : Z)                       (* has_component(e, T) *)
| WGet (e t : Z)                       (* get_component(e, T) *)
| WGetAll (e : Z)                      (* get_components(e) *)
| WDelete (e : Z) (immediate : bool)   (* delete_entity(e, immediate) *)
| WProcess (dt : Z)                    (* process(dt) *)
| WEnable (b : bool)                   (* dispatch_enabled = b *)
| WAddProc (p cur : Z)                 (* add_processor(p); cur = p.priority before the call *)
| WGetProc (t : Z)                     (* get_processor(T) *)
| WRemoveProc (t : Z).                 (* remove_processor(T) *)

(* the same, through a controller *)
Inductive sh :=
| SAdd (c : Z)            (* k.add_component(c) *)
| SRemove (t : Z)         (* k.remove_component(T) *)
| SHas (t : Z)            (* k.has_component(T) *)
| SGet (t : Z)            (* k.get_component(T) *)
| SGetAll                 (* k.get_components() *)
| SDelete                 (* k.delete() *)
| SRefGet (t : Z)         (* k.ref         with ref = ComponentReference(T) *)
| SRefSet (t c : Z)       (* k.ref = c *)
| SRefDel (t : Z)         (* del k.ref *)
| SPRefGet (t : Z)        (* k.pref        with pref = ProcessorReference(T) *)
| SPRefSet (t p cur : Z)  (* k.pref = p *)
| SPRefDel (t : Z).       (* del k.pref *)

Inductive res :=
| RNone                        (* returned None / nothing to return *)
| ROpt (o : option Z)          (* an object (serial number) or None *)
| RBool (b : bool)
| RList (l : list Z)           (* a tuple of components, sorted by serial number *)
| RExn (code : Z).             (* 1 KeyError, 2 AssertionError, 3 other *)

(* what is visible of a world through its public queries, canonicalised *)
Record snap := {
  sn_entities : list Z;               (* world.entities, sorted *)
  sn_comps    : list (list Z);        (* get_components(e) for every e of the pool, each sorted *)
  sn_exists   : list bool;            (* entity_exists(e) for every e of the pool *)
  sn_procs    : list Z;               (* world.processors *)
  sn_prios    : list Z;               (* the priority attribute of each of them, same order *)
  sn_cent     : list (Z * option (Z * Z));
      (* for every controller: its .entity and which of the two worlds its .world is *)
  sn_world    : bool;                 (* no controller's .world is a foreign object *)
}.

(* ---- model state ------------------------------------------------------- *)
Record wstate := {
  ents    : list (Z * list (Z * Z));  (* _entities : entity -> (exact type -> component) *)
  dead    : list Z;                   (* _dead_entities *)
  pst     : C07Model.state;           (* _sorted_processors, _processors *)
  w_en    : bool;                     (* _dispatch_enabled *)
  w_queue : list (Z * Z);             (* relayed on_add: (controller, entity) *)
  cent    : list (Z * (Z * Z));
      (* controller -> its (.entity, .world), written by on_add; the controllers
         belong to no world: both worlds of a side carry the same table *)
  wid     : Z;                        (* which world this is: 1 or 2 *)
}.
Definition winit (j : Z) : wstate :=
  {| ents := []; dead := []; pst := C07Model.init; w_en := true; w_queue := []; cent := [];
     wid := j |}.

Definition set_core (st : wstate) (en : list (Z * list (Z * Z))) (d : list Z) : wstate :=
  {| ents := en; dead := d; pst := pst st; w_en := w_en st; w_queue := w_queue st;
     cent := cent st; wid := wid st |}.
Definition set_pst (st : wstate) (p : C07Model.state) : wstate :=
  {| ents := ents st; dead := dead st; pst := p; w_en := w_en st; w_queue := w_queue st;
     cent := cent st; wid := wid st |}.
Definition set_ev (st : wstate) (en : bool) (q : list (Z * Z)) (ce : list (Z * (Z * Z))) : wstate :=
  {| ents := ents st; dead := dead st; pst := pst st; w_en := en; w_queue := q;
     cent := ce; wid := wid st |}.

Record duo := { d1 : wstate; d2 : wstate }.
Definition dinit : duo := {| d1 := winit 1; d2 := winit 2 |}.

Definition memz (x : Z) (l : list Z) : bool := existsb (Z.eqb x) l.
Definition remz (x : Z) (l : list Z) : list Z := filter (fun y => negb (x =? y)) l.
Definition addz (x : Z) (l : list Z) : list Z := if memz x l then l else l ++ [x].
Definition row (st : wstate) (e : Z) : list (Z * Z) :=
  match alookup e (ents st) with Some r => r | None => [] end.

Fixpoint insert_sorted (x : Z) (l : list Z) : list Z :=
  match l with
  | [] => [x]
  | y :: l' => if x <=? y then x :: l else y :: insert_sorted x l'
  end.
Definition isort (l : list Z) : list Z := fold_right insert_sorted [] l.

Section WorldModel.
Variable H : hier.          (* class -> ancestors, components and processors *)
Variable K : comps.         (* the component instances of the case *)
Variable P : insts.         (* the processor instances of the case *)

(* Controller.on_add(entity, world): direct when enabled, relayed otherwise *)
Definition notify_add_c (st : wstate) (c e : Z) : wstate :=
  if k_ctrl (cinst_of K c) then
    if w_en st then set_ev st (w_en st) (w_queue st) (aset c (e, wid st) (cent st))
    else set_ev st (w_en st) (w_queue st ++ [(c, e)]) (cent st)
  else st.

(* the answer of a walk over the subclasses of T in the row of an entity:
   the component of exactly T if there is one, else the component the
   implementation picked, which must be of a subtype; None only if none is *)
Definition pick_ok (r : list (Z * Z)) (t : Z) (pick : option Z) : option (option (Z * Z)) :=
  match alookup t r with
  | Some c => if opt_eqb pick (Some c) then Some (Some (t, c)) else None
  | None =>
      match pick with
      | None => if forallb (fun tc => negb (issub H (fst tc) t)) r then Some None else None
      | Some c =>
          match find (fun tc => snd tc =? c) r with
          | Some (u, _) => if issub H u t then Some (Some (u, c)) else None
          | None => None
          end
      end
  end.

(* del self._entities[entity][subtype], free the row when empty *)
Definition drop_slot (st : wstate) (e u : Z) : wstate :=
  let r' := adel u (row st e) in
  match r' with
  | [] => set_core st (adel e (ents st)) (remz e (dead st))
  | _ => set_core st (aset e r' (ents st)) (dead st)
  end.

Definition w_remove_component (st : wstate) (e t : Z) (pick : option Z)
  : option (wstate * option Z) :=
  match pick_ok (row st e) t pick with
  | None => None
  | Some None => Some (st, None)
  | Some (Some (u, c)) => Some (drop_slot st e u, Some c)
  end.

Definition put_slot (st : wstate) (e ty c : Z) : wstate :=
  set_core st (aset e (aset ty c (row st e)) (ents st)) (dead st).

Definition w_add_component (st : wstate) (e c : Z) : wstate :=
  let ty := k_ty (cinst_of K c) in
  let st1 :=
    match alookup ty (row st e) with
    | Some _ =>                                   (* replaced component *)
        let was_dead := memz e (dead st) in
        let st' := drop_slot st e ty in
        if was_dead then set_core st' (ents st') (addz e (dead st')) else st'
    | None => st
    end in
  notify_add_c (put_slot st1 e ty c) c e.

Definition w_create_entity (st : wstate) (e : Z) (cs : list Z) : wstate :=
  let st1 := fold_left (fun s c => put_slot s e (k_ty (cinst_of K c)) c) cs st in
  fold_left (fun s c => notify_add_c s c e) cs st1.

Definition w_has_component (st : wstate) (e t : Z) : bool :=
  amem e (ents st) && existsb (fun tc => issub H (fst tc) t) (row st e).

Definition w_get_components (st : wstate) (e : Z) : list Z := isort (map snd (row st e)).

(* _clear_dead_entities: every marked entity goes through the immediate path;
   a marked entity that does not exist makes process() raise - outside this model *)
Definition clear_dead (st : wstate) : option wstate :=
  if forallb (fun e => amem e (ents st)) (dead st)
  then Some (set_core st (filter (fun er => negb (memz (fst er) (dead st))) (ents st)) [])
  else None.

(* one World call; [pick] is the implementation's choice where the walk order matters *)
Definition w_step (st : wstate) (w : wop) (pick : option Z)
  : option (wstate * res * list ev) :=
  match w with
  | WCreate e cs => Some (w_create_entity st e cs, ROpt (Some e), [])
  | WAdd e c => Some (w_add_component st e c, RNone, [])
  | WRemove e t =>
      match w_remove_component st e t pick with
      | Some (st', r) => Some (st', ROpt r, [])
      | None => None
      end
  | WHas e t => Some (st, RBool (w_has_component st e t), [])
  | WGet e t =>
      match pick_ok (row st e) t pick with
      | Some r => Some (st, ROpt (option_map snd r), [])
      | None => None
      end
  | WGetAll e => Some (st, RList (w_get_components st e), [])
  | WDelete e true =>
      if amem e (ents st)
      then Some (set_core st (adel e (ents st)) (remz e (dead st)), RNone, [])
      else Some (st, RExn 1, [])                    (* self._entities.pop(entity): KeyError *)
  | WDelete e false => Some (set_core st (ents st) (addz e (dead st)), RNone, [])
  | WProcess dt =>
      match clear_dead st with
      | Some st' => Some (st', RNone, C07Model.process (pst st') dt)
      | None => None
      end
  | WEnable b =>
      if b then
        Some (set_ev st true []
                (fold_left (fun ce ke => aset (fst ke) (snd ke, wid st) ce) (w_queue st) (cent st)),
              RNone, [])
      else Some (set_ev st false (w_queue st) (cent st), RNone, [])
  | WAddProc p cur =>
      let '(ps, _) := C07Model.add_processor P (pst st) p None cur in
      Some (set_pst st ps, RNone, [])
  | WGetProc t =>
      if C07Model.get_processor H P (pst st) t pick then Some (st, ROpt pick, []) else None
  | WRemoveProc t =>
      match C07Model.remove_processor H P (pst st) t pick with
      | Some (ps, _) => Some (set_pst st ps, ROpt pick, [])
      | None => None
      end
  end.

(* the World call a shorthand stands for, given the entity; [true]: the
   shorthand does not hand the World call's result on *)
Definition lower (s : sh) (e : Z) : wop * bool :=
  match s with
  | SAdd c => (WAdd e c, false)
  | SRemove t => (WRemove e t, false)
  | SHas t => (WHas e t, false)
  | SGet t => (WGet e t, false)
  | SGetAll => (WGetAll e, false)
  | SDelete => (WDelete e false, false)
  | SRefGet t => (WGet e t, false)
  | SRefSet t c => (WAdd e c, false)
  | SRefDel t => (WRemove e t, true)
  | SPRefGet t => (WGetProc t, false)
  | SPRefSet t p cur => (WAddProc p cur, false)
  | SPRefDel t => (WRemoveProc t, true)
  end.

Definition hide (discard : bool) (r : res) : res :=
  match r with RExn _ => r | _ => if discard then RNone else r end.

(* the assertions of the descriptors' __set__: isinstance(value, type) *)
Definition set_guard (s : sh) : bool :=
  match s with
  | SRefSet t c => issub H (k_ty (cinst_of K c)) t
  | SPRefSet t p _ => issub H (i_ty (inst_of P p)) t
  | _ => true
  end.

(* desper.controller(entity, world) *)
Definition mk_controller (st : wstate) (k e : Z) : wstate :=
  set_ev st (w_en st) (w_queue st) (aset k (e, wid st) (cent st)).

(* ---- a side: two worlds and the controllers they share ------------------ *)
Definition norm (j : Z) : Z := if j =? 2 then 2 else 1.
Definition pickw (d : duo) (j : Z) : wstate := if j =? 2 then d2 d else d1 d.
Definition set_cent (st : wstate) (ce : list (Z * (Z * Z))) : wstate :=
  set_ev st (w_en st) (w_queue st) ce.
(* world j moves to st'; the controllers' fields it wrote are the controllers' *)
Definition putw (d : duo) (j : Z) (st' : wstate) : duo :=
  if j =? 2 then {| d1 := set_cent (d1 d) (cent st'); d2 := st' |}
  else {| d1 := st'; d2 := set_cent (d2 d) (cent st') |}.

Definition on_world (d : duo) (j : Z) (w : wop) (discard : bool) (pick : option Z)
  : option (duo * res * list ev) :=
  match w_step (pickw d j) w pick with
  | Some (st', r, log) => Some (putw d j st', hide discard r, log)
  | None => None
  end.

(* a shorthand through controller k, as the code writes it:
   controller.world.<call>(controller.entity, ...) *)
Definition via_controller (d : duo) (k : Z) (s : sh) (pick : option Z)
  : option (duo * res * list ev) :=
  match alookup k (cent (d1 d)) with
  | None => Some (d, RExn 3, [])             (* controller.world is None: AttributeError *)
  | Some (e, j) =>
      if negb (set_guard s) then Some (d, RExn 2, []) else
      on_world d j (fst (lower s e)) (snd (lower s e)) pick
  end.

(* the corresponding World call on world j for entity e, issued directly *)
Definition direct_call (d : duo) (j e : Z) (s : sh) (pick : option Z)
  : option (duo * res * list ev) :=
  on_world d j (fst (lower s e)) (snd (lower s e)) pick.

End WorldModel.

(* ---- traces ------------------------------------------------------------ *)
Inductive cop :=
| ODirect (j : Z) (w : wop)       (* the same World call on world j of both sides *)
| OShort (k e j : Z) (s : sh)     (* s through controller k on side A;
                                     the World call on world j for entity e on side B *)
| OMkCtrl (k e j : Z).            (* k = desper.controller(e, world j), on both sides *)

Record cobs := {
  a_res : res; a_log : list ev; a_snap : snap;     (* side A; the snapshot is of world j *)
  b_res : res; b_log : list ev; b_snap : snap;     (* side B *)
  o_pick : option Z;       (* the component / processor the walk picked (if the call has one) *)
}.
Definition ctrace := list (cop * cobs).

Record ctrl_case := {
  cc_hier : hier; cc_comps : comps; cc_procs : insts;
  cc_pool : list Z;         (* entity ids whose rows are dumped in every snapshot *)
  cc_trace : ctrace;
}.

Definition world_of (o : cop) : Z :=
  match o with ODirect j _ => j | OShort _ _ j _ => j | OMkCtrl _ _ j => j end.

(* the snapshot the model predicts *)
Definition controllers (K : comps) : list Z :=
  map fst (filter (fun kc => k_ctrl (snd kc)) K).
Definition snapshot (K : comps) (pool : list Z) (st : wstate) : snap :=
  {| sn_entities := isort (filter (fun e => negb (memz e (dead st))) (akeys (ents st)));
     sn_comps := map (fun e => isort (map snd (row st e))) pool;
     sn_exists := map (fun e => amem e (ents st) && negb (memz e (dead st))) pool;
     sn_procs := C07Model.processors (pst st);
     sn_prios := map e_prio (sorted (pst st));
     sn_cent := map (fun k => (k, alookup k (cent st))) (controllers K);
     sn_world := true |}.

(* decidable equality of observations *)
Definition res_eqb (a b : res) : bool :=
  match a, b with
  | RNone, RNone => true
  | ROpt x, ROpt y => opt_eqb x y
  | RBool x, RBool y => Bool.eqb x y
  | RList x, RList y => zs_eqb x y
  | RExn x, RExn y => x =? y
  | _, _ => false
  end.
Definition opt2_eqb (a b : option (Z * Z)) : bool :=
  match a, b with
  | Some (x1, x2), Some (y1, y2) => (x1 =? y1) && (x2 =? y2)
  | None, None => true
  | _, _ => false
  end.
Definition cent_eqb (a b : Z * option (Z * Z)) : bool :=
  (fst a =? fst b) && opt2_eqb (snd a) (snd b).
Definition snap_eqb (a b : snap) : bool :=
  zs_eqb (sn_entities a) (sn_entities b)
  && list_eqb zs_eqb (sn_comps a) (sn_comps b)
  && list_eqb Bool.eqb (sn_exists a) (sn_exists b)
  && zs_eqb (sn_procs a) (sn_procs b)
  && zs_eqb (sn_prios a) (sn_prios b)
  && list_eqb cent_eqb (sn_cent a) (sn_cent b)
  && Bool.eqb (sn_world a) (sn_world b).

Definition side_ok (K : comps) (pool : list Z) (j : Z) (r : option (duo * res * list ev))
           (ores : res) (olog : list ev) (osnap : snap) : option duo :=
  match r with
  | Some (d', mres, mlog) =>
      if res_eqb ores mres && evs_eqb olog mlog && snap_eqb osnap (snapshot K pool (pickw d' j))
      then Some d' else None
  | None => None
  end.

Definition side_a (H : hier) (K : comps) (P : insts) (d : duo) (o : cop) (pick : option Z)
  : option (duo * res * list ev) :=
  match o with
  | ODirect j w => on_world H K P d j w false pick
  | OShort k e j s => via_controller H K P d k s pick
  | OMkCtrl k e j => Some (putw d j (mk_controller (pickw d j) k e), RNone, [])
  end.
Definition side_b (H : hier) (K : comps) (P : insts) (d : duo) (o : cop) (pick : option Z)
  : option (duo * res * list ev) :=
  match o with
  | ODirect j w => on_world H K P d j w false pick
  | OShort k e j s => direct_call H K P d j e s pick
  | OMkCtrl k e j => Some (putw d j (mk_controller (pickw d j) k e), RNone, [])
  end.

(* one step of the acceptor on the pair (side A, side B) *)
Definition cstep (c : ctrl_case) (dA dB : duo) (o : cop) (ob : cobs) : option (duo * duo) :=
  let H := cc_hier c in let K := cc_comps c in let P := cc_procs c in
  let pool := cc_pool c in
  match side_ok K pool (world_of o) (side_a H K P dA o (o_pick ob))
                (a_res ob) (a_log ob) (a_snap ob),
        side_ok K pool (world_of o) (side_b H K P dB o (o_pick ob))
                (b_res ob) (b_log ob) (b_snap ob) with
  | Some dA', Some dB' => Some (dA', dB')
  | _, _ => None
  end.

Fixpoint crun (c : ctrl_case) (dA dB : duo) (tr : ctrace) : option (duo * duo) :=
  match tr with
  | [] => Some (dA, dB)
  | (o, ob) :: tr =>
      match cstep c dA dB o ob with
      | Some (a, b) => crun c a b tr
      | None => None
      end
  end.

Definition ctrl_accepts (c : ctrl_case) : bool :=
  match crun c dinit dinit (cc_trace c) with Some _ => true | None => false end.

(* ---- the property (part A), over observations only ---------------------- *)
(* what the history says about the controllers: for each, the entity and the
   world of its latest delivered on_add (or what desper.controller() gave
   it); per world, whether dispatching is enabled and the on_add
   notifications still waiting, in order *)
Record track := {
  t_own : list (Z * (Z * Z));     (* controller -> (entity, world) *)
  t_en1 : bool; t_q1 : list (Z * Z);
  t_en2 : bool; t_q2 : list (Z * Z);
}.
Definition tinit : track := {| t_own := []; t_en1 := true; t_q1 := []; t_en2 := true; t_q2 := [] |}.

(* the part of the history summary one world sees *)
Record evp := { ep_en : bool; ep_q : list (Z * Z); ep_cent : list (Z * (Z * Z)); ep_wid : Z }.
Definition t_evp (t : track) (j : Z) : evp :=
  if j =? 2 then {| ep_en := t_en2 t; ep_q := t_q2 t; ep_cent := t_own t; ep_wid := 2 |}
  else {| ep_en := t_en1 t; ep_q := t_q1 t; ep_cent := t_own t; ep_wid := 1 |}.
Definition t_put (t : track) (j : Z) (p : evp) : track :=
  if j =? 2 then {| t_own := ep_cent p; t_en1 := t_en1 t; t_q1 := t_q1 t;
                    t_en2 := ep_en p; t_q2 := ep_q p |}
  else {| t_own := ep_cent p; t_en1 := ep_en p; t_q1 := ep_q p;
          t_en2 := t_en2 t; t_q2 := t_q2 t |}.

(* component c is attached to entity e of that world: a controller gets
   on_add(e, world) at once when the world dispatches, else when it is enabled again *)
Definition attach (K : comps) (p : evp) (c e : Z) : evp :=
  if k_ctrl (cinst_of K c) then
    if ep_en p then {| ep_en := ep_en p; ep_q := ep_q p;
                       ep_cent := aset c (e, ep_wid p) (ep_cent p); ep_wid := ep_wid p |}
    else {| ep_en := ep_en p; ep_q := ep_q p ++ [(c, e)]; ep_cent := ep_cent p;
            ep_wid := ep_wid p |}
  else p.
Definition world_ev (K : comps) (p : evp) (w : wop) : evp :=
  match w with
  | WCreate e cs => fold_left (fun s c => attach K s c e) cs p
  | WAdd e c => attach K p c e
  | WEnable true =>
      {| ep_en := true; ep_q := [];
         ep_cent := fold_left (fun ce ke => aset (fst ke) (snd ke, ep_wid p) ce) (ep_q p) (ep_cent p);
         ep_wid := ep_wid p |}
  | WEnable false => {| ep_en := false; ep_q := ep_q p; ep_cent := ep_cent p; ep_wid := ep_wid p |}
  | _ => p
  end.
(* the World call a shorthand stands for (add_component, a reference assignment, ...) *)
Definition lowered (s : sh) (e : Z) : wop :=
  match s with
  | SAdd c => WAdd e c
  | SRefSet _ c => WAdd e c
  | _ => WHas e 0          (* any call that attaches nothing *)
  end.
Definition track_step (K : comps) (t : track) (op : cop) : track :=
  match op with
  | ODirect j w => t_put t j (world_ev K (t_evp t j) w)
  | OShort k e j s => t_put t j (world_ev K (t_evp t j) (lowered s e))
  | OMkCtrl k e j =>
      {| t_own := aset k (e, norm j) (t_own t); t_en1 := t_en1 t; t_q1 := t_q1 t;
         t_en2 := t_en2 t; t_q2 := t_q2 t |}
  end.

(* every controller has, as entity and world, those of its latest delivered on_add *)
Definition knows (t : track) (s : snap) : bool :=
  sn_world s &&
  forallb (fun ke => opt2_eqb (snd ke) (alookup (fst ke) (t_own t))) (sn_cent s).

(* result, callbacks and successor state through the controller = those of
   the World call on that world for that entity *)
Definition same_effect (ob : cobs) : bool :=
  res_eqb (a_res ob) (b_res ob) && evs_eqb (a_log ob) (b_log ob)
  && snap_eqb (a_snap ob) (b_snap ob).

Fixpoint ctrl_holds_from (K : comps) (t : track) (tr : ctrace) : bool :=
  match tr with
  | [] => true
  | (op, ob) :: tr =>
      let t' := track_step K t op in
      same_effect ob && knows t' (a_snap ob) && ctrl_holds_from K t' tr
  end.
Definition ctrl_holds_b (c : ctrl_case) : bool := ctrl_holds_from (cc_comps c) tinit (cc_trace c).

(* input domain (part A): a shorthand is used through a controller none of
   whose on_add notifications is still waiting, [e] and world [j] being those
   of its latest delivered on_add; values assigned through a reference are
   instances of the reference's type; processors are not event handlers here *)
Definition sh_wf (H : hier) (K : comps) (P : insts) (s : sh) : bool :=
  match s with
  | SRefSet t c => issub H (k_ty (cinst_of K c)) t
  | SPRefSet t p _ => issub H (i_ty (inst_of P p)) t
  | _ => true
  end.
Definition cop_wf (H : hier) (K : comps) (P : insts) (t : track) (op : cop) : bool :=
  match op with
  | OShort k e j s =>
      opt2_eqb (alookup k (t_own t)) (Some (e, norm j))
      && negb (amem k (t_q1 t)) && negb (amem k (t_q2 t)) && sh_wf H K P s
  | OMkCtrl k _ _ => k_ctrl (cinst_of K k)
  | ODirect _ _ => true
  end.
Fixpoint ctrl_wf_from (H : hier) (K : comps) (P : insts) (t : track) (tr : ctrace) : bool :=
  match tr with
  | [] => true
  | (op, _) :: tr => cop_wf H K P t op && ctrl_wf_from H K P (track_step K t op) tr
  end.
Definition ctrl_wf_b (c : ctrl_case) : bool :=
  forallb (fun pi => negb (i_ev (snd pi))) (cc_procs c)
  && ctrl_wf_from (cc_hier c) (cc_comps c) (cc_procs c) tinit (cc_trace c).

(* ====================================================================== *)
(* Part B: Prototype.__iter__                                             *)
(* ====================================================================== *)
(* a prototype instance as Python reports it *)
Record proto := {
  p_types   : list Z;               (* self.component_types, in order *)
  p_methods : list (Z * Z);         (* self.init_methods : type -> builder *)
  p_prefix  : Z;                    (* self.init_prefix (number of the string) *)
  p_attrs   : list (Z * list (Z * Z));
      (* prefix -> (type name -> builder): the callable attributes of self whose
         name is prefix ++ name *)
  p_default : Z;                    (* self._default_init: 0 = Prototype's own *)
}.
Record tinfo := { t_name : Z;       (* number of the string T.__name__ *)
                  t_nullary : bool  (* T() can be called without arguments *) }.
Definition tinfos := list (Z * tinfo).
Definition tinfo_of (T : tinfos) (t : Z) : tinfo :=
  match alookup t T with Some i => i | None => {| t_name := -1; t_nullary := false |} end.

(* one component produced by an iteration *)
Record made := {
  m_calls : Z;        (* how many builder calls happened while this component was produced *)
  m_fid   : Z;        (* the builder that ran: 0 = the type called without arguments *)
  m_arg   : Z;        (* the type it was given *)
  m_ret   : bool;     (* the object yielded is the object the builder returned *)
  m_fresh : bool;     (* it was never yielded before *)
}.
Record iter_obs := { it_made : list made; it_exn : Z (* 0: exhausted normally; 2: TypeError *) }.

Definition getattr_named (p : proto) (name : Z) : option Z :=
  match alookup (p_prefix p) (p_attrs p) with
  | Some tbl => alookup name tbl
  | None => None
  end.

(* init_methods.get(T, getattr(self, prefix + T.__name__, self._default_init)) *)
Definition builder_for (T : tinfos) (p : proto) (t : Z) : Z :=
  let dflt := match getattr_named p (t_name (tinfo_of T t)) with
              | Some g => g
              | None => p_default p
              end in
  match alookup t (p_methods p) with Some f => f | None => dflt end.

(* the generator: one call per listed type, in order; calling a type that
   needs arguments without any raises TypeError out of the iteration *)
Fixpoint iterate (T : tinfos) (p : proto) (ts : list Z) : list (Z * Z) * Z :=
  match ts with
  | [] => ([], 0)
  | t :: ts =>
      let f := builder_for T p t in
      if (f =? 0) && negb (t_nullary (tinfo_of T t)) then ([], 2)
      else let '(l, x) := iterate T p ts in ((f, t) :: l, x)
  end.

Fixpoint all2 {A B} (f : A -> B -> bool) (l1 : list A) (l2 : list B) : bool :=
  match l1, l2 with
  | [], [] => true
  | x :: l1, y :: l2 => f x y && all2 f l1 l2
  | _, _ => false
  end.

Definition made_ok (m : made) (ft : Z * Z) : bool :=
  (m_calls m =? 1) && (m_fid m =? fst ft) && (m_arg m =? snd ft) && m_ret m && m_fresh m.

Definition iter_accepts (T : tinfos) (p : proto) (ob : iter_obs) : bool :=
  let '(l, x) := iterate T p (p_types p) in
  all2 made_ok (it_made ob) l && (it_exn ob =? x).

Record proto_case := { pc_types : tinfos; pc_protos : list (proto * list iter_obs) }.
Definition proto_accepts (c : proto_case) : bool :=
  forallb (fun po => forallb (iter_accepts (pc_types c) (fst po)) (snd po)) (pc_protos c).

(* the property (part B): for every listed type, in order, one new
   component, built by the entry of init_methods if there is one, else by
   the method named prefix ++ name if there is one, else by calling the type
   (or an overriding _default_init) *)
Definition source_ok (T : tinfos) (p : proto) (t : Z) (m : made) : bool :=
  match alookup t (p_methods p) with
  | Some f => m_fid m =? f
  | None =>
      match getattr_named p (t_name (tinfo_of T t)) with
      | Some g => m_fid m =? g
      | None => m_fid m =? p_default p
      end
  end.
Fixpoint iter_holds (T : tinfos) (p : proto) (ts : list Z) (ms : list made) (exn : Z) : bool :=
  match ts, ms with
  | [], [] => exn =? 0
  | t :: ts, m :: ms =>
      (m_calls m =? 1) && (m_arg m =? t) && m_ret m && m_fresh m && source_ok T p t m
      && iter_holds T p ts ms exn
  | t :: _, [] =>
      (* the iteration may only stop early with the TypeError of calling, without
         arguments, a type that needs some, no other source being there *)
      (exn =? 2) && negb (t_nullary (tinfo_of T t))
      && source_ok T p t {| m_calls := 1; m_fid := 0; m_arg := t; m_ret := true; m_fresh := true |}
  | [], _ :: _ => false
  end.
Definition proto_holds_b (c : proto_case) : bool :=
  forallb (fun po => forallb (fun ob => iter_holds (pc_types c) (fst po) (p_types (fst po))
                                                   (it_made ob) (it_exn ob)) (snd po))
          (pc_protos c).

(* ====================================================================== *)
(* Part C: OnUpdateProcessor                                              *)
(* ====================================================================== *)
Inductive uop :=
| UAddH (h : Z)          (* the handler starts listening to the world (add_handler / as a component) *)
| URemH (h : Z)          (* it stops (remove_handler / its component is removed) *)
| UAddOUP (p : Z)        (* world.add_processor(p), p an OnUpdateProcessor *)
| URemOUP                (* world.remove_processor(OnUpdateProcessor) *)
| UProcess (dt : Z).     (* world.process(dt) *)
(* observation: the on_update calls of the operation, (handler, dt), sorted by handler *)
Definition utrace := list (uop * list (Z * Z)).
Record upd_case := {
  uc_listens : list (Z * bool);   (* handler -> 'on_update' in its __events__ *)
  uc_trace : utrace;
}.
Definition listens (c : upd_case) (h : Z) : bool :=
  match alookup h (uc_listens c) with Some b => b | None => false end.

(* model: _events['on_update'] (a set), _handlers, the OnUpdateProcessor slot *)
Record ustate := { u_events : list Z; u_handlers : list Z; u_oup : option Z }.
Definition uinit : ustate := {| u_events := []; u_handlers := []; u_oup := None |}.

Definition pair_eqb (a b : Z * Z) : bool := (fst a =? fst b) && (snd a =? snd b).

Definition ustep (c : upd_case) (st : ustate) (o : uop) (calls : list (Z * Z)) : option ustate :=
  match o with
  | UAddH h =>        (* add_handler: _events.setdefault(name, set()).add(...); _handlers[ref] = ... *)
      if list_eqb pair_eqb calls [] then
        Some {| u_events := if listens c h then addz h (u_events st) else u_events st;
                u_handlers := addz h (u_handlers st); u_oup := u_oup st |}
      else None
  | URemH h =>        (* _remove_weak_handler: nothing when unknown *)
      if list_eqb pair_eqb calls [] then
        if memz h (u_handlers st) then
          Some {| u_events := remz h (u_events st); u_handlers := remz h (u_handlers st);
                  u_oup := u_oup st |}
        else Some st
      else None
  | UAddOUP p =>
      if list_eqb pair_eqb calls [] then
        Some {| u_events := u_events st; u_handlers := u_handlers st; u_oup := Some p |}
      else None
  | URemOUP =>
      if list_eqb pair_eqb calls [] then
        Some {| u_events := u_events st; u_handlers := u_handlers st; u_oup := None |}
      else None
  | UProcess dt =>
      (* the OnUpdateProcessor's process: self.world.dispatch('on_update', dt) *)
      let expected := match u_oup st with
                      | Some _ => map (fun h => (h, dt)) (isort (u_events st))
                      | None => []
                      end in
      if list_eqb pair_eqb calls expected then Some st else None
  end.
Fixpoint urun (c : upd_case) (st : ustate) (tr : utrace) : option ustate :=
  match tr with
  | [] => Some st
  | (o, calls) :: tr => match ustep c st o calls with Some st' => urun c st' tr | None => None end
  end.
Definition upd_accepts (c : upd_case) : bool :=
  match urun c uinit (uc_trace c) with Some _ => true | None => false end.

(* the property (part C): a frame of a world that has an OnUpdateProcessor
   calls on_update(dt) exactly once on every current listener, and on nobody
   else; no other operation calls on_update *)
Record uspec := { us_listeners : list Z; us_oup : bool }.
Fixpoint count_calls (h : Z) (calls : list (Z * Z)) : Z :=
  match calls with
  | [] => 0
  | (h', _) :: calls => (if h =? h' then 1 else 0) + count_calls h calls
  end.
Definition frame_ok (s : uspec) (dt : Z) (calls : list (Z * Z)) : bool :=
  if us_oup s then
    forallb (fun h => count_calls h calls =? 1) (us_listeners s)
    && forallb (fun hd => memz (fst hd) (us_listeners s) && (snd hd =? dt)) calls
  else list_eqb pair_eqb calls [].
Definition uspec_step (c : upd_case) (s : uspec) (o : uop) (calls : list (Z * Z)) : option uspec :=
  match o with
  | UProcess dt => if frame_ok s dt calls then Some s else None
  | _ =>
      if list_eqb pair_eqb calls [] then
        Some match o with
             | UAddH h => {| us_listeners := if listens c h then addz h (us_listeners s)
                                             else us_listeners s;
                             us_oup := us_oup s |}
             | URemH h => {| us_listeners := remz h (us_listeners s); us_oup := us_oup s |}
             | UAddOUP _ => {| us_listeners := us_listeners s; us_oup := true |}
             | URemOUP => {| us_listeners := us_listeners s; us_oup := false |}
             | UProcess _ => s
             end
      else None
  end.
Fixpoint uspec_run (c : upd_case) (s : uspec) (tr : utrace) : bool :=
  match tr with
  | [] => true
  | (o, calls) :: tr =>
      match uspec_step c s o calls with Some s' => uspec_run c s' tr | None => false end
  end.
Definition upd_holds_b (c : upd_case) : bool :=
  uspec_run c {| us_listeners := []; us_oup := false |} (uc_trace c).

(* ====================================================================== *)
Inductive C19_case :=
| CaseCtrl (c : ctrl_case)
| CaseProto (c : proto_case)
| CaseUpd (c : upd_case).

Definition accepts (c : C19_case) : bool :=
  match c with
  | CaseCtrl c => ctrl_accepts c
  | CaseProto c => proto_accepts c
  | CaseUpd c => upd_accepts c
  end.
Definition holds_b (c : C19_case) : bool :=
  match c with
  | CaseCtrl c => ctrl_holds_b c
  | CaseProto c => proto_holds_b c
  | CaseUpd c => upd_holds_b c
  end.
Definition holds (c : C19_case) : Prop := holds_b c = true.
Definition wf_b (c : C19_case) : bool :=
  match c with
  | CaseCtrl c => ctrl_wf_b c
  | CaseProto _ => true
  | CaseUpd _ => true
  end.
Definition known_b (c : C19_case) : bool := false.

Definition C19_verdict (c : C19_case) : nat :=
  (bit (wf_b c) 1 + bit (known_b c) 2 + bit (accepts c) 4 + bit (holds_b c) 8)%nat.
