(* desper/bisect.py : bisect_right / insort_right with a key function.

   The loop of bisect_right is mirrored statement by statement
   ([while lo < hi: mid = (lo + hi) // 2; if x < key(a[mid]): hi = mid else:
   lo = mid + 1]) with explicit fuel [hi - lo + 1]; [bisect_right_spec] shows
   that the fuel always suffices and that, on a list sorted by key, the
   result is the linear-scan insertion point (all keys before it <= x, all
   keys from it on > x).  [insort_right] is [a.insert(lo, x)].

   This file is pure (no state machine): functions and their theorems. *)
From Coq Require Import ZArith List Bool Lia Arith Sorted.
Import ListNotations.
Open Scope Z_scope.

Section Bisect.
  Context {A : Type}.
  Variable key : A -> Z.

  (* the [while lo < hi] loop; positions are list indices (nat) *)
  Fixpoint bisect_right_loop (fuel : nat) (a : list A) (x : Z) (lo hi : nat) : nat :=
    match fuel with
    | O => lo
    | S fuel =>
        if (lo <? hi)%nat then
          let mid := ((lo + hi) / 2)%nat in
          match nth_error a mid with
          | Some am =>
              if x <? key am then bisect_right_loop fuel a x lo mid
              else bisect_right_loop fuel a x (mid + 1)%nat hi
          | None => lo                  (* IndexError; unreachable for hi <= len(a) *)
          end
        else lo
    end.

  (* bisect_right(a, x, key=key) with the defaults lo = 0, hi = len(a) *)
  Definition bisect_right (a : list A) (x : Z) : nat :=
    bisect_right_loop (length a - 0 + 1) a x 0 (length a).

  (* the buggy sibling, used only to show that the tie order differs *)
  Fixpoint bisect_left_loop (fuel : nat) (a : list A) (x : Z) (lo hi : nat) : nat :=
    match fuel with
    | O => lo
    | S fuel =>
        if (lo <? hi)%nat then
          let mid := ((lo + hi) / 2)%nat in
          match nth_error a mid with
          | Some am =>
              if key am <? x then bisect_left_loop fuel a x (mid + 1)%nat hi
              else bisect_left_loop fuel a x lo mid
          | None => lo
          end
        else lo
    end.
  Definition bisect_left (a : list A) (x : Z) : nat :=
    bisect_left_loop (length a + 1) a x 0 (length a).

  (* list.insert(i, e) for 0 <= i <= len *)
  Definition insert_at (i : nat) (e : A) (a : list A) : list A :=
    firstn i a ++ e :: skipn i a.

  (* insort_right(a, e, key=key): lo = bisect_right(a, key(e), key=key); a.insert(lo, e) *)
  Definition insort_right (a : list A) (e : A) : list A :=
    insert_at (bisect_right a (key e)) e a.

  (* ---- specification ---------------------------------------------------- *)
  Definition key_le (u v : A) : Prop := key u <= key v.
  Definition sorted_by_key (a : list A) : Prop := StronglySorted key_le a.

  Lemma sorted_nth a : sorted_by_key a ->
    forall i j u v, (i <= j)%nat -> nth_error a i = Some u -> nth_error a j = Some v ->
                    key u <= key v.
  Proof.
    induction 1 as [|e a Hs IH Hall]; intros i j u v Hij Hi Hj.
    - destruct i; discriminate.
    - destruct i as [|i]; destruct j as [|j]; cbn [nth_error] in *.
      + injection Hi as <-. injection Hj as <-. lia.
      + injection Hi as <-. apply nth_error_In in Hj.
        rewrite Forall_forall in Hall. apply Hall. exact Hj.
      + lia.
      + apply (IH i j); auto. lia.
  Qed.

  (* the loop invariant: everything left of lo is <= x, everything from hi on is > x *)
  Lemma bisect_right_loop_spec a x : sorted_by_key a ->
    forall fuel lo hi,
      (lo <= hi)%nat -> (hi <= length a)%nat -> (hi - lo < fuel)%nat ->
      (forall j v, (j < lo)%nat -> nth_error a j = Some v -> key v <= x) ->
      (forall j v, (hi <= j)%nat -> nth_error a j = Some v -> x < key v) ->
      let i := bisect_right_loop fuel a x lo hi in
      (lo <= i)%nat /\ (i <= hi)%nat /\
      (forall j v, (j < i)%nat -> nth_error a j = Some v -> key v <= x) /\
      (forall j v, (i <= j)%nat -> nth_error a j = Some v -> x < key v).
  Proof.
    intros Hs. induction fuel as [|fuel IH]; intros lo hi Hlh Hhl Hf Hlo Hhi; [lia|].
    cbn [bisect_right_loop].
    destruct (lo <? hi)%nat eqn:E.
    - apply Nat.ltb_lt in E.
      assert (Hm : (lo <= (lo + hi) / 2 /\ (lo + hi) / 2 < hi)%nat).
      { split.
        - apply Nat.div_le_lower_bound; lia.
        - apply Nat.div_lt_upper_bound; lia. }
      destruct Hm as (Hm1 & Hm2).
      destruct (nth_error a ((lo + hi) / 2)) as [am|] eqn:En.
      2:{ apply nth_error_None in En. lia. }
      destruct (x <? key am) eqn:Ex.
      + apply Z.ltb_lt in Ex.
        specialize (IH lo ((lo + hi) / 2)%nat).
        destruct IH as (H1 & H2 & H3 & H4); try lia; auto.
        { intros j v Hj Hv. pose proof (sorted_nth a Hs _ _ _ _ Hj En Hv). lia. }
        repeat split; auto; lia.
      + apply Z.ltb_ge in Ex.
        specialize (IH ((lo + hi) / 2 + 1)%nat hi).
        destruct IH as (H1 & H2 & H3 & H4); try lia; auto.
        { intros j v Hj Hv.
          assert (Hj' : (j <= (lo + hi) / 2)%nat) by lia.
          pose proof (sorted_nth a Hs _ _ _ _ Hj' Hv En). lia. }
        repeat split; auto; lia.
    - apply Nat.ltb_ge in E. assert (lo = hi) by lia. subst hi.
      repeat split; auto.
  Qed.

  (* bisect_right on a list sorted by key: the documented contract *)
  Theorem bisect_right_spec a x : sorted_by_key a ->
    let i := bisect_right a x in
    (i <= length a)%nat /\
    (forall j v, (j < i)%nat -> nth_error a j = Some v -> key v <= x) /\
    (forall j v, (i <= j)%nat -> nth_error a j = Some v -> x < key v).
  Proof.
    intros Hs. unfold bisect_right.
    assert (H0 : forall j v, (j < 0)%nat -> nth_error a j = Some v -> key v <= x)
      by (intros j v Hj; lia).
    assert (Hn : forall j v, (length a <= j)%nat -> nth_error a j = Some v -> x < key v).
    { intros j v Hj Hv. assert (nth_error a j = None) by (apply nth_error_None; lia).
      congruence. }
    assert (Hf : (length a - 0 < length a - 0 + 1)%nat) by lia.
    destruct (bisect_right_loop_spec a x Hs (length a - 0 + 1) 0 (length a)
                (Nat.le_0_l _) (Nat.le_refl _) Hf H0 Hn) as (_ & H2 & H3 & H4).
    auto.
  Qed.

  Lemma Forall_firstn_nth (P : A -> Prop) a i :
    (forall j v, (j < i)%nat -> nth_error a j = Some v -> P v) -> Forall P (firstn i a).
  Proof.
    revert i. induction a as [|e a IH]; intros i H.
    - rewrite firstn_nil. constructor.
    - destruct i as [|i]; cbn [firstn]; constructor.
      + apply (H 0%nat); [lia|reflexivity].
      + apply IH. intros j v Hj Hv. apply (H (S j)); [lia|exact Hv].
  Qed.

  Lemma Forall_skipn_nth (P : A -> Prop) a i :
    (forall j v, (i <= j)%nat -> nth_error a j = Some v -> P v) -> Forall P (skipn i a).
  Proof.
    revert i. induction a as [|e a IH]; intros i H.
    - rewrite skipn_nil. constructor.
    - destruct i as [|i]; cbn [skipn].
      + constructor.
        * apply (H 0%nat); [lia|reflexivity].
        * apply (IH 0%nat). intros j v Hj Hv. apply (H (S j)); [lia|exact Hv].
      + apply IH. intros j v Hj Hv. apply (H (S j)); [lia|exact Hv].
  Qed.

  (* the same contract on the two halves of the list: binary search finds
     the point a linear scan would find *)
  Corollary bisect_right_split a x : sorted_by_key a ->
    let i := bisect_right a x in
    Forall (fun v => key v <= x) (firstn i a) /\ Forall (fun v => x < key v) (skipn i a).
  Proof.
    intros Hs. destruct (bisect_right_spec a x Hs) as (_ & H1 & H2).
    split; [apply Forall_firstn_nth|apply Forall_skipn_nth]; assumption.
  Qed.

  Lemma sorted_app_inv (l1 l2 : list A) :
    sorted_by_key (l1 ++ l2) -> sorted_by_key l1 /\ sorted_by_key l2.
  Proof.
    induction l1 as [|e l1 IH]; cbn [app]; intros H.
    - split; [constructor|exact H].
    - inversion H as [|? ? Hs Hall]; subst. destruct (IH Hs) as (H1 & H2). split; auto.
      constructor; auto. apply Forall_app in Hall. tauto.
  Qed.

  Lemma sorted_insert (l1 l2 : list A) e :
    sorted_by_key (l1 ++ l2) ->
    Forall (fun v => key v <= key e) l1 -> Forall (fun v => key e < key v) l2 ->
    sorted_by_key (l1 ++ e :: l2).
  Proof.
    induction l1 as [|u l1 IH]; cbn [app]; intros Hs H1 H2.
    - constructor; auto. eapply Forall_impl; [|exact H2]. unfold key_le. intros; lia.
    - inversion Hs as [|? ? Hs' Hall]; subst. inversion H1 as [|? ? Hu H1']; subst.
      apply Forall_app in Hall. destruct Hall as (Ha & Hb).
      constructor.
      + apply IH; assumption.
      + apply Forall_app. split; [assumption|]. constructor; [exact Hu|assumption].
  Qed.

  (* insort keeps the list sorted and is stable: the list is split in two,
     nothing is reordered, equal keys stay in front of the new element *)
  Theorem insort_sorted_stable a e : sorted_by_key a ->
    exists l1 l2, a = l1 ++ l2 /\ insort_right a e = l1 ++ e :: l2 /\
                  Forall (fun v => key v <= key e) l1 /\
                  Forall (fun v => key e < key v) l2 /\
                  sorted_by_key (insort_right a e).
  Proof.
    intros Hs. destruct (bisect_right_split a (key e) Hs) as (H1 & H2).
    exists (firstn (bisect_right a (key e)) a), (skipn (bisect_right a (key e)) a).
    assert (Ha : a = firstn (bisect_right a (key e)) a ++ skipn (bisect_right a (key e)) a)
      by (symmetry; apply firstn_skipn).
    repeat split; auto.
    unfold insort_right, insert_at. apply sorted_insert; auto. now rewrite <- Ha.
  Qed.

End Bisect.
