(* C07 - proofs: every trace accepted by the model of the processor part of
   World satisfies the property (refinement between the model state and the
   history summary of the specification, induction over the trace). *)
From Coq Require Import ZArith List Bool Lia ZifyBool Sorted Permutation.
From Desper Require Import Lib.Alist Logic.Bisect Logic.C07Model.
Import ListNotations.
Open Scope Z_scope.

(* ---- boolean equalities ------------------------------------------------ *)
Lemma opt_eqb_eq a b : opt_eqb a b = true <-> a = b.
Proof.
  destruct a as [x|], b as [y|]; cbn [opt_eqb]; split; intros H; try discriminate; auto.
  - apply Z.eqb_eq in H. now subst.
  - injection H as ->. apply Z.eqb_refl.
Qed.

Lemma ev_eqb_eq a b : ev_eqb a b = true <-> a = b.
Proof.
  destruct a, b; cbn [ev_eqb]; split; intros H; try discriminate.
  - apply Z.eqb_eq in H. now subst.
  - injection H as ->. apply Z.eqb_refl.
  - apply Z.eqb_eq in H. now subst.
  - injection H as ->. apply Z.eqb_refl.
  - apply andb_true_iff in H. destruct H as (H1 & H2).
    apply Z.eqb_eq in H1, H2. now subst.
  - injection H as -> ->. now rewrite !Z.eqb_refl.
Qed.

Lemma list_eqb_eq {A} (eqb : A -> A -> bool) :
  (forall a b, eqb a b = true <-> a = b) ->
  forall l1 l2, list_eqb eqb l1 l2 = true <-> l1 = l2.
Proof.
  intros Heq. induction l1 as [|x l1 IH]; destruct l2 as [|y l2]; cbn [list_eqb];
    split; intros H; try discriminate; auto.
  - apply andb_true_iff in H. destruct H as (H1 & H2).
    apply Heq in H1. apply IH in H2. now subst.
  - injection H as -> ->. apply andb_true_iff. split; [now apply Heq|now apply IH].
Qed.

Lemma evs_eqb_eq l1 l2 : evs_eqb l1 l2 = true <-> l1 = l2.
Proof. apply list_eqb_eq. exact ev_eqb_eq. Qed.
Lemma zs_eqb_eq l1 l2 : zs_eqb l1 l2 = true <-> l1 = l2.
Proof. apply list_eqb_eq. exact Z.eqb_eq. Qed.
Lemma evs_eqb_refl l : evs_eqb l l = true.
Proof. now apply evs_eqb_eq. Qed.

(* ---- generic list lemmas ----------------------------------------------- *)
Lemma Permutation_filter {A} (f : A -> bool) l1 l2 :
  Permutation l1 l2 -> Permutation (filter f l1) (filter f l2).
Proof.
  induction 1 as [|x l1 l2 HP IH|x y l|l1 l2 l3 H1 IH1 H2 IH2]; cbn [filter].
  - constructor.
  - destruct (f x); auto.
  - destruct (f x), (f y); auto. constructor.
  - eapply perm_trans; eauto.
Qed.

Lemma StronglySorted_filter {A} (R : A -> A -> Prop) (f : A -> bool) l :
  StronglySorted R l -> StronglySorted R (filter f l).
Proof.
  induction 1 as [|a l Hs IH Hall]; cbn [filter]; [constructor|].
  destruct (f a); auto. constructor; auto.
  rewrite Forall_forall in *. intros x Hx. apply filter_In in Hx. apply Hall. tauto.
Qed.

Lemma StronglySorted_insert {A} (R : A -> A -> Prop) l1 l2 e :
  StronglySorted R (l1 ++ l2) -> Forall (fun a => R a e) l1 -> Forall (R e) l2 ->
  StronglySorted R (l1 ++ e :: l2).
Proof.
  induction l1 as [|u l1 IH]; cbn [app]; intros Hs H1 H2.
  - constructor; auto.
  - apply StronglySorted_inv in Hs. destruct Hs as (Hs & Hall).
    inversion H1 as [|? ? Hu H1']; subst.
    apply Forall_app in Hall. destruct Hall as (Ha & Hb).
    constructor.
    + apply IH; assumption.
    + apply Forall_app. split; [assumption|]. constructor; assumption.
Qed.

Lemma find_app {A} (f : A -> bool) l1 l2 :
  find f (l1 ++ l2) = match find f l1 with Some x => Some x | None => find f l2 end.
Proof.
  induction l1 as [|x l1 IH]; cbn [app find]; auto. destruct (f x); auto.
Qed.

Lemma find_none_iff {A} (f : A -> bool) l :
  find f l = None <-> (forall x, In x l -> f x = false).
Proof.
  split; [apply find_none|].
  induction l as [|x l IH]; cbn [find]; intros H; auto.
  rewrite (H x (or_introl eq_refl)). apply IH. intros y Hy. apply H. now right.
Qed.

Lemma filter_all {A} (f : A -> bool) l : (forall x, In x l -> f x = true) -> filter f l = l.
Proof.
  induction l as [|x l IH]; cbn [filter]; intros H; auto.
  rewrite (H x (or_introl eq_refl)). f_equal. apply IH. intros y Hy. apply H. now right.
Qed.

Lemma filter_map_comm {A B} (g : B -> bool) (f : A -> B) l :
  filter g (map f l) = map f (filter (fun x => g (f x)) l).
Proof.
  induction l as [|x l IH]; cbn [map filter]; auto.
  destruct (g (f x)); cbn [map]; now rewrite IH.
Qed.

Lemma NoDup_map_filter {A B} (g : A -> B) (f : A -> bool) l :
  NoDup (map g l) -> NoDup (map g (filter f l)).
Proof.
  induction l as [|x l IH]; cbn [map filter]; intros H; auto.
  inversion H as [|? ? Hn Hd]; subst. destruct (f x); cbn [map]; auto.
  constructor; auto. intros Hin. apply Hn.
  apply in_map_iff in Hin. destruct Hin as (y & Hy & Hin). apply filter_In in Hin.
  apply in_map_iff. exists y. tauto.
Qed.

Lemma existsb_eqb_In x l : existsb (Z.eqb x) l = true <-> In x l.
Proof.
  rewrite existsb_exists. split.
  - intros (y & Hy & E). apply Z.eqb_eq in E. now subst.
  - intros H. exists x. split; auto. apply Z.eqb_refl.
Qed.

Lemma nodupb_NoDup l : NoDup l -> nodupb l = true.
Proof.
  induction 1 as [|x l Hn Hd IH]; cbn [nodupb]; auto.
  rewrite IH, andb_true_r. apply negb_true_iff.
  destruct (existsb (Z.eqb x) l) eqn:E; auto. apply existsb_eqb_In in E. contradiction.
Qed.

Lemma nodupb_true l : nodupb l = true -> NoDup l.
Proof.
  induction l as [|x l IH]; cbn [nodupb]; intros H; constructor.
  - apply andb_true_iff in H. destruct H as (H & _). apply negb_true_iff in H.
    intros Hin. apply existsb_eqb_In in Hin. congruence.
  - apply IH. apply andb_true_iff in H. tauto.
Qed.

(* ---- the refinement relation ------------------------------------------- *)
Definition forget (s : sentry) : entry :=
  {| e_pid := s_pid s; e_ty := s_ty s; e_prio := s_prio s |}.
Definition skey (s : sentry) : Z * Z := (s_prio s, s_age s).
Definition slt (a b : sentry) : Prop := lex_lt (skey a) (skey b) = true.

Section WithInsts.
Variable H : hier.
Variable I : insts.

(* the lists of the model against the registered set of the specification:
   the execution list is the registered set, strictly sorted by (priority,
   time of adding); the dict maps each registered exact type to its processor *)
Definition RL (srt : list entry) (prc : list (Z * Z)) (r : list sentry) (c : Z) : Prop :=
  (exists L, srt = map forget L /\ Permutation L r /\ StronglySorted slt L) /\
  NoDup (map s_ty r) /\
  (forall s, In s r -> s_ty s = i_ty (inst_of I (s_pid s))) /\
  (forall s, In s r -> s_age s < c) /\
  (forall t, alookup t prc = option_map s_pid (find_ty t r)).

Definition R (st : state) (ss : sstate) : Prop :=
  RL (sorted st) (procs st) (reg ss) (clock ss) /\
  enabled st = s_enabled ss /\ queue st = owed ss.

Lemma R_init : R init sinit.
Proof.
  repeat split; cbn; auto.
  - exists []. repeat split; auto; constructor.
  - constructor.
  - intros s [].
  - intros s [].
Qed.

(* ---- facts about a registered set with one entry per type -------------- *)
Lemma ty_inj r a b :
  NoDup (map s_ty r) -> In a r -> In b r -> s_ty a = s_ty b -> a = b.
Proof.
  induction r as [|x r IH]; cbn [map In]; intros Hd Ha Hb E; [contradiction|].
  inversion Hd as [|? ? Hn Hd']; subst.
  destruct Ha as [<-|Ha], Hb as [<-|Hb]; auto.
  - exfalso. apply Hn. rewrite E. now apply in_map.
  - exfalso. apply Hn. rewrite <- E. now apply in_map.
Qed.

Lemma find_ty_in r s : NoDup (map s_ty r) -> In s r -> find_ty (s_ty s) r = Some s.
Proof.
  intros Hd Hs. unfold find_ty. destruct (find _ r) as [m|] eqn:E.
  - apply find_some in E. destruct E as (Hm & E). apply Z.eqb_eq in E.
    f_equal. eapply ty_inj; eauto.
  - eapply find_none in E; eauto. cbn in E. rewrite Z.eqb_refl in E. discriminate.
Qed.

Lemma find_ty_some t r s : find_ty t r = Some s -> In s r /\ s_ty s = t.
Proof.
  unfold find_ty. intros E. apply find_some in E. destruct E as (Hs & E).
  apply Z.eqb_eq in E. tauto.
Qed.

Lemma pid_inj r a b :
  NoDup (map s_ty r) -> (forall s, In s r -> s_ty s = i_ty (inst_of I (s_pid s))) ->
  In a r -> In b r -> s_pid a = s_pid b -> a = b.
Proof.
  intros Hd Hty Ha Hb E. eapply ty_inj; eauto.
  rewrite (Hty a Ha), (Hty b Hb), E. reflexivity.
Qed.

Lemma find_pid_in r s :
  NoDup (map s_ty r) -> (forall s, In s r -> s_ty s = i_ty (inst_of I (s_pid s))) ->
  In s r -> find_pid (s_pid s) r = Some s.
Proof.
  intros Hd Hty Hs. unfold find_pid. destruct (find _ r) as [m|] eqn:E.
  - apply find_some in E. destruct E as (Hm & E). apply Z.eqb_eq in E.
    f_equal. eapply pid_inj; eauto.
  - eapply find_none in E; eauto. cbn in E. rewrite Z.eqb_refl in E. discriminate.
Qed.

(* removing by instance = removing by exact type *)
Lemma filter_pid_ty r s :
  NoDup (map s_ty r) -> (forall s, In s r -> s_ty s = i_ty (inst_of I (s_pid s))) ->
  In s r ->
  filter (fun x => negb (s_pid x =? s_pid s)) r = filter (fun x => negb (s_ty x =? s_ty s)) r.
Proof.
  intros Hd Hty Hs. apply filter_ext_in. intros x Hx. f_equal.
  destruct (s_pid x =? s_pid s) eqn:E1, (s_ty x =? s_ty s) eqn:E2; auto.
  - apply Z.eqb_eq in E1. apply Z.eqb_neq in E2. exfalso. apply E2.
    rewrite (Hty x Hx), (Hty s Hs), E1. reflexivity.
  - apply Z.eqb_neq in E1. apply Z.eqb_eq in E2. exfalso. apply E1.
    f_equal. eapply ty_inj; eauto.
Qed.

Lemma find_ty_filter t u r :
  find_ty t (filter (fun x => negb (s_ty x =? u)) r) = if t =? u then None else find_ty t r.
Proof.
  unfold find_ty. induction r as [|x r IH]; cbn [filter find].
  - now destruct (t =? u).
  - destruct (s_ty x =? u) eqn:E1; cbn [negb find].
    + rewrite IH. destruct (t =? u) eqn:E2; auto.
      destruct (s_ty x =? t) eqn:E3; auto. lia.
    + destruct (s_ty x =? t) eqn:E3; auto.
      destruct (t =? u) eqn:E2; auto. lia.
Qed.

(* ---- remove: filter by exact type -------------------------------------- *)
Lemma RL_remove srt prc r c u :
  RL srt prc r c ->
  RL (filter (fun e => negb (e_ty e =? u)) srt) (adel u prc)
     (filter (fun x => negb (s_ty x =? u)) r) c.
Proof.
  intros ((L & HL & HP & HS) & Hd & Hty & Hage & Hprc).
  repeat split.
  - exists (filter (fun x => negb (s_ty x =? u)) L). repeat split.
    + subst srt. apply (filter_map_comm (fun e => negb (e_ty e =? u)) forget).
    + now apply Permutation_filter.
    + now apply StronglySorted_filter.
  - now apply NoDup_map_filter.
  - intros s Hs. apply filter_In in Hs. apply Hty. tauto.
  - intros s Hs. apply filter_In in Hs. apply Hage. tauto.
  - intros t. rewrite alookup_adel, find_ty_filter, Hprc. now destruct (t =? u).
Qed.

(* ---- add: insort_right puts the newest after everything of priority <= -- *)
Lemma slt_sorted_key L :
  StronglySorted slt L -> sorted_by_key e_prio (map forget L).
Proof.
  induction 1 as [|a L Hs IH Hall]; cbn [map]; constructor; auto.
  rewrite Forall_forall in *. intros e He. apply in_map_iff in He.
  destruct He as (b & <- & Hb). specialize (Hall b Hb).
  unfold key_le, slt, lex_lt, skey in *. cbn [forget e_prio fst snd] in *. lia.
Qed.

Lemma RL_add srt prc r c p ty prio :
  RL srt prc r c -> (forall s, In s r -> s_ty s <> ty) -> ty = i_ty (inst_of I p) ->
  RL (insort_right e_prio srt {| e_pid := p; e_ty := ty; e_prio := prio |})
     (aset ty p prc)
     (r ++ [{| s_pid := p; s_ty := ty; s_prio := prio; s_age := c |}]) (c + 1).
Proof.
  intros ((L & HL & HP & HS) & Hd & Hty & Hage & Hprc) Hfresh Ety.
  set (new := {| s_pid := p; s_ty := ty; s_prio := prio; s_age := c |}).
  set (e := {| e_pid := p; e_ty := ty; e_prio := prio |}).
  repeat split.
  - subst srt.
    destruct (insort_sorted_stable e_prio (map forget L) e (slt_sorted_key L HS))
      as (l1 & l2 & Hsplit & Hins & H1 & H2 & _).
    apply map_eq_app in Hsplit. destruct Hsplit as (La & Lb & -> & <- & <-).
    exists (La ++ new :: Lb). repeat split.
    + rewrite Hins, map_app. reflexivity.
    + eapply perm_trans; [apply Permutation_sym, Permutation_middle|].
      eapply perm_trans; [|apply Permutation_cons_append]. now constructor.
    + apply StronglySorted_insert; auto.
      * rewrite Forall_forall in *. intros a Ha.
        assert (Hin : In a r) by (eapply Permutation_in; [exact HP|]; apply in_or_app; auto).
        specialize (Hage a Hin). specialize (H1 (forget a) (in_map forget _ _ Ha)).
        unfold slt, lex_lt, skey. cbn [forget e_prio e new s_prio s_age fst snd] in *. lia.
      * rewrite Forall_forall in *. intros b Hb.
        specialize (H2 (forget b) (in_map forget _ _ Hb)).
        unfold slt, lex_lt, skey. cbn [forget e_prio e new s_prio s_age fst snd] in *. lia.
  - rewrite map_app. cbn [map]. apply NoDup_snoc; auto.
    intros Hin. apply in_map_iff in Hin. destruct Hin as (s & E & Hs). now apply (Hfresh s).
  - intros s Hs. apply in_app_iff in Hs. destruct Hs as [Hs|[<-|[]]]; auto.
  - intros s Hs. apply in_app_iff in Hs. destruct Hs as [Hs|[<-|[]]].
    + specialize (Hage s Hs). lia.
    + cbn. lia.
  - intros t. rewrite alookup_aset. unfold find_ty. rewrite find_app. fold (find_ty t r).
    destruct (t =? ty) eqn:E.
    + apply Z.eqb_eq in E. subst t.
      assert (Hn : find_ty ty r = None).
      { apply find_none_iff. intros x Hx. apply Z.eqb_neq. now apply Hfresh. }
      rewrite Hn. cbn. now rewrite Z.eqb_refl.
    + rewrite Hprc. destruct (find_ty t r); auto. cbn. rewrite Z.eqb_sym, E. reflexivity.
Qed.

(* ---- the observed list satisfies the declarative order check ----------- *)
Lemma keys_of_map r L :
  (forall s, In s L -> find_pid (s_pid s) r = Some s) ->
  keys_of r (map s_pid L) = Some (map skey L).
Proof.
  induction L as [|s L IH]; cbn [map keys_of]; intros Hf; auto.
  rewrite (Hf s (or_introl eq_refl)), IH; auto. intros x Hx. apply Hf. now right.
Qed.

Lemma increasing_sorted L : StronglySorted slt L -> increasing (map skey L) = true.
Proof.
  induction 1 as [|a L Hs IH Hall]; cbn [map increasing]; auto.
  destruct L as [|b L]; cbn [map]; auto. cbn [map] in IH. rewrite IH, andb_true_r.
  inversion Hall; subst. assumption.
Qed.

Lemma RL_order_ok srt prc r c : RL srt prc r c -> order_ok I r (map e_pid srt) = true.
Proof.
  intros ((L & HL & HP & HS) & Hd & Hty & Hage & Hprc). subst srt.
  rewrite map_map. cbn [forget e_pid]. unfold order_ok.
  rewrite keys_of_map.
  2:{ intros s Hs. apply find_pid_in; auto. eapply Permutation_in; eauto. }
  rewrite increasing_sorted by assumption.
  rewrite map_length, (Permutation_length HP), Z.eqb_refl. cbn [andb].
  apply nodupb_NoDup. rewrite map_map.
  rewrite (map_ext_in _ s_ty).
  - eapply Permutation_NoDup; [apply Permutation_map, Permutation_sym, HP|assumption].
  - intros s Hs. symmetry. apply Hty. eapply Permutation_in; eauto.
Qed.

(* ---- notifications: direct when enabled, relayed otherwise ------------- *)
Definition emitted (en : bool) (q q' : list ev) (log evs : list ev) : Prop :=
  if en then log = evs /\ q' = q else log = [] /\ q' = q ++ evs.

Lemma emitted_trans en q q1 q2 l1 l2 e1 e2 :
  emitted en q q1 l1 e1 -> emitted en q1 q2 l2 e2 -> emitted en q q2 (l1 ++ l2) (e1 ++ e2).
Proof.
  unfold emitted. destruct en; intros (-> & ->) (-> & ->); split; auto.
  now rewrite app_assoc.
Qed.

Lemma emitted_nil en q : emitted en q q [] [].
Proof. unfold emitted. destruct en; split; auto. now rewrite app_nil_r. Qed.

Lemma notify_remove_spec i q st st' log :
  notify_remove i q st = (st', log) ->
  sorted st' = sorted st /\ procs st' = procs st /\ enabled st' = enabled st /\
  emitted (enabled st) (queue st) (queue st') log (if has_rm i then [ERemove q] else []).
Proof.
  unfold notify_remove, has_rm, emitted.
  destruct (i_ev i), (i_rm i), (enabled st) eqn:E; cbn [negb andb]; intros [= <- <-];
    cbn [sorted procs enabled queue enqueue]; rewrite ?E, ?app_nil_r; auto.
Qed.

Lemma notify_add_spec i p st st' log :
  notify_add i p st = (st', log) ->
  sorted st' = sorted st /\ procs st' = procs st /\ enabled st' = enabled st /\
  emitted (enabled st) (queue st) (queue st') log (if has_add i then [EAdd p] else []).
Proof.
  unfold notify_add, has_add, emitted.
  destruct (i_ev i), (i_add i), (enabled st) eqn:E; cbn [negb andb]; intros [= <- <-];
    cbn [sorted procs enabled queue enqueue]; rewrite ?E, ?app_nil_r; auto.
Qed.

Lemma do_remove_spec st u q st' log :
  do_remove I st u q = (st', log) ->
  sorted st' = filter (fun e => negb (e_ty e =? u)) (sorted st) /\
  procs st' = adel u (procs st) /\ enabled st' = enabled st /\
  emitted (enabled st) (queue st) (queue st') log (on_remove_of I q).
Proof.
  unfold do_remove. intros E. apply notify_remove_spec in E.
  cbn [set_lists sorted procs enabled queue] in E. exact E.
Qed.

Lemma deliver_emitted ss st st' r c evs log :
  enabled st = s_enabled ss -> queue st = owed ss -> enabled st' = enabled st ->
  emitted (enabled st) (queue st) (queue st') log evs ->
  exists ss', deliver ss r c evs log = Some ss' /\ reg ss' = r /\ clock ss' = c /\
              enabled st' = s_enabled ss' /\ queue st' = owed ss'.
Proof.
  intros He Hq He' Hem. unfold deliver, emitted in *. rewrite <- He.
  destruct (enabled st); destruct Hem as (-> & Hq').
  - rewrite evs_eqb_refl. eexists; split; [reflexivity|]. cbn. repeat split; congruence.
  - rewrite evs_eqb_refl. eexists; split; [reflexivity|]. cbn. repeat split; congruence.
Qed.

(* ---- answers of the type walk ------------------------------------------ *)
Lemma forallb_procs_reg prc r t :
  NoDup (map s_ty r) ->
  (forall t, alookup t prc = option_map s_pid (find_ty t r)) ->
  forallb (fun tq : Z * Z => negb (issub H (fst tq) t)) prc = true ->
  forallb (fun s => negb (issub H (s_ty s) t)) r = true.
Proof.
  intros Hd Hprc Hf. rewrite forallb_forall in *. intros s Hs.
  pose proof (Hprc (s_ty s)) as E. rewrite (find_ty_in r s Hd Hs) in E. cbn in E.
  apply alookup_In in E. exact (Hf _ E).
Qed.

Lemma get_answer_ok srt prc r c st t ret :
  RL srt prc r c -> procs st = prc ->
  get_processor H I st t ret = true -> answer_ok H r t ret = true.
Proof.
  intros (_ & Hd & Hty & _ & Hprc) <-. unfold get_processor, answer_ok.
  rewrite Hprc. destruct (find_ty t r) as [s|] eqn:E; cbn [option_map]; auto.
  destruct ret as [q|].
  - intros Hq. apply andb_true_iff in Hq. destruct Hq as (Hsub & Hq).
    apply opt_eqb_eq in Hq. rewrite Hprc in Hq.
    destruct (find_ty (i_ty (inst_of I q)) r) as [s|] eqn:E2; [|discriminate].
    cbn in Hq. injection Hq as <-. apply find_ty_some in E2. destruct E2 as (Hs & E2).
    rewrite (find_pid_in r s Hd Hty Hs). now rewrite E2.
  - apply forallb_procs_reg; auto.
Qed.

(* remove_processor against the specification *)
Lemma remove_sim st ss t ret st' log :
  R st ss -> remove_processor H I st t ret = Some (st', log) ->
  answer_ok H (reg ss) t ret = true /\
  RL (sorted st') (procs st')
     (match ret with
      | Some q => filter (fun s => negb (s_pid s =? q)) (reg ss)
      | None => reg ss
      end) (clock ss) /\
  enabled st' = enabled st /\
  emitted (enabled st) (queue st) (queue st') log
          (match ret with Some q => on_remove_of I q | None => [] end).
Proof.
  intros (HRL & He & Hq) Hrm.
  assert (Hans : answer_ok H (reg ss) t ret = true).
  { eapply get_answer_ok; [exact HRL|reflexivity|].
    unfold remove_processor in Hrm. unfold get_processor.
    destruct (alookup t (procs st)) as [q|].
    - destruct (opt_eqb ret (Some q)); [reflexivity|discriminate].
    - destruct ret as [q|].
      + destruct (issub H _ t && opt_eqb _ (Some q)); [reflexivity|discriminate].
      + destruct (forallb _ (procs st)); [reflexivity|discriminate]. }
  split; [exact Hans|].
  pose proof HRL as (_ & Hd & Hty & _ & Hprc).
  unfold remove_processor in Hrm. rewrite Hprc in Hrm.
  destruct (find_ty t (reg ss)) as [s|] eqn:E; cbn [option_map] in Hrm.
  - destruct (opt_eqb ret (Some (s_pid s))) eqn:Er; [|discriminate].
    apply opt_eqb_eq in Er. subst ret. injection Hrm as Hrm.
    apply do_remove_spec in Hrm. destruct Hrm as (Hs1 & Hs2 & Hs3 & Hs4).
    apply find_ty_some in E. destruct E as (Hin & <-).
    rewrite Hs1, Hs2, (filter_pid_ty _ s Hd Hty Hin).
    split; [now apply RL_remove|split; auto].
  - destruct ret as [q|].
    + destruct (issub H (i_ty (inst_of I q)) t) eqn:Hsub; cbn [andb] in Hrm; [|discriminate].
      destruct (opt_eqb _ (Some q)) eqn:Er; [|discriminate].
      apply opt_eqb_eq in Er. rewrite Hprc in Er.
      destruct (find_ty (i_ty (inst_of I q)) (reg ss)) as [s|] eqn:E2; [|discriminate].
      cbn in Er. injection Er as <-. injection Hrm as Hrm.
      apply do_remove_spec in Hrm. destruct Hrm as (Hs1 & Hs2 & Hs3 & Hs4).
      apply find_ty_some in E2. destruct E2 as (Hin & E2).
      rewrite Hs1, Hs2, (filter_pid_ty _ s Hd Hty Hin), E2.
      split; [now apply RL_remove|split; auto].
    + destruct (forallb _ (procs st)); [|discriminate]. injection Hrm as <- <-.
      split; [exact HRL|split; [reflexivity|apply emitted_nil]].
Qed.

(* add_processor against the specification *)
Lemma add_sim st ss p explicit cur st' log :
  R st ss -> add_processor I st p explicit cur = (st', log) ->
  let ty := i_ty (inst_of I p) in
  let prio := match explicit with Some x => x | None => cur end in
  RL (sorted st') (procs st')
     (filter (fun s => negb (s_ty s =? ty)) (reg ss)
      ++ [{| s_pid := p; s_ty := ty; s_prio := prio; s_age := clock ss |}]) (clock ss + 1) /\
  enabled st' = enabled st /\
  emitted (enabled st) (queue st) (queue st') log
          (match find_ty ty (reg ss) with Some s => on_remove_of I (s_pid s) | None => [] end
           ++ on_add_of I p).
Proof.
  intros (HRL & He & Hq) Hadd ty prio.
  pose proof HRL as (_ & Hd & Hty & _ & Hprc).
  unfold add_processor in Hadd. fold ty in Hadd. fold prio in Hadd.
  destruct (match alookup ty (procs st) with
            | Some q => do_remove I st ty q
            | None => (st, [])
            end) as [st1 log1] eqn:E1.
  destruct (notify_add (inst_of I p) p _) as [st3 log2] eqn:E3.
  injection Hadd as <- <-.
  apply notify_add_spec in E3. cbn [set_lists sorted procs enabled queue] in E3.
  destruct E3 as (Hs3 & Hp3 & He3 & Hem3).
  assert (H1 : RL (sorted st1) (procs st1)
                  (filter (fun s => negb (s_ty s =? ty)) (reg ss)) (clock ss) /\
               enabled st1 = enabled st /\
               emitted (enabled st) (queue st) (queue st1) log1
                 (match find_ty ty (reg ss) with
                  | Some s => on_remove_of I (s_pid s) | None => [] end)).
  { rewrite Hprc in E1. destruct (find_ty ty (reg ss)) as [s|] eqn:E; cbn [option_map] in E1.
    - apply do_remove_spec in E1. destruct E1 as (Hs1 & Hs2 & Hs3' & Hs4).
      rewrite Hs1, Hs2. split; [now apply RL_remove|split; auto].
    - injection E1 as <- <-. split; [|split; [reflexivity|apply emitted_nil]].
      rewrite filter_all; auto.
      intros x Hx. apply negb_true_iff.
      exact (proj1 (find_none_iff _ _) E x Hx). }
  destruct H1 as (HRL1 & He1 & Hem1).
  rewrite Hs3, Hp3. split; [|split].
  - apply RL_add; auto.
    intros s Hs. apply filter_In in Hs. destruct Hs as (_ & Hs).
    apply negb_true_iff in Hs. now apply Z.eqb_neq.
  - congruence.
  - eapply emitted_trans; [exact Hem1|]. rewrite <- He1. exact Hem3.
Qed.

(* ---- one step, the whole trace ----------------------------------------- *)
Lemma step_sim st ss o ob st' :
  R st ss -> step H I st o ob = Some st' ->
  exists ss', spec_step H I ss o ob = Some ss' /\ R st' ss'.
Proof.
  intros HR Hstep. pose proof HR as (HRL & He & Hq).
  unfold step in Hstep. unfold spec_step.
  destruct (negb (o_exn ob =? 0)); [discriminate|].
  destruct o as [p explicit cur|t|t|b].
  - (* add_processor *)
    destruct (negb (declared I p)); [discriminate|].
    destruct (add_processor I st p explicit cur) as [st1 log] eqn:Ea.
    destruct (evs_eqb (o_log ob) log) eqn:E1; cbn [andb] in Hstep; [|discriminate].
    destruct (zs_eqb (o_procs ob) (processors st1)) eqn:E2; cbn [andb] in Hstep; [|discriminate].
    destruct (o_flag ob) eqn:E3; cbn [andb] in Hstep; [|discriminate].
    destruct (opt_eqb (o_ret ob) None); [|discriminate]. injection Hstep as <-.
    apply evs_eqb_eq in E1. apply zs_eqb_eq in E2.
    destruct (add_sim _ _ _ _ _ _ _ HR Ea) as (HRL1 & He1 & Hem).
    match type of HRL1 with RL _ _ ?r _ =>
      destruct (deliver_emitted ss st st1 r (clock ss + 1) _ _ He Hq He1 Hem)
        as (ss' & Hd & Hr & Hc & He' & Hq') end.
    rewrite E1, Hd. rewrite Hr, E2. unfold processors.
    rewrite (RL_order_ok _ _ _ _ HRL1).
    exists ss'. split; [reflexivity|]. unfold R. rewrite Hr, Hc. auto.
  - (* remove_processor *)
    destruct (remove_processor H I st t (o_ret ob)) as [[st1 log]|] eqn:Er; [|discriminate].
    destruct (evs_eqb (o_log ob) log) eqn:E1; cbn [andb] in Hstep; [|discriminate].
    destruct (zs_eqb (o_procs ob) (processors st1)) eqn:E2; cbn [andb] in Hstep; [|discriminate].
    destruct (o_flag ob) eqn:E3; [|discriminate]. injection Hstep as <-.
    apply evs_eqb_eq in E1. apply zs_eqb_eq in E2.
    destruct (remove_sim _ _ _ _ _ _ HR Er) as (Hans & HRL1 & He1 & Hem).
    rewrite Hans.
    destruct (o_ret ob) as [q|].
    + match type of HRL1 with RL _ _ ?r _ =>
        destruct (deliver_emitted ss st st1 r (clock ss) _ _ He Hq He1 Hem)
          as (ss' & Hd & Hr & Hc & He' & Hq') end.
      rewrite E1, Hd, Hr, E2. unfold processors. rewrite (RL_order_ok _ _ _ _ HRL1).
      exists ss'. split; [reflexivity|]. unfold R. rewrite Hr, Hc. auto.
    + destruct (deliver_emitted ss st st1 (reg ss) (clock ss) _ _ He Hq He1 Hem)
        as (ss' & Hd & Hr & Hc & He' & Hq').
      rewrite E1, Hd, Hr, E2. unfold processors. rewrite (RL_order_ok _ _ _ _ HRL1).
      exists ss'. split; [reflexivity|]. unfold R. rewrite Hr, Hc. auto.
  - (* get_processor *)
    destruct (get_processor H I st t (o_ret ob)) eqn:Eg; cbn [andb] in Hstep; [|discriminate].
    destruct (evs_eqb (o_log ob) []) eqn:E1; cbn [andb] in Hstep; [|discriminate].
    destruct (zs_eqb (o_procs ob) (processors st)) eqn:E2; cbn [andb] in Hstep; [|discriminate].
    destruct (o_flag ob); [|discriminate]. injection Hstep as <-.
    apply zs_eqb_eq in E2.
    rewrite (get_answer_ok _ _ _ _ st t _ HRL eq_refl Eg). cbn [andb].
    rewrite E2. unfold processors. rewrite (RL_order_ok _ _ _ _ HRL).
    exists ss. auto.
  - (* dispatch_enabled = b *)
    unfold set_enabled in Hstep. destruct b.
    + destruct (evs_eqb (o_log ob) (queue st)) eqn:E1; cbn [andb] in Hstep; [|discriminate].
      unfold processors in Hstep. cbn [sorted] in Hstep.
      destruct (zs_eqb (o_procs ob) _) eqn:E2; cbn [andb] in Hstep; [|discriminate].
      destruct (o_flag ob); cbn [andb] in Hstep; [|discriminate].
      destruct (opt_eqb (o_ret ob) None); [|discriminate]. injection Hstep as <-.
      apply zs_eqb_eq in E2. rewrite <- Hq, E1. cbn [reg].
      rewrite E2, (RL_order_ok _ _ _ _ HRL).
      eexists. split; [reflexivity|]. repeat split; cbn; auto; apply HRL.
    + destruct (evs_eqb (o_log ob) []) eqn:E1; cbn [andb] in Hstep; [|discriminate].
      unfold processors in Hstep. cbn [sorted] in Hstep.
      destruct (zs_eqb (o_procs ob) _) eqn:E2; cbn [andb] in Hstep; [|discriminate].
      destruct (o_flag ob); cbn [andb] in Hstep; [|discriminate].
      destruct (opt_eqb (o_ret ob) None); [|discriminate]. injection Hstep as <-.
      apply zs_eqb_eq in E2. cbn [reg].
      rewrite E2, (RL_order_ok _ _ _ _ HRL).
      eexists. split; [reflexivity|]. repeat split; cbn; auto; apply HRL.
Qed.

(* every accepted operation reports world.processors of the model state *)
Lemma step_procs st o ob st' : step H I st o ob = Some st' -> o_procs ob = processors st'.
Proof.
  unfold step. destruct (negb (o_exn ob =? 0)); [discriminate|].
  destruct o as [p explicit cur|t|t|b].
  - destruct (negb (declared I p)); [discriminate|].
    destruct (add_processor I st p explicit cur) as [st1 log].
    destruct (evs_eqb (o_log ob) log); cbn [andb]; [|discriminate].
    destruct (zs_eqb (o_procs ob) (processors st1)) eqn:E; cbn [andb]; [|discriminate].
    destruct (o_flag ob && opt_eqb (o_ret ob) None); [|discriminate].
    intros [= <-]. now apply zs_eqb_eq.
  - destruct (remove_processor H I st t (o_ret ob)) as [[st1 log]|]; [|discriminate].
    destruct (evs_eqb (o_log ob) log); cbn [andb]; [|discriminate].
    destruct (zs_eqb (o_procs ob) (processors st1)) eqn:E; cbn [andb]; [|discriminate].
    destruct (o_flag ob); [|discriminate]. intros [= <-]. now apply zs_eqb_eq.
  - destruct (get_processor H I st t (o_ret ob) && evs_eqb (o_log ob) []); cbn [andb];
      [|discriminate].
    destruct (zs_eqb (o_procs ob) (processors st)) eqn:E; cbn [andb]; [|discriminate].
    destruct (o_flag ob); [|discriminate]. intros [= <-]. now apply zs_eqb_eq.
  - destruct (set_enabled st b) as [st1 log].
    destruct (evs_eqb (o_log ob) log); cbn [andb]; [|discriminate].
    destruct (zs_eqb (o_procs ob) (processors st1)) eqn:E; cbn [andb]; [|discriminate].
    destruct (o_flag ob && opt_eqb (o_ret ob) None); [|discriminate].
    intros [= <-]. now apply zs_eqb_eq.
Qed.

(* ---- frames -------------------------------------------------------------- *)
Lemma acts_sim acts : forall st ss st',
  R st ss -> run_acts H I st acts = Some st' ->
  exists ss', spec_acts H I ss acts = Some ss' /\ R st' ss'.
Proof.
  induction acts as [|[o ob] acts IH]; intros st ss st' HR Hrun; cbn [run_acts spec_acts] in *.
  - injection Hrun as <-. eauto.
  - destruct (step H I st o ob) as [st1|] eqn:Es; [|discriminate].
    destruct (step_sim _ _ _ _ _ HR Es) as (ss1 & -> & HR1). eauto.
Qed.

(* the membership test of process() is "still registered" *)
Lemma registered_is_reg st ss e :
  R st ss -> e_ty e = i_ty (inst_of I (e_pid e)) -> registered st e = is_reg ss (e_pid e).
Proof.
  intros ((_ & Hd & Hty & _ & Hprc) & _) He. unfold registered, is_reg. rewrite Hprc.
  destruct (find_pid (e_pid e) (reg ss)) as [s|] eqn:Ep.
  - unfold find_pid in Ep. apply find_some in Ep. destruct Ep as (Hs & Ep).
    apply Z.eqb_eq in Ep.
    assert (Et : s_ty s = e_ty e) by (rewrite He, <- Ep; now apply Hty).
    rewrite <- Et, (find_ty_in _ s Hd Hs). cbn [option_map]. rewrite Ep. now apply opt_eqb_eq.
  - destruct (find_ty (e_ty e) (reg ss)) as [s|] eqn:Et; cbn [option_map]; auto.
    destruct (opt_eqb (Some (s_pid s)) (Some (e_pid e))) eqn:Eq; auto.
    apply opt_eqb_eq in Eq. injection Eq as Eq.
    apply find_ty_some in Et. destruct Et as (Hs & _).
    pose proof (find_pid_in _ s Hd Hty Hs) as Hf. rewrite Eq in Hf. congruence.
Qed.

Lemma frame_sim dt snap : forall st ss bs st',
  R st ss -> Forall (fun e => e_ty e = i_ty (inst_of I (e_pid e))) snap ->
  run_frame H I dt snap st bs = Some st' ->
  exists ss', spec_frame H I dt (map e_pid snap) ss bs = Some ss' /\ R st' ss'.
Proof.
  induction snap as [|e snap IH]; intros st ss bs st' HR Hsnap Hrun;
    cbn [run_frame spec_frame map] in *.
  - destruct bs; [|discriminate]. injection Hrun as <-. eauto.
  - inversion Hsnap as [|? ? He Hsnap']; subst.
    rewrite <- (registered_is_reg st ss e HR He).
    destruct (registered st e).
    + destruct bs as [|b bs]; [discriminate|].
      destruct ((b_pid b =? e_pid e) && (b_dt b =? dt)); [|discriminate].
      destruct (run_acts H I st (b_acts b)) as [st1|] eqn:Ea; [|discriminate].
      destruct (acts_sim _ _ _ _ HR Ea) as (ss1 & -> & HR1). eauto.
    + eauto.
Qed.

Lemma sorted_typed st ss :
  R st ss -> Forall (fun e => e_ty e = i_ty (inst_of I (e_pid e))) (sorted st).
Proof.
  intros (((L & HL & HP & _) & _ & Hty & _) & _). rewrite HL. apply Forall_forall.
  intros e He. apply in_map_iff in He. destruct He as (s & <- & Hs). cbn [forget e_ty e_pid].
  apply Hty. eapply Permutation_in; eauto.
Qed.

Lemma istep_sim st ss it st' :
  R st ss -> istep H I st it = Some st' ->
  exists ss', spec_istep H I ss (processors st) it = Some (ss', processors st') /\ R st' ss'.
Proof.
  intros HR Hs. destruct it as [o ob|dt bs ob]; cbn [istep spec_istep] in *.
  - destruct (step_sim _ _ _ _ _ HR Hs) as (ss' & -> & HR').
    rewrite (step_procs _ _ _ _ Hs). eauto.
  - destruct (run_frame H I dt (sorted st) st bs) as [st1|] eqn:Ef; [|discriminate].
    destruct (o_exn ob =? 0) eqn:Ex; cbn [andb negb] in *; [|discriminate].
    destruct (evs_eqb (o_log ob) []); cbn [andb] in Hs; [|discriminate].
    destruct (zs_eqb (o_procs ob) (processors st1)) eqn:Ep; cbn [andb] in Hs; [|discriminate].
    destruct (o_flag ob && opt_eqb (o_ret ob) None); [|discriminate]. injection Hs as <-.
    apply zs_eqb_eq in Ep.
    destruct (frame_sim dt _ _ _ _ _ HR (sorted_typed _ _ HR) Ef) as (ss' & Hsf & HR').
    unfold processors at 1. rewrite Hsf, Ep. unfold processors at 1.
    destruct HR' as (HRL' & He' & Hq'). rewrite (RL_order_ok _ _ _ _ HRL').
    exists ss'. split; [reflexivity|]. split; auto.
Qed.

Lemma run_sim tr : forall st ss st',
  R st ss -> run H I st tr = Some st' -> spec_run H I ss (processors st) tr = true.
Proof.
  induction tr as [|it tr IH]; intros st ss st' HR Hrun; cbn [run spec_run] in *; auto.
  destruct (istep H I st it) as [st1|] eqn:Es; [|discriminate].
  destruct (istep_sim _ _ _ _ HR Es) as (ss1 & -> & HR1). eauto.
Qed.

End WithInsts.

Theorem accepts_holds c : accepts c = true -> holds c.
Proof.
  unfold accepts, holds, holds_b.
  destruct (run (c_hier c) (c_insts c) init (c_trace c)) as [st'|] eqn:E; [|discriminate].
  intros _. exact (run_sim _ _ _ _ _ _ (R_init _) E).
Qed.

(* ---- what [order_ok] says, in terms of lists ---------------------------- *)
Lemma keys_of_inv r l : forall ks, keys_of r l = Some ks ->
  exists L, l = map s_pid L /\ ks = map skey L /\ incl L r.
Proof.
  induction l as [|p l IH]; cbn [keys_of]; intros ks Hk.
  - injection Hk as <-. exists []. repeat split; auto. intros x [].
  - destruct (find_pid p r) as [s|] eqn:E; [|discriminate].
    destruct (keys_of r l) as [ks'|]; [|discriminate]. injection Hk as <-.
    destruct (IH ks' eq_refl) as (L & -> & -> & Hin).
    unfold find_pid in E. apply find_some in E. destruct E as (Hs & E). apply Z.eqb_eq in E.
    exists (s :: L). cbn [map]. repeat split; auto; [now rewrite E|].
    intros x [<-|Hx]; auto.
Qed.

Lemma slt_trans a b c : slt a b -> slt b c -> slt a c.
Proof. unfold slt, lex_lt, skey. cbn [fst snd]. lia. Qed.

Lemma slt_irrefl a : ~ slt a a.
Proof. unfold slt, lex_lt, skey. cbn [fst snd]. lia. Qed.

Lemma increasing_strongly L : increasing (map skey L) = true -> StronglySorted slt L.
Proof.
  induction L as [|a L IH]; cbn [map increasing]; intros Hi; [constructor|].
  destruct L as [|b L]; cbn [map] in *.
  - constructor; constructor.
  - apply andb_true_iff in Hi. destruct Hi as (Hab & Hi). specialize (IH Hi).
    constructor; auto. constructor; [exact Hab|].
    apply StronglySorted_inv in IH. destruct IH as (_ & Hall).
    eapply Forall_impl; [|exact Hall]. intros c Hc. eapply slt_trans; eauto.
Qed.

Lemma slt_sorted_NoDup L : StronglySorted slt L -> NoDup L.
Proof.
  induction 1 as [|a L Hs IH Hall]; constructor; auto.
  intros Hin. rewrite Forall_forall in Hall. exact (slt_irrefl a (Hall a Hin)).
Qed.

(* an observed list passes [order_ok] exactly when it enumerates the
   registered set, each processor once, in strictly increasing (priority,
   time of adding), all of different exact types *)
Theorem order_ok_meaning I r l : order_ok I r l = true ->
  exists L, l = map s_pid L /\ Permutation L r /\ StronglySorted slt L /\
            NoDup (map (fun p => i_ty (inst_of I p)) l).
Proof.
  unfold order_ok. intros Ho. apply andb_true_iff in Ho. destruct Ho as (Ho & Hnd).
  apply andb_true_iff in Ho. destruct Ho as (Hk & Hlen).
  destruct (keys_of r l) as [ks|] eqn:E; [|discriminate].
  destruct (keys_of_inv r l ks E) as (L & -> & -> & Hin).
  pose proof (increasing_strongly L Hk) as HS.
  exists L. repeat split; auto.
  - apply NoDup_Permutation_bis; auto.
    + now apply slt_sorted_NoDup.
    + rewrite map_length in Hlen. lia.
  - now apply nodupb_true.
Qed.

(* ---- what a frame is, in terms of lists ---------------------------------- *)
(* the processors that ran are a subsequence of the start-of-frame order, all with dt *)
Inductive subseq {A} : list A -> list A -> Prop :=
| sub_nil : subseq [] []
| sub_skip x l1 l2 : subseq l1 l2 -> subseq l1 (x :: l2)
| sub_take x l1 l2 : subseq l1 l2 -> subseq (x :: l1) (x :: l2).

Theorem frame_meaning H I dt order : forall ss bs ss',
  spec_frame H I dt order ss bs = Some ss' ->
  subseq (map b_pid bs) order /\ Forall (fun b => b_dt b = dt) bs.
Proof.
  induction order as [|p order IH]; intros ss bs ss' Hf; cbn [spec_frame] in Hf.
  - destruct bs; [|discriminate]. split; constructor.
  - destruct (is_reg ss p).
    + destruct bs as [|b bs]; [discriminate|].
      destruct (b_pid b =? p) eqn:E1; cbn [andb] in Hf; [|discriminate].
      destruct (b_dt b =? dt) eqn:E2; [|discriminate].
      destruct (spec_acts H I ss (b_acts b)) as [ss1|]; [|discriminate].
      destruct (IH _ _ _ Hf) as (Hs & Hd). apply Z.eqb_eq in E1, E2. cbn [map]. rewrite E1.
      split; [now apply sub_take|constructor; auto].
    + destruct (IH _ _ _ Hf) as (Hs & Hd). split; auto. now constructor.
Qed.

(* a frame whose bodies leave the world alone: exactly the start-of-frame
   list, each once, in that order, with dt *)
Theorem frame_plain_meaning H I dt order : forall ss bs ss',
  (forall p, In p order -> is_reg ss p = true) ->
  Forall (fun b => b_acts b = []) bs ->
  spec_frame H I dt order ss bs = Some ss' ->
  ss' = ss /\ map b_pid bs = order /\ Forall (fun b => b_dt b = dt) bs.
Proof.
  induction order as [|p order IH]; intros ss bs ss' Hreg Hplain Hf; cbn [spec_frame] in Hf.
  - destruct bs; [|discriminate]. injection Hf as <-. repeat split; constructor.
  - rewrite (Hreg p (or_introl eq_refl)) in Hf.
    destruct bs as [|b bs]; [discriminate|].
    destruct (b_pid b =? p) eqn:E1; cbn [andb] in Hf; [|discriminate].
    destruct (b_dt b =? dt) eqn:E2; [|discriminate].
    inversion Hplain as [|? ? Hb Hplain']; subst. rewrite Hb in Hf. cbn [spec_acts] in Hf.
    destruct (IH ss bs ss') as (-> & Hm & Hd); auto.
    { intros q Hq. apply Hreg. now right. }
    apply Z.eqb_eq in E1, E2. cbn [map]. rewrite E1, Hm. repeat split; auto.
Qed.
