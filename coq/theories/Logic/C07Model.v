(* C07 - processors run once per frame in priority order, one per type.

   Model of desper/logic/world.py: add_processor, remove_processor,
   get_processor, processors, process (processor part) and of the
   "call directly when enabled / relay through on_single_dispatch when
   disabled" blocks that add_processor / remove_processor contain, together
   with the dispatch_enabled setter as far as these relays are concerned.
   desper/bisect.py is Logic/Bisect.v.

   Callbacks are data.  on_add / on_remove doubles only log ([EAdd p] /
   [ERemove p]).  A processor body (its process(dt)) runs a script of
   add_processor / remove_processor / get_processor / dispatch_enabled
   actions on its own world: a frame is observed as the list of bodies that
   ran, each with the actions it performed and what was observed of each
   (log-driven: the actions are the user's code, the model replays them).
   process() as repaired (commit 3cbc7cb) iterates over a snapshot of the
   sorted list and calls a processor only if it is still the registered one
   of its type.  world.process() from inside a processor stays outside.

   Models only: no proofs in this file. *)
From Coq Require Import ZArith List Bool.
From Desper Require Import Lib.Alist Logic.Bisect.
Import ListNotations.
Open Scope Z_scope.

(* ---- inputs ------------------------------------------------------------ *)
(* a processor instance: its exact class and what its class declares *)
Record inst := {
  i_ty  : Z;        (* type(p) *)
  i_ev  : bool;     (* hasattr(p, '__events__') *)
  i_add : bool;     (* 'on_add' in p.__events__ *)
  i_rm  : bool;     (* 'on_remove' in p.__events__ *)
}.
Definition insts := list (Z * inst).
Definition no_inst := {| i_ty := -1; i_ev := false; i_add := false; i_rm := false |}.
Definition inst_of (I : insts) (p : Z) : inst :=
  match alookup p I with Some i => i | None => no_inst end.
Definition has_add (i : inst) : bool := i_ev i && i_add i.
Definition has_rm (i : inst) : bool := i_ev i && i_rm i.

(* class hierarchy as Python reports it: class -> all its ancestors among the
   processor classes of the case, itself included (its __mro__).  The theorem
   holds for every such table; which classes are subclasses of which is the
   language's business, not desper's. *)
Definition hier := list (Z * list Z).
Definition issub (H : hier) (u t : Z) : bool :=
  match alookup u H with Some anc => existsb (Z.eqb t) anc | None => false end.

Inductive ev :=
| EAdd (p : Z)                 (* p's on_add callback ran *)
| ERemove (p : Z)              (* p's on_remove callback ran *)
| ERun (p : Z) (dt : Z).       (* p.process(dt) ran; dt in eighths *)

Inductive op :=
| OAdd (p : Z) (explicit : option Z) (cur : Z)
      (* world.add_processor(p) / add_processor(p, explicit); cur is the value of
         p.priority (class or instance level) read just before the call *)
| ORemove (t : Z)              (* world.remove_processor(T) *)
| OGet (t : Z)                 (* world.get_processor(T) *)
| OEnable (b : bool).          (* world.dispatch_enabled = b *)

(* what the harness observes of one operation *)
Record obs := {
  o_exn   : Z;            (* 0: returned normally; otherwise an exception (1 KeyError, 2 Assertion, 3 other, 9 hang) *)
  o_ret   : option Z;     (* ORemove / OGet: the processor returned *)
  o_log   : list ev;      (* callbacks that ran during the operation, in order *)
  o_procs : list Z;       (* world.processors read right after the operation *)
  o_flag  : bool;         (* OAdd: p.world is this world;  otherwise true *)
}.
(* one processor body that ran in a frame: who, with which dt, and the
   actions it performed on the world, each with its observation *)
Record body := { b_pid : Z; b_dt : Z; b_acts : list (op * obs) }.

Inductive item :=
| Step (o : op) (ob : obs)                      (* an operation issued at top level *)
| Frame (dt : Z) (bs : list body) (ob : obs).   (* world.process(dt): the bodies that ran, in order;
                                                   ob: outcome and world.processors afterwards *)
Definition trace := list item.

(* ---- decidable equalities on observations ------------------------------ *)
Definition opt_eqb (a b : option Z) : bool :=
  match a, b with
  | Some x, Some y => x =? y
  | None, None => true
  | _, _ => false
  end.
Definition ev_eqb (a b : ev) : bool :=
  match a, b with
  | EAdd p, EAdd q => p =? q
  | ERemove p, ERemove q => p =? q
  | ERun p d, ERun q e => (p =? q) && (d =? e)
  | _, _ => false
  end.
Fixpoint list_eqb {A} (eqb : A -> A -> bool) (l1 l2 : list A) : bool :=
  match l1, l2 with
  | [], [] => true
  | x :: l1, y :: l2 => eqb x y && list_eqb eqb l1 l2
  | _, _ => false
  end.
Definition evs_eqb := list_eqb ev_eqb.
Definition zs_eqb := list_eqb Z.eqb.

(* ---- model state: the fields of World that matter ---------------------- *)
Record entry := { e_pid : Z; e_ty : Z; e_prio : Z }.   (* a processor in the list, its type, its priority *)
Record state := {
  sorted  : list entry;        (* _sorted_processors *)
  procs   : list (Z * Z);      (* _processors : exact type -> instance *)
  enabled : bool;              (* _dispatch_enabled *)
  queue   : list ev;           (* _event_queue: relayed (on_add | on_remove, handler) *)
}.
Definition init : state := {| sorted := []; procs := []; enabled := true; queue := [] |}.

Definition set_lists (st : state) (s : list entry) (p : list (Z * Z)) : state :=
  {| sorted := s; procs := p; enabled := enabled st; queue := queue st |}.
Definition enqueue (st : state) (e : ev) : state :=
  {| sorted := sorted st; procs := procs st; enabled := enabled st; queue := queue st ++ [e] |}.

(* event handling block of remove_processor:
     if not hasattr(removed, '__events__'): return removed
     if 'on_remove' in removed.__events__ and self._dispatch_enabled: removed.on_remove()
     elif 'on_remove' in removed.__events__: self.dispatch('on_single_dispatch', 'on_remove', removed)
     self.remove_handler(removed) *)
Definition notify_remove (i : inst) (q : Z) (st : state) : state * list ev :=
  if negb (i_ev i) then (st, [])
  else if i_rm i && enabled st then (st, [ERemove q])
  else if i_rm i then (enqueue st (ERemove q), [])
  else (st, []).

(* event handling block of add_processor:
     if hasattr(processor, '__events__'):
         self.add_handler(processor)
         if 'on_add' in processor.__events__ and self._dispatch_enabled: processor.on_add()
         elif 'on_add' in processor.__events__ and not self._dispatch_enabled:
             self.dispatch('on_single_dispatch', 'on_add', processor) *)
Definition notify_add (i : inst) (p : Z) (st : state) : state * list ev :=
  if i_ev i then
    if i_add i && enabled st then (st, [EAdd p])
    else if i_add i && negb (enabled st) then (enqueue st (EAdd p), [])
    else (st, [])
  else (st, []).

(* the body of remove_processor once the walk has found [subtype] in
   _processors: filter the list by exact type, delete the dict entry, notify *)
Definition do_remove (I : insts) (st : state) (subtype : Z) (removed : Z) : state * list ev :=
  let st1 := set_lists st (filter (fun e => negb (e_ty e =? subtype)) (sorted st))
                       (adel subtype (procs st)) in
  notify_remove (inst_of I removed) removed st1.

(* remove_processor(T).  The fringe walk pops T itself first, so a processor
   of exactly T is the answer when there is one.  Otherwise the walk goes
   through the subclasses in an order the property leaves open: the model
   takes the processor the implementation returned ([chosen]) and checks that
   it is a registered processor of a subtype of T; None is right only when
   no registered type is a subtype of T. *)
Definition remove_processor (H : hier) (I : insts) (st : state) (t : Z) (chosen : option Z)
  : option (state * list ev) :=
  match alookup t (procs st) with
  | Some q => if opt_eqb chosen (Some q) then Some (do_remove I st t q) else None
  | None =>
      match chosen with
      | None =>
          if forallb (fun tq => negb (issub H (fst tq) t)) (procs st) then Some (st, []) else None
      | Some q =>
          let u := i_ty (inst_of I q) in
          if issub H u t && opt_eqb (alookup u (procs st)) (Some q)
          then Some (do_remove I st u q) else None
      end
  end.

(* get_processor(T): the same walk, nothing changes *)
Definition get_processor (H : hier) (I : insts) (st : state) (t : Z) (chosen : option Z) : bool :=
  match alookup t (procs st) with
  | Some q => opt_eqb chosen (Some q)
  | None =>
      match chosen with
      | None => forallb (fun tq => negb (issub H (fst tq) t)) (procs st)
      | Some q =>
          let u := i_ty (inst_of I q) in
          issub H u t && opt_eqb (alookup u (procs st)) (Some q)
      end
  end.

(* add_processor(processor, priority) *)
Definition add_processor (I : insts) (st : state) (p : Z) (explicit : option Z) (cur : Z)
  : state * list ev :=
  let i := inst_of I p in
  let ty := i_ty i in                                   (* processor_type = type(processor) *)
  let '(st1, log1) :=
    match alookup ty (procs st) with                    (* if processor_type in self._processors: *)
    | Some q => do_remove I st ty q                     (*     self.remove_processor(processor_type) *)
    | None => (st, [])
    end in
  let prio := match explicit with                       (* if priority is not None: *)
              | Some x => x                             (*     processor.priority = priority *)
              | None => cur
              end in
  let e := {| e_pid := p; e_ty := ty; e_prio := prio |} in
  let st2 := set_lists st1 (insort_right e_prio (sorted st1) e)   (* bisect.insort(..., key=lambda p: p.priority) *)
                       (aset ty p (procs st1)) in       (* self._processors[processor_type] = processor *)
  (* processor.world = self : observed as o_flag *)
  let '(st3, log2) := notify_add i p st2 in
  (st3, log1 ++ log2).

(* the dispatch_enabled setter: release the relayed callbacks in order *)
Definition set_enabled (st : state) (b : bool) : state * list ev :=
  if b then ({| sorted := sorted st; procs := procs st; enabled := true; queue := [] |}, queue st)
  else ({| sorted := sorted st; procs := procs st; enabled := false; queue := queue st |}, []).

(* the test of process(): self._processors.get(type(processor)) is processor *)
Definition registered (st : state) (e : entry) : bool :=
  opt_eqb (alookup (e_ty e) (procs st)) (Some (e_pid e)).

(* process(dt) when the bodies do not touch the world (used by C19): every
   processor of the list that is registered, in list order, with dt *)
Definition process (st : state) (dt : Z) : list ev :=
  map (fun e => ERun (e_pid e) dt) (filter (registered st) (sorted st)).

(* World.processors *)
Definition processors (st : state) : list Z := map e_pid (sorted st).

Definition declared (I : insts) (p : Z) : bool := amem p I.

(* one step of the acceptor: the model's result compared with the observation *)
Definition step (H : hier) (I : insts) (st : state) (o : op) (ob : obs) : option state :=
  if negb (o_exn ob =? 0) then None else
  match o with
  | OAdd p explicit cur =>
      if negb (declared I p) then None else
      let '(st', log) := add_processor I st p explicit cur in
      if evs_eqb (o_log ob) log && zs_eqb (o_procs ob) (processors st') && o_flag ob
         && opt_eqb (o_ret ob) None
      then Some st' else None
  | ORemove t =>
      match remove_processor H I st t (o_ret ob) with
      | Some (st', log) =>
          if evs_eqb (o_log ob) log && zs_eqb (o_procs ob) (processors st') && o_flag ob
          then Some st' else None
      | None => None
      end
  | OGet t =>
      if get_processor H I st t (o_ret ob) && evs_eqb (o_log ob) []
         && zs_eqb (o_procs ob) (processors st) && o_flag ob
      then Some st else None
  | OEnable b =>
      let '(st', log) := set_enabled st b in
      if evs_eqb (o_log ob) log && zs_eqb (o_procs ob) (processors st') && o_flag ob
         && opt_eqb (o_ret ob) None
      then Some st' else None
  end.

(* the actions of one body, replayed in order *)
Fixpoint run_acts (H : hier) (I : insts) (st : state) (acts : list (op * obs)) : option state :=
  match acts with
  | [] => Some st
  | (o, ob) :: acts =>
      match step H I st o ob with Some st' => run_acts H I st' acts | None => None end
  end.

(* process(dt):
     for processor in tuple(self._sorted_processors):            -- [snap]
         if self._processors.get(type(processor)) is processor:  -- [registered]
             processor.process(dt)                               -- the next observed body
   Every body that ran must be the one the loop calls next, with this dt. *)
Fixpoint run_frame (H : hier) (I : insts) (dt : Z) (snap : list entry) (st : state)
         (bs : list body) : option state :=
  match snap with
  | [] => match bs with [] => Some st | _ :: _ => None end
  | e :: snap =>
      if registered st e then
        match bs with
        | b :: bs =>
            if (b_pid b =? e_pid e) && (b_dt b =? dt) then
              match run_acts H I st (b_acts b) with
              | Some st' => run_frame H I dt snap st' bs
              | None => None
              end
            else None
        | [] => None
        end
      else run_frame H I dt snap st bs
  end.

Definition istep (H : hier) (I : insts) (st : state) (it : item) : option state :=
  match it with
  | Step o ob => step H I st o ob
  | Frame dt bs ob =>
      match run_frame H I dt (sorted st) st bs with
      | Some st' =>
          if (o_exn ob =? 0) && evs_eqb (o_log ob) [] && zs_eqb (o_procs ob) (processors st')
             && o_flag ob && opt_eqb (o_ret ob) None
          then Some st' else None
      | None => None
      end
  end.

Fixpoint run (H : hier) (I : insts) (st : state) (tr : trace) : option state :=
  match tr with
  | [] => Some st
  | it :: tr => match istep H I st it with Some st' => run H I st' tr | None => None end
  end.

Record C07_case := { c_hier : hier; c_insts : insts; c_trace : trace }.

Definition accepts (c : C07_case) : bool :=
  match run (c_hier c) (c_insts c) init (c_trace c) with Some _ => true | None => false end.

(* ---- the property, over observations only ------------------------------ *)
(* what the history says is registered: who, of which type, with which
   priority, added when *)
Record sentry := { s_pid : Z; s_ty : Z; s_prio : Z; s_age : Z }.
Record sstate := {
  reg       : list sentry;   (* registered processors (unordered) *)
  clock     : Z;             (* number of add_processor calls so far *)
  s_enabled : bool;          (* dispatching enabled *)
  owed      : list ev;       (* notifications postponed until dispatching is enabled *)
}.
Definition sinit : sstate := {| reg := []; clock := 0; s_enabled := true; owed := [] |}.

Definition find_pid (p : Z) (r : list sentry) := find (fun s => s_pid s =? p) r.
Definition find_ty (t : Z) (r : list sentry) := find (fun s => s_ty s =? t) r.

(* (priority, time of adding), compared lexicographically *)
Definition lex_lt (a b : Z * Z) : bool :=
  (fst a <? fst b) || ((fst a =? fst b) && (snd a <? snd b)).
Fixpoint keys_of (r : list sentry) (l : list Z) : option (list (Z * Z)) :=
  match l with
  | [] => Some []
  | p :: l =>
      match find_pid p r, keys_of r l with
      | Some s, Some ks => Some ((s_prio s, s_age s) :: ks)
      | _, _ => None
      end
  end.
Fixpoint increasing (ks : list (Z * Z)) : bool :=
  match ks with
  | a :: ((b :: _) as t) => lex_lt a b && increasing t
  | _ => true
  end.
Fixpoint nodupb (l : list Z) : bool :=
  match l with
  | [] => true
  | x :: l => negb (existsb (Z.eqb x) l) && nodupb l
  end.

(* [l] (an observed value of world.processors) lists exactly the registered
   processors, in strictly increasing (priority, time of adding), and no two
   of them have the same exact type *)
Definition order_ok (I : insts) (r : list sentry) (l : list Z) : bool :=
  match keys_of r l with
  | Some ks => increasing ks
  | None => false
  end
  && (Z.of_nat (length l) =? Z.of_nat (length r))
  && nodupb (map (fun p => i_ty (inst_of I p)) l).

(* the answer of remove_processor(T) / get_processor(T): the registered
   processor of exactly T if there is one; else some registered processor
   whose type is a subtype of T; None only if there is none *)
Definition answer_ok (H : hier) (r : list sentry) (t : Z) (ret : option Z) : bool :=
  match find_ty t r with
  | Some s => opt_eqb ret (Some (s_pid s))
  | None =>
      match ret with
      | None => forallb (fun s => negb (issub H (s_ty s) t)) r
      | Some q => match find_pid q r with Some s => issub H (s_ty s) t | None => false end
      end
  end.

(* the notifications [evs] caused by an operation are delivered inside it
   when dispatching is enabled; otherwise nothing is called and they are
   owed, in order, to the next enabling *)
Definition deliver (ss : sstate) (r : list sentry) (c : Z) (evs log : list ev) : option sstate :=
  if s_enabled ss then
    if evs_eqb log evs
    then Some {| reg := r; clock := c; s_enabled := true; owed := owed ss |} else None
  else
    if evs_eqb log []
    then Some {| reg := r; clock := c; s_enabled := false; owed := owed ss ++ evs |} else None.

Definition on_remove_of (I : insts) (q : Z) : list ev :=
  if has_rm (inst_of I q) then [ERemove q] else [].
Definition on_add_of (I : insts) (p : Z) : list ev :=
  if has_add (inst_of I p) then [EAdd p] else [].

Definition spec_step (H : hier) (I : insts) (ss : sstate) (o : op) (ob : obs) : option sstate :=
  if negb (o_exn ob =? 0) then None else      (* no operation of the domain raises *)
  match
    match o with
    | OAdd p explicit cur =>
        let ty := i_ty (inst_of I p) in
        (* explicit priority (0 and negatives included) wins over p.priority *)
        let prio := match explicit with Some x => x | None => cur end in
        (* at most one per exact type: the old one of that type is replaced ... *)
        let gone := match find_ty ty (reg ss) with Some s => on_remove_of I (s_pid s) | None => [] end in
        let r := filter (fun s => negb (s_ty s =? ty)) (reg ss)
                 ++ [{| s_pid := p; s_ty := ty; s_prio := prio; s_age := clock ss |}] in
        (* ... gets on_remove; the new one knows its world and gets on_add *)
        if o_flag ob then deliver ss r (clock ss + 1) (gone ++ on_add_of I p) (o_log ob) else None
    | ORemove t =>
        if answer_ok H (reg ss) t (o_ret ob) then
          match o_ret ob with
          | Some q => deliver ss (filter (fun s => negb (s_pid s =? q)) (reg ss)) (clock ss)
                              (on_remove_of I q) (o_log ob)
          | None => deliver ss (reg ss) (clock ss) [] (o_log ob)
          end
        else None
    | OGet t =>
        if answer_ok H (reg ss) t (o_ret ob) && evs_eqb (o_log ob) [] then Some ss else None
    | OEnable b =>
        if b then
          if evs_eqb (o_log ob) (owed ss)
          then Some {| reg := reg ss; clock := clock ss; s_enabled := true; owed := [] |} else None
        else
          if evs_eqb (o_log ob) []
          then Some {| reg := reg ss; clock := clock ss; s_enabled := false; owed := owed ss |}
          else None
    end
  with
  | Some ss' => if order_ok I (reg ss') (o_procs ob) then Some ss' else None
  | None => None
  end.

Fixpoint spec_acts (H : hier) (I : insts) (ss : sstate) (acts : list (op * obs)) : option sstate :=
  match acts with
  | [] => Some ss
  | (o, ob) :: acts =>
      match spec_step H I ss o ob with Some ss' => spec_acts H I ss' acts | None => None end
  end.

Definition is_reg (ss : sstate) (p : Z) : bool :=
  match find_pid p (reg ss) with Some _ => true | None => false end.

(* a frame: [order] is world.processors as it was when the frame started.
   The bodies that run are, in that order, exactly the processors of [order]
   that are registered when their turn comes (whatever earlier bodies of the
   frame added or removed), each once, each with dt; what a body does to the
   world is judged operation by operation like a top-level operation *)
Fixpoint spec_frame (H : hier) (I : insts) (dt : Z) (order : list Z) (ss : sstate)
         (bs : list body) : option sstate :=
  match order with
  | [] => match bs with [] => Some ss | _ :: _ => None end
  | p :: order =>
      if is_reg ss p then
        match bs with
        | b :: bs =>
            if (b_pid b =? p) && (b_dt b =? dt) then
              match spec_acts H I ss (b_acts b) with
              | Some ss' => spec_frame H I dt order ss' bs
              | None => None
              end
            else None
        | [] => None
        end
      else spec_frame H I dt order ss bs
  end.

(* [last]: world.processors as observed after the previous item *)
Definition spec_istep (H : hier) (I : insts) (ss : sstate) (last : list Z) (it : item)
  : option (sstate * list Z) :=
  match it with
  | Step o ob =>
      match spec_step H I ss o ob with Some ss' => Some (ss', o_procs ob) | None => None end
  | Frame dt bs ob =>
      if negb (o_exn ob =? 0) then None else
      match spec_frame H I dt last ss bs with
      | Some ss' => if order_ok I (reg ss') (o_procs ob) then Some (ss', o_procs ob) else None
      | None => None
      end
  end.

Fixpoint spec_run (H : hier) (I : insts) (ss : sstate) (last : list Z) (tr : trace) : bool :=
  match tr with
  | [] => true
  | it :: tr =>
      match spec_istep H I ss last it with
      | Some (ss', last') => spec_run H I ss' last' tr
      | None => false
      end
  end.

Definition holds_b (c : C07_case) : bool :=
  spec_run (c_hier c) (c_insts c) sinit [] (c_trace c).
Definition holds (c : C07_case) : Prop := holds_b c = true.

(* ---- input domain ------------------------------------------------------ *)
(* every processor used is declared (once), and every class is a subclass of
   itself in the hierarchy table *)
Definition op_wf (I : insts) (o : op) : bool :=
  match o with OAdd p _ _ => declared I p | _ => true end.
Definition item_wf (I : insts) (it : item) : bool :=
  match it with
  | Step o _ => op_wf I o
  | Frame _ bs _ => forallb (fun b => forallb (fun oo => op_wf I (fst oo)) (b_acts b)) bs
  end.
Definition wf_b (c : C07_case) : bool :=
  nodupb (akeys (c_insts c))
  && forallb (fun pi => issub (c_hier c) (i_ty (snd pi)) (i_ty (snd pi))) (c_insts c)
  && forallb (item_wf (c_insts c)) (c_trace c).
Definition known_b (c : C07_case) : bool := false.

Definition bit (b : bool) (n : nat) : nat := if b then n else 0%nat.
Definition C07_verdict (c : C07_case) : nat :=
  (bit (wf_b c) 1 + bit (known_b c) 2 + bit (accepts c) 4 + bit (holds_b c) 8)%nat.
