(* C19 - proofs.
   Part A: on twin worlds, every shorthand issued through a controller whose
   on_add has been delivered gives the result, the callbacks and the
   successor state of the World call for the entity of its attachment, and
   the controller's entity field is that entity (owner invariant through the
   relay queue).  Part B: the three-way lookup.  Part C: one on_update per
   listener per frame. *)
From Coq Require Import ZArith List Bool Lia ZifyBool Permutation.
From Desper Require Import Lib.Alist Logic.Bisect Logic.C07Model Logic.C07Proofs Logic.C19Model.
Import ListNotations.
Open Scope Z_scope.

(* ---- small facts about the Z-set operations ----------------------------- *)
Lemma memz_In x l : memz x l = true <-> In x l.
Proof. unfold memz. apply existsb_eqb_In. Qed.

Lemma memz_cons x y l : memz x (y :: l) = (x =? y) || memz x l.
Proof. reflexivity. Qed.

Lemma memz_addz x y l : memz x (addz y l) = (x =? y) || memz x l.
Proof.
  unfold addz. destruct (memz y l) eqn:E.
  - destruct (x =? y) eqn:E2; auto. apply Z.eqb_eq in E2. subst. now rewrite E.
  - unfold memz. rewrite existsb_app. cbn. rewrite orb_false_r. apply orb_comm.
Qed.

Lemma amem_aset {A} k k' (v : A) l : amem k (aset k' v l) = (k =? k') || amem k l.
Proof. unfold amem. rewrite alookup_aset. destruct (k =? k'); auto. Qed.

Lemma amem_akeys {A} k (l : list (Z * A)) : amem k l = memz k (akeys l).
Proof.
  unfold amem, akeys. induction l as [|[k' v] l IH]; cbn [alookup map fst memz existsb]; auto.
  destruct (k =? k'); auto.
Qed.

(* ====================================================================== *)
(* Part A                                                                  *)
(* ====================================================================== *)

(* ---- decidable equalities ---------------------------------------------- *)
Lemma res_eqb_eq a b : res_eqb a b = true <-> a = b.
Proof.
  destruct a, b; cbn [res_eqb]; split; intros E; try discriminate; auto.
  - apply opt_eqb_eq in E. now subst.
  - injection E as ->. now apply opt_eqb_eq.
  - apply eqb_prop in E. now subst.
  - injection E as ->. apply eqb_reflx.
  - apply zs_eqb_eq in E. now subst.
  - injection E as ->. now apply zs_eqb_eq.
  - apply Z.eqb_eq in E. now subst.
  - injection E as ->. apply Z.eqb_refl.
Qed.

Lemma opt2_eqb_eq a b : opt2_eqb a b = true <-> a = b.
Proof.
  destruct a as [[x1 x2]|], b as [[y1 y2]|]; cbn [opt2_eqb]; split; intros E;
    try discriminate; auto.
  - apply andb_true_iff in E. destruct E as (E1 & E2). apply Z.eqb_eq in E1, E2. now subst.
  - injection E as -> ->. now rewrite !Z.eqb_refl.
Qed.

Lemma cent_eqb_eq a b : cent_eqb a b = true <-> a = b.
Proof.
  destruct a as [k x], b as [k' y]. unfold cent_eqb. cbn [fst snd]. split; intros E.
  - apply andb_true_iff in E. destruct E as (E1 & E2).
    apply Z.eqb_eq in E1. apply opt2_eqb_eq in E2. now subst.
  - injection E as -> ->. apply andb_true_iff. split; [apply Z.eqb_refl|now apply opt2_eqb_eq].
Qed.

Lemma bool_eqb_eq a b : Bool.eqb a b = true <-> a = b.
Proof. split; [apply eqb_prop|intros ->; apply eqb_reflx]. Qed.

Lemma snap_eqb_eq a b : snap_eqb a b = true <-> a = b.
Proof.
  destruct a as [a1 a2 a3 a4 a5 a6 a7], b as [b1 b2 b3 b4 b5 b6 b7].
  unfold snap_eqb. cbn [sn_entities sn_comps sn_exists sn_procs sn_prios sn_cent sn_world].
  rewrite !andb_true_iff, !zs_eqb_eq.
  rewrite (list_eqb_eq zs_eqb zs_eqb_eq), (list_eqb_eq Bool.eqb bool_eqb_eq),
    (list_eqb_eq cent_eqb cent_eqb_eq), bool_eqb_eq.
  split.
  - intros ((((((-> & ->) & ->) & ->) & ->) & ->) & ->). reflexivity.
  - intros [= -> -> -> -> -> -> ->]. tauto.
Qed.

(* ---- how a World call moves (enabled, relay queue, controller fields) ---- *)
Definition evp_of (st : wstate) : evp :=
  {| ep_en := w_en st; ep_q := w_queue st; ep_cent := cent st; ep_wid := wid st |}.

Section PartA.
Variable H : hier.
Variable K : comps.
Variable P : insts.

Lemma evp_notify st c e : evp_of (notify_add_c K st c e) = attach K (evp_of st) c e.
Proof.
  unfold notify_add_c, attach, evp_of. cbn [ep_en ep_q ep_cent ep_wid].
  destruct (k_ctrl (cinst_of K c)); auto. destruct (w_en st); reflexivity.
Qed.

Lemma evp_set_core st a b : evp_of (set_core st a b) = evp_of st.
Proof. reflexivity. Qed.
Lemma evp_set_pst st p : evp_of (set_pst st p) = evp_of st.
Proof. reflexivity. Qed.
Lemma evp_drop_slot st e u : evp_of (drop_slot st e u) = evp_of st.
Proof. unfold drop_slot. destruct (adel u (row st e)); reflexivity. Qed.
Lemma evp_put_slot st e ty c : evp_of (put_slot st e ty c) = evp_of st.
Proof. reflexivity. Qed.

Lemma evp_add_component st e c : evp_of (w_add_component K st e c) = attach K (evp_of st) c e.
Proof.
  unfold w_add_component. rewrite evp_notify, evp_put_slot. f_equal.
  destruct (alookup _ (row st e)); auto.
  destruct (memz e (dead st)); rewrite ?evp_set_core; apply evp_drop_slot.
Qed.

Lemma evp_fold_put cs : forall st e,
  evp_of (fold_left (fun s c => put_slot s e (k_ty (cinst_of K c)) c) cs st) = evp_of st.
Proof. induction cs as [|c cs IH]; intros st e; cbn [fold_left]; auto. now rewrite IH. Qed.

Lemma evp_fold_notify cs : forall st e,
  evp_of (fold_left (fun s c => notify_add_c K s c e) cs st)
  = fold_left (fun s c => attach K s c e) cs (evp_of st).
Proof.
  induction cs as [|c cs IH]; intros st e; cbn [fold_left]; auto.
  rewrite IH, evp_notify. reflexivity.
Qed.

Lemma evp_w_step st w pick st' r log :
  w_step H K P st w pick = Some (st', r, log) -> evp_of st' = world_ev K (evp_of st) w.
Proof.
  destruct w as [e cs|e c|e t|e t|e t|e|e imm|dt|b|p cur|t|t]; cbn [w_step world_ev].
  - intros [= <- _ _]. unfold w_create_entity. now rewrite evp_fold_notify, evp_fold_put.
  - intros [= <- _ _]. apply evp_add_component.
  - unfold w_remove_component. destruct (pick_ok H (row st e) t pick) as [[[u c]|]|];
      intros [= <- _ _]; auto. apply evp_drop_slot.
  - intros [= <- _ _]. reflexivity.
  - destruct (pick_ok H (row st e) t pick); intros [= <- _ _]. reflexivity.
  - intros [= <- _ _]. reflexivity.
  - destruct imm; [destruct (amem e (ents st))|]; intros [= <- _ _]; reflexivity.
  - unfold clear_dead. destruct (forallb _ (dead st)); [|discriminate].
    intros [= <- _ _]. reflexivity.
  - destruct b; intros [= <- _ _]; reflexivity.
  - destruct (add_processor P (pst st) p None cur). intros [= <- _ _]. reflexivity.
  - destruct (get_processor H P (pst st) t pick); intros [= <- _ _]. reflexivity.
  - destruct (remove_processor H P (pst st) t pick) as [[ps l]|]; intros [= <- _ _]. reflexivity.
Qed.

Lemma attach_wid p c e : ep_wid (attach K p c e) = ep_wid p.
Proof. unfold attach. destruct (k_ctrl _); auto. destruct (ep_en p); reflexivity. Qed.

Lemma world_ev_wid p w : ep_wid (world_ev K p w) = ep_wid p.
Proof.
  destruct w as [e cs| | | | | | | |b| | |]; cbn [world_ev]; auto.
  - revert p. induction cs as [|c cs IH]; intros p; cbn [fold_left]; auto.
    now rewrite IH, attach_wid.
  - apply attach_wid.
  - destruct b; reflexivity.
Qed.

Lemma lowered_ev p s e : world_ev K p (fst (lower s e)) = world_ev K p (lowered s e).
Proof. destruct s; reflexivity. Qed.

(* ---- a side: two worlds sharing the controllers -------------------------- *)
Definition Good (d : duo) : Prop :=
  cent (d1 d) = cent (d2 d) /\ wid (d1 d) = 1 /\ wid (d2 d) = 2.
Definition track_of (d : duo) : track :=
  {| t_own := cent (d1 d); t_en1 := w_en (d1 d); t_q1 := w_queue (d1 d);
     t_en2 := w_en (d2 d); t_q2 := w_queue (d2 d) |}.

Lemma Good_init : Good dinit.
Proof. repeat split. Qed.

Lemma evp_pick d j : Good d -> evp_of (pickw d j) = t_evp (track_of d) j.
Proof.
  intros (Hc & H1 & H2). unfold pickw, t_evp, evp_of, track_of.
  cbn [t_own t_en1 t_q1 t_en2 t_q2]. destruct (j =? 2); congruence.
Qed.

Lemma put_track d j st' :
  Good d -> wid st' = wid (pickw d j) ->
  Good (putw d j st') /\ track_of (putw d j st') = t_put (track_of d) j (evp_of st').
Proof.
  intros (Hc & H1 & H2) Hw. unfold putw, pickw, t_put, track_of, Good in *.
  destruct (j =? 2); cbn; repeat split; auto; congruence.
Qed.

Lemma on_world_track d j w disc pick d' r log :
  Good d -> on_world H K P d j w disc pick = Some (d', r, log) ->
  Good d' /\ track_of d' = t_put (track_of d) j (world_ev K (t_evp (track_of d) j) w).
Proof.
  intros HG Ho. unfold on_world in Ho.
  destruct (w_step H K P (pickw d j) w pick) as [[[st' r'] l']|] eqn:Ew; [|discriminate].
  injection Ho as <- _ _. pose proof (evp_w_step _ _ _ _ _ _ Ew) as Hev.
  assert (Hw : wid st' = wid (pickw d j)).
  { change (ep_wid (evp_of st') = ep_wid (evp_of (pickw d j))). rewrite Hev. apply world_ev_wid. }
  destruct (put_track d j st' HG Hw) as (HG' & Ht). split; auto.
  now rewrite Ht, Hev, (evp_pick d j HG).
Qed.

Lemma pickw_norm d j : pickw d (norm j) = pickw d j.
Proof. unfold pickw, norm. destruct (j =? 2); reflexivity. Qed.
Lemma putw_norm d j st : putw d (norm j) st = putw d j st.
Proof. unfold putw, norm. destruct (j =? 2); reflexivity. Qed.
Lemma on_world_norm d j w disc pick :
  on_world H K P d (norm j) w disc pick = on_world H K P d j w disc pick.
Proof. unfold on_world, pickw, putw, norm. destruct (j =? 2); reflexivity. Qed.

Lemma wid_pick d j : Good d -> wid (pickw d j) = norm j.
Proof. intros (_ & H1 & H2). unfold pickw, norm. destruct (j =? 2); auto. Qed.

Lemma knows_snapshot pool d j :
  Good d -> knows (track_of d) (snapshot K pool (pickw d j)) = true.
Proof.
  intros (Hc & _). unfold knows, snapshot. cbn [sn_world sn_cent andb].
  apply forallb_forall. intros ke Hin. apply in_map_iff in Hin.
  destruct Hin as (k & <- & _). cbn [fst snd track_of t_own].
  apply opt2_eqb_eq. unfold pickw. destruct (j =? 2); congruence.
Qed.

End PartA.

Lemma side_ok_inv K pool j r ores olog osnap d' :
  side_ok K pool j r ores olog osnap = Some d' ->
  exists mres mlog, r = Some (d', mres, mlog) /\ ores = mres /\ olog = mlog /\
                    osnap = snapshot K pool (pickw d' j).
Proof.
  unfold side_ok. destruct r as [[[s mres] mlog]|]; [|discriminate].
  destruct (res_eqb ores mres) eqn:E1; cbn [andb]; [|discriminate].
  destruct (evs_eqb olog mlog) eqn:E2; cbn [andb]; [|discriminate].
  destruct (snap_eqb osnap (snapshot K pool (pickw s j))) eqn:E3; [|discriminate].
  intros [= <-]. apply res_eqb_eq in E1. apply evs_eqb_eq in E2. apply snap_eqb_eq in E3.
  eauto 6.
Qed.

(* through a controller whose fields are (e, world j), every shorthand IS the
   World call on world j for e *)
Lemma via_controller_direct H K P d k e j s pick :
  alookup k (cent (d1 d)) = Some (e, norm j) -> set_guard H K P s = true ->
  via_controller H K P d k s pick = direct_call H K P d j e s pick.
Proof.
  intros Hc Hg. unfold via_controller, direct_call. rewrite Hc, Hg. cbn [negb].
  apply on_world_norm.
Qed.

Lemma cstep_sim c d op ob dA' dB' :
  let H := cc_hier c in let K := cc_comps c in let P := cc_procs c in
  Good d -> cop_wf H K P (track_of d) op = true ->
  cstep c d d op ob = Some (dA', dB') ->
  dA' = dB' /\ Good dA' /\ track_of dA' = track_step K (track_of d) op /\
  same_effect ob = true /\ knows (track_step K (track_of d) op) (a_snap ob) = true.
Proof.
  intros H K P HG Hwf Hstep. unfold cstep in Hstep. fold H K P in Hstep.
  assert (HAB : side_a H K P d op (o_pick ob) = side_b H K P d op (o_pick ob)).
  { destruct op as [j w|k e j s|k e j]; auto. cbn [side_a side_b].
    cbn [cop_wf] in Hwf. apply andb_true_iff in Hwf. destruct Hwf as (Hwf & Hsw).
    apply andb_true_iff in Hwf. destruct Hwf as (Hwf & _).
    apply andb_true_iff in Hwf. destruct Hwf as (Hown & _).
    apply opt2_eqb_eq in Hown. cbn [track_of t_own] in Hown.
    apply via_controller_direct; [exact Hown|]. destruct s; exact Hsw || reflexivity. }
  rewrite HAB in Hstep.
  set (j := world_of op) in *.
  destruct (side_ok K (cc_pool c) j (side_b H K P d op (o_pick ob)) (a_res ob) (a_log ob)
                    (a_snap ob)) as [a'|] eqn:EA; [|discriminate].
  destruct (side_ok K (cc_pool c) j (side_b H K P d op (o_pick ob)) (b_res ob) (b_log ob)
                    (b_snap ob)) as [b'|] eqn:EB; [|discriminate].
  injection Hstep as <- <-.
  apply side_ok_inv in EA. destruct EA as (mres & mlog & ErA & Ea1 & Ea2 & Ea3).
  apply side_ok_inv in EB. destruct EB as (mres' & mlog' & ErB & Eb1 & Eb2 & Eb3).
  rewrite ErA in ErB. injection ErB as <- <- <-.
  assert (HT : Good a' /\ track_of a' = track_step K (track_of d) op).
  { destruct op as [j0 w|k e j0 s|k e j0]; cbn [side_b track_step] in *.
    - eapply on_world_track; eauto.
    - unfold direct_call in ErA. rewrite <- (lowered_ev K).
      eapply on_world_track; eauto.
    - injection ErA as <- _ _.
      destruct (put_track d j0 (mk_controller (pickw d j0) k e) HG eq_refl) as (HG' & Ht).
      split; auto. rewrite Ht. unfold mk_controller, evp_of, set_ev.
      cbn [w_en w_queue cent wid]. rewrite (wid_pick d j0 HG).
      destruct HG as (Hc & H1 & H2).
      unfold t_put, pickw, track_of. cbn [t_own t_en1 t_q1 t_en2 t_q2].
      destruct (j0 =? 2); cbn [ep_en ep_q ep_cent]; f_equal; congruence. }
  destruct HT as (HG' & HT).
  split; [reflexivity|split; [exact HG'|split; [exact HT|split]]].
  - unfold same_effect. rewrite Ea1, Eb1, Ea2, Eb2, Ea3, Eb3.
    apply andb_true_iff. split; [apply andb_true_iff; split|].
    + now apply res_eqb_eq.
    + now apply evs_eqb_eq.
    + now apply snap_eqb_eq.
  - rewrite Ea3, <- HT. now apply knows_snapshot.
Qed.

Lemma crun_sim c tr : forall d,
  Good d ->
  ctrl_wf_from (cc_hier c) (cc_comps c) (cc_procs c) (track_of d) tr = true ->
  (exists r, crun c d d tr = Some r) ->
  ctrl_holds_from (cc_comps c) (track_of d) tr = true.
Proof.
  induction tr as [|[op ob] tr IH]; intros d HG Hwf (r & Hrun); cbn [ctrl_holds_from]; auto.
  cbn [ctrl_wf_from] in Hwf. apply andb_true_iff in Hwf. destruct Hwf as (Hwf1 & Hwf).
  cbn [crun] in Hrun.
  destruct (cstep c d d op ob) as [[a b]|] eqn:Es; [|discriminate].
  destruct (cstep_sim c d op ob a b HG Hwf1 Es) as (<- & HG' & HT & Hsame & Hknows).
  rewrite Hsame, Hknows. cbn [andb]. rewrite <- HT in *. eapply IH; eauto.
Qed.

Theorem ctrl_accepts_holds c :
  ctrl_wf_b c = true -> ctrl_accepts c = true -> ctrl_holds_b c = true.
Proof.
  unfold ctrl_wf_b, ctrl_accepts, ctrl_holds_b. intros Hwf Hacc.
  apply andb_true_iff in Hwf. destruct Hwf as (_ & Hwf).
  destruct (crun c dinit dinit (cc_trace c)) as [r|] eqn:E; [|discriminate].
  change tinit with (track_of dinit). eapply crun_sim; eauto. apply Good_init.
Qed.

(* ====================================================================== *)
(* Part B                                                                  *)
(* ====================================================================== *)
Lemma builder_source T p t m :
  m_fid m = builder_for T p t -> source_ok T p t m = true.
Proof.
  unfold builder_for, source_ok. intros ->.
  destruct (alookup t (p_methods p)); [apply Z.eqb_refl|].
  destruct (getattr_named p _); apply Z.eqb_refl.
Qed.

Lemma iter_sim T p ts : forall ms x,
  (let '(l, x') := iterate T p ts in all2 made_ok ms l && (x =? x')) = true ->
  iter_holds T p ts ms x = true.
Proof.
  induction ts as [|t ts IH]; intros ms x; cbn [iterate].
  - destruct ms; cbn [all2 andb iter_holds]; auto; try discriminate.
  - destruct ((builder_for T p t =? 0) && negb (t_nullary (tinfo_of T t))) eqn:Estop.
    + destruct ms; cbn [all2 andb iter_holds]; [|discriminate]. intros Hx.
      apply andb_true_iff in Estop. destruct Estop as (E0 & En).
      rewrite Hx, En. cbn [andb]. apply builder_source. cbn [m_fid].
      apply Z.eqb_eq in E0. now rewrite E0.
    + specialize (IH (tl ms) x). destruct (iterate T p ts) as [l x'].
      destruct ms as [|m ms]; cbn [all2 andb]; [discriminate|]. cbn [tl] in IH.
      intros Hm. apply andb_true_iff in Hm. destruct Hm as (Hm & Hx).
      apply andb_true_iff in Hm. destruct Hm as (Hm & Hall).
      unfold made_ok in Hm. cbn [fst snd] in Hm.
      cbn [iter_holds].
      assert (Hf : m_fid m = builder_for T p t) by lia.
      rewrite (builder_source T p t m Hf), IH by (now rewrite Hall, Hx).
      lia.
Qed.

Theorem proto_accepts_holds c : proto_accepts c = true -> proto_holds_b c = true.
Proof.
  unfold proto_accepts, proto_holds_b. rewrite !forallb_forall. intros Hacc po Hpo.
  specialize (Hacc po Hpo). rewrite forallb_forall in *. intros ob Hob.
  specialize (Hacc ob Hob). unfold iter_accepts in Hacc. apply iter_sim.
  destruct (iterate (pc_types c) (fst po) (p_types (fst po))). exact Hacc.
Qed.

(* what [iter_holds] says for one produced component, spelled out: the
   builder is the entry of init_methods if there is one, else the method
   named prefix ++ name if there is one, else the default *)
Lemma source_ok_meaning T p t m : source_ok T p t m = true ->
  (forall f, alookup t (p_methods p) = Some f -> m_fid m = f) /\
  (alookup t (p_methods p) = None ->
   forall g, getattr_named p (t_name (tinfo_of T t)) = Some g -> m_fid m = g) /\
  (alookup t (p_methods p) = None -> getattr_named p (t_name (tinfo_of T t)) = None ->
   m_fid m = p_default p).
Proof.
  unfold source_ok. intros Hs. repeat split.
  - intros f E. rewrite E in Hs. lia.
  - intros E g Eg. rewrite E, Eg in Hs. lia.
  - intros E Eg. rewrite E, Eg in Hs. lia.
Qed.

(* ====================================================================== *)
(* Part C                                                                  *)
(* ====================================================================== *)
Lemma insert_sorted_perm x l : Permutation (insert_sorted x l) (x :: l).
Proof.
  induction l as [|y l IH]; cbn [insert_sorted]; auto.
  destruct (x <=? y); auto. eapply perm_trans; [apply perm_skip, IH|apply perm_swap].
Qed.

Lemma isort_perm l : Permutation (isort l) l.
Proof.
  induction l as [|x l IH]; cbn [isort fold_right]; auto.
  eapply perm_trans; [apply insert_sorted_perm|]. now constructor.
Qed.

Lemma count_calls_notin h dt l :
  ~ In h l -> count_calls h (map (fun x => (x, dt)) l) = 0.
Proof.
  induction l as [|y l IH]; cbn [map count_calls]; intros Hn; auto.
  destruct (h =? y) eqn:E.
  - apply Z.eqb_eq in E. subst. exfalso. apply Hn. now left.
  - rewrite IH; auto. intros Hin. apply Hn. now right.
Qed.

Lemma count_calls_nodup h dt l :
  NoDup l -> In h l -> count_calls h (map (fun x => (x, dt)) l) = 1.
Proof.
  induction 1 as [|y l Hn Hd IH]; cbn [map count_calls]; intros Hin; [contradiction|].
  destruct Hin as [->|Hin].
  - rewrite Z.eqb_refl, count_calls_notin; auto.
  - destruct (h =? y) eqn:E.
    + apply Z.eqb_eq in E. subst. contradiction.
    + rewrite IH; auto.
Qed.

Lemma frame_ok_listeners ls dt :
  NoDup ls ->
  frame_ok {| us_listeners := ls; us_oup := true |} dt (map (fun h => (h, dt)) (isort ls)) = true.
Proof.
  intros Hd. unfold frame_ok. cbn [us_oup us_listeners].
  pose proof (isort_perm ls) as HP.
  apply andb_true_iff. split; apply forallb_forall.
  - intros h Hh. apply Z.eqb_eq. apply count_calls_nodup.
    + eapply Permutation_NoDup; [apply Permutation_sym, HP|exact Hd].
    + eapply Permutation_in; [apply Permutation_sym, HP|exact Hh].
  - intros hd Hin. apply in_map_iff in Hin. destruct Hin as (h & <- & Hh). cbn [fst snd].
    rewrite Z.eqb_refl, andb_true_r. apply memz_In. eapply Permutation_in; eauto.
Qed.

Lemma NoDup_addz x l : NoDup l -> NoDup (addz x l).
Proof.
  intros Hd. unfold addz. destruct (memz x l) eqn:E; auto.
  apply NoDup_snoc; auto. intros Hin. apply memz_In in Hin. congruence.
Qed.
Lemma NoDup_remz x l : NoDup l -> NoDup (remz x l).
Proof. intros Hd. unfold remz. now apply NoDup_filter. Qed.
Lemma remz_notin x l : ~ In x l -> remz x l = l.
Proof.
  intros Hn. unfold remz. apply filter_all. intros y Hy. apply negb_true_iff.
  apply Z.eqb_neq. intros ->. contradiction.
Qed.
Lemma In_addz y x l : In y (addz x l) <-> y = x \/ In y l.
Proof.
  rewrite <- !memz_In, memz_addz, orb_true_iff, Z.eqb_eq. tauto.
Qed.
Lemma In_remz y x l : In y (remz x l) -> In y l.
Proof. unfold remz. intros Hin. apply filter_In in Hin. tauto. Qed.

Definition UR (st : ustate) (s : uspec) : Prop :=
  u_events st = us_listeners s /\ NoDup (u_events st) /\
  (forall h, In h (u_events st) -> In h (u_handlers st)) /\
  (us_oup s = match u_oup st with Some _ => true | None => false end).

Lemma ustep_sim c st s o calls st' :
  UR st s -> ustep c st o calls = Some st' ->
  exists s', uspec_step c s o calls = Some s' /\ UR st' s'.
Proof.
  intros (He & Hd & Hsub & Ho) Hs. destruct o as [h|h|p| |dt]; cbn [ustep uspec_step] in *.
  - destruct (list_eqb pair_eqb calls []); [|discriminate]. injection Hs as <-.
    eexists; split; [reflexivity|]. repeat split; cbn; auto.
    + now rewrite He.
    + destruct (listens c h); auto. now apply NoDup_addz.
    + intros y Hy. apply In_addz. destruct (listens c h); auto.
      apply In_addz in Hy. destruct Hy; auto.
  - destruct (list_eqb pair_eqb calls []); [|discriminate].
    destruct (memz h (u_handlers st)) eqn:Em; injection Hs as <-;
      (eexists; split; [reflexivity|]); repeat split; cbn; auto.
    + now rewrite He.
    + now apply NoDup_remz.
    + intros y Hy. unfold remz in *. apply filter_In in Hy. destruct Hy as (Hy & Hne).
      apply filter_In. split; auto.
    + rewrite <- He. symmetry. apply remz_notin. intros Hin. apply Hsub in Hin.
      apply memz_In in Hin. congruence.
  - destruct (list_eqb pair_eqb calls []); [|discriminate]. injection Hs as <-.
    eexists; split; [reflexivity|]. repeat split; cbn; auto.
  - destruct (list_eqb pair_eqb calls []); [|discriminate]. injection Hs as <-.
    eexists; split; [reflexivity|]. repeat split; cbn; auto.
  - destruct (list_eqb pair_eqb calls _) eqn:E; [|discriminate]. injection Hs as <-.
    assert (Hcalls : calls = match u_oup st with
                             | Some _ => map (fun h => (h, dt)) (isort (u_events st))
                             | None => [] end).
    { apply (list_eqb_eq pair_eqb); auto. intros [a1 a2] [b1 b2]. unfold pair_eqb. cbn [fst snd].
      rewrite andb_true_iff, !Z.eqb_eq. split; [intros (-> & ->); reflexivity|].
      intros [= -> ->]. auto. }
    exists s. split; [|repeat split; auto].
    assert (Hf : frame_ok s dt calls = true).
    { destruct s as [ls ou]. cbn [us_listeners us_oup] in *. subst ls.
      destruct (u_oup st); subst ou calls.
      - now apply frame_ok_listeners.
      - reflexivity. }
    now rewrite Hf.
Qed.

Lemma urun_sim c tr : forall st s st',
  UR st s -> urun c st tr = Some st' -> uspec_run c s tr = true.
Proof.
  induction tr as [|[o calls] tr IH]; intros st s st' HR Hrun; cbn [urun uspec_run] in *; auto.
  destruct (ustep c st o calls) as [st1|] eqn:Es; [|discriminate].
  destruct (ustep_sim _ _ _ _ _ _ HR Es) as (s1 & -> & HR1). eauto.
Qed.

Theorem upd_accepts_holds c : upd_accepts c = true -> upd_holds_b c = true.
Proof.
  unfold upd_accepts, upd_holds_b. destruct (urun c uinit (uc_trace c)) as [st'|] eqn:E;
    [|discriminate].
  intros _. eapply urun_sim; eauto. repeat split; cbn; auto. constructor.
Qed.

(* ====================================================================== *)
Theorem accepts_holds c : wf_b c = true -> accepts c = true -> holds c.
Proof.
  unfold holds. destruct c as [c|c|c]; cbn [wf_b accepts holds_b]; intros Hwf Hacc.
  - now apply ctrl_accepts_holds.
  - now apply proto_accepts_holds.
  - now apply upd_accepts_holds.
Qed.

(* reading of [knows]: every controller's observed (entity, world) is the one
   of its latest delivered on_add *)
Lemma knows_meaning t s k x :
  knows t s = true -> In (k, x) (sn_cent s) -> x = alookup k (t_own t).
Proof.
  unfold knows. intros Hk Hin. apply andb_true_iff in Hk. destruct Hk as (_ & Hk).
  rewrite forallb_forall in Hk. specialize (Hk (k, x) Hin). cbn [fst snd] in Hk.
  now apply opt2_eqb_eq.
Qed.
