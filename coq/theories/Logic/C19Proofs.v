(* C19 - proofs.
   Part A: on twin worlds, every shorthand issued through a controller whose
   on_add has been delivered gives the result, the callbacks and the
   successor state of the World call for the entity of its attachment, and
   the controller's entity field is that entity (owner invariant through the
   relay queue).  Part B: the three-way lookup.  Part C: one on_update per
   listener per frame. *)
From Coq Require Import ZArith List Bool Lia ZifyBool Permutation.
From Desper Require Import Lib.Alist Logic.Bisect Logic.C07Model Logic.C07Proofs Logic.C19Model.
Import ListNotations.
Open Scope Z_scope.

(* ---- small facts about the Z-set operations ----------------------------- *)
Lemma memz_In x l : memz x l = true <-> In x l.
Proof. unfold memz. apply existsb_eqb_In. Qed.

Lemma memz_cons x y l : memz x (y :: l) = (x =? y) || memz x l.
Proof. reflexivity. Qed.

Lemma memz_addz x y l : memz x (addz y l) = (x =? y) || memz x l.
Proof.
  unfold addz. destruct (memz y l) eqn:E.
  - destruct (x =? y) eqn:E2; auto. apply Z.eqb_eq in E2. subst. now rewrite E.
  - unfold memz. rewrite existsb_app. cbn. rewrite orb_false_r. apply orb_comm.
Qed.

Lemma amem_aset {A} k k' (v : A) l : amem k (aset k' v l) = (k =? k') || amem k l.
Proof. unfold amem. rewrite alookup_aset. destruct (k =? k'); auto. Qed.

Lemma amem_akeys {A} k (l : list (Z * A)) : amem k l = memz k (akeys l).
Proof.
  unfold amem, akeys. induction l as [|[k' v] l IH]; cbn [alookup map fst memz existsb]; auto.
  destruct (k =? k'); auto.
Qed.

(* ====================================================================== *)
(* Part A                                                                  *)
(* ====================================================================== *)

(* ---- decidable equalities ---------------------------------------------- *)
Lemma res_eqb_eq a b : res_eqb a b = true <-> a = b.
Proof.
  destruct a, b; cbn [res_eqb]; split; intros E; try discriminate; auto.
  - apply opt_eqb_eq in E. now subst.
  - injection E as ->. now apply opt_eqb_eq.
  - apply eqb_prop in E. now subst.
  - injection E as ->. apply eqb_reflx.
  - apply zs_eqb_eq in E. now subst.
  - injection E as ->. now apply zs_eqb_eq.
  - apply Z.eqb_eq in E. now subst.
  - injection E as ->. apply Z.eqb_refl.
Qed.

Lemma cent_eqb_eq a b : cent_eqb a b = true <-> a = b.
Proof.
  destruct a as [k x], b as [k' y]. unfold cent_eqb. cbn [fst snd]. split; intros E.
  - apply andb_true_iff in E. destruct E as (E1 & E2).
    apply Z.eqb_eq in E1. apply opt_eqb_eq in E2. now subst.
  - injection E as -> ->. apply andb_true_iff. split; [apply Z.eqb_refl|now apply opt_eqb_eq].
Qed.

Lemma bool_eqb_eq a b : Bool.eqb a b = true <-> a = b.
Proof. split; [apply eqb_prop|intros ->; apply eqb_reflx]. Qed.

Lemma snap_eqb_eq a b : snap_eqb a b = true <-> a = b.
Proof.
  destruct a as [a1 a2 a3 a4 a5 a6 a7], b as [b1 b2 b3 b4 b5 b6 b7].
  unfold snap_eqb. cbn [sn_entities sn_comps sn_exists sn_procs sn_prios sn_cent sn_world].
  rewrite !andb_true_iff, !zs_eqb_eq.
  rewrite (list_eqb_eq zs_eqb zs_eqb_eq), (list_eqb_eq Bool.eqb bool_eqb_eq),
    (list_eqb_eq cent_eqb cent_eqb_eq), bool_eqb_eq.
  split.
  - intros ((((((-> & ->) & ->) & ->) & ->) & ->) & ->). reflexivity.
  - intros [= -> -> -> -> -> -> ->]. tauto.
Qed.

(* ---- how an operation moves (enabled, relay queue, entity fields) ------- *)
Record evp := { ep_en : bool; ep_q : list (Z * Z); ep_cent : list (Z * Z) }.
Definition evp_of (st : wstate) : evp :=
  {| ep_en := w_en st; ep_q := w_queue st; ep_cent := cent st |}.

Section PartA.
Variable H : hier.
Variable K : comps.
Variable P : insts.

Definition nac (p : evp) (c e : Z) : evp :=
  if k_ctrl (cinst_of K c) then
    if ep_en p then {| ep_en := ep_en p; ep_q := ep_q p; ep_cent := aset c e (ep_cent p) |}
    else {| ep_en := ep_en p; ep_q := ep_q p ++ [(c, e)]; ep_cent := ep_cent p |}
  else p.
Definition ev_attaches (p : evp) (l : list (Z * Z)) : evp :=
  fold_left (fun s ec => nac s (snd ec) (fst ec)) l p.
Definition wop_ev (p : evp) (w : wop) : evp :=
  match w with
  | WCreate e cs => ev_attaches p (map (fun c => (e, c)) cs)
  | WAdd e c => nac p c e
  | WEnable true =>
      {| ep_en := true; ep_q := [];
         ep_cent := fold_left (fun ce ke => aset (fst ke) (snd ke) ce) (ep_q p) (ep_cent p) |}
  | WEnable false => {| ep_en := false; ep_q := ep_q p; ep_cent := ep_cent p |}
  | _ => p
  end.

Lemma evp_notify st c e : evp_of (notify_add_c K st c e) = nac (evp_of st) c e.
Proof.
  unfold notify_add_c, nac, evp_of. cbn [ep_en ep_q ep_cent].
  destruct (k_ctrl (cinst_of K c)); auto. destruct (w_en st); reflexivity.
Qed.

Lemma evp_set_core st a b : evp_of (set_core st a b) = evp_of st.
Proof. reflexivity. Qed.
Lemma evp_set_pst st p : evp_of (set_pst st p) = evp_of st.
Proof. reflexivity. Qed.
Lemma evp_drop_slot st e u : evp_of (drop_slot st e u) = evp_of st.
Proof. unfold drop_slot. destruct (adel u (row st e)); reflexivity. Qed.
Lemma evp_put_slot st e ty c : evp_of (put_slot st e ty c) = evp_of st.
Proof. reflexivity. Qed.

Lemma evp_add_component st e c : evp_of (w_add_component K st e c) = nac (evp_of st) c e.
Proof.
  unfold w_add_component. rewrite evp_notify, evp_put_slot. f_equal.
  destruct (alookup _ (row st e)); auto.
  destruct (memz e (dead st)); rewrite ?evp_set_core; apply evp_drop_slot.
Qed.

Lemma evp_fold_put cs : forall st e,
  evp_of (fold_left (fun s c => put_slot s e (k_ty (cinst_of K c)) c) cs st) = evp_of st.
Proof. induction cs as [|c cs IH]; intros st e; cbn [fold_left]; auto. now rewrite IH. Qed.

Lemma evp_fold_notify cs : forall st e,
  evp_of (fold_left (fun s c => notify_add_c K s c e) cs st)
  = ev_attaches (evp_of st) (map (fun c => (e, c)) cs).
Proof.
  unfold ev_attaches. induction cs as [|c cs IH]; intros st e; cbn [fold_left map]; auto.
  rewrite IH, evp_notify. reflexivity.
Qed.

Lemma evp_w_step st w pick st' r log :
  w_step H K P st w pick = Some (st', r, log) -> evp_of st' = wop_ev (evp_of st) w.
Proof.
  destruct w as [e cs|e c|e t|e t|e t|e|e imm|dt|b|p cur|t|t]; cbn [w_step wop_ev].
  - intros [= <- _ _]. unfold w_create_entity. now rewrite evp_fold_notify, evp_fold_put.
  - intros [= <- _ _]. apply evp_add_component.
  - unfold w_remove_component. destruct (pick_ok H (row st e) t pick) as [[[u c]|]|];
      intros [= <- _ _]; auto. apply evp_drop_slot.
  - intros [= <- _ _]. reflexivity.
  - destruct (pick_ok H (row st e) t pick); intros [= <- _ _]. reflexivity.
  - intros [= <- _ _]. reflexivity.
  - destruct imm; [destruct (amem e (ents st))|]; intros [= <- _ _]; reflexivity.
  - unfold clear_dead. destruct (forallb _ (dead st)); [|discriminate].
    intros [= <- _ _]. reflexivity.
  - destruct b; intros [= <- _ _]; reflexivity.
  - destruct (add_processor P (pst st) p None cur). intros [= <- _ _]. reflexivity.
  - destruct (get_processor H P (pst st) t pick); intros [= <- _ _]. reflexivity.
  - destruct (remove_processor H P (pst st) t pick) as [[ps l]|]; intros [= <- _ _]. reflexivity.
Qed.

(* only WAdd / WCreate / WEnable move the triple; shorthands lower to one of them *)
Definition cop_ev (p : evp) (op : cop) : evp :=
  match op with
  | ODirect (WEnable b) => wop_ev p (WEnable b)
  | OMkCtrl k e => {| ep_en := ep_en p; ep_q := ep_q p; ep_cent := aset k e (ep_cent p) |}
  | _ => ev_attaches p (attaches op)
  end.

Lemma wop_ev_attaches p w :
  wop_ev p w = cop_ev p (ODirect w).
Proof. destruct w as [| | | | | | | |b| | |]; try reflexivity. Qed.

Lemma lower_ev p k e s : wop_ev p (fst (lower s e)) = cop_ev p (OShort k e s).
Proof. destruct s; reflexivity. Qed.

(* ---- the owner invariant ------------------------------------------------ *)
(* the entity of the last relayed on_add still waiting for controller k *)
Definition qlast (k : Z) (q : list (Z * Z)) : option Z := alookup k (rev q).

Lemma alookup_app {A} k (l1 l2 : list (Z * A)) :
  alookup k (l1 ++ l2) = match alookup k l1 with Some v => Some v | None => alookup k l2 end.
Proof.
  induction l1 as [|[k' v] l1 IH]; cbn [app alookup]; auto. destruct (k =? k'); auto.
Qed.

Lemma qlast_snoc k q c e : qlast k (q ++ [(c, e)]) = if k =? c then Some e else qlast k q.
Proof. unfold qlast. rewrite rev_app_distr. reflexivity. Qed.

Lemma fold_aset_qlast (q : list (Z * Z)) : forall (ce : list (Z * Z)) (k : Z),
  alookup k (fold_left (fun ce ke => aset (fst ke) (snd ke) ce) q ce)
  = match qlast k q with Some e => Some e | None => alookup k ce end.
Proof.
  induction q as [|[k' e'] q IH]; intros ce k; cbn [fold_left fst snd]; auto.
  rewrite IH. unfold qlast. cbn [rev]. rewrite alookup_app.
  destruct (alookup k (rev q)); auto. cbn [alookup]. rewrite alookup_aset.
  destruct (k =? k'); auto.
Qed.

Lemma memz_remz k c l : memz k (remz c l) = true -> k <> c /\ memz k l = true.
Proof.
  rewrite !memz_In. unfold remz. intros Hin. apply filter_In in Hin.
  destruct Hin as (Hin & Hne). split; auto. apply negb_true_iff in Hne. lia.
Qed.

Definition OwnInv (p : evp) (o : ospec) : Prop :=
  ep_en p = sp_en o /\
  (forall k e, alookup k (own o) = Some e ->
               match qlast k (ep_q p) with
               | Some e' => e' = e
               | None => alookup k (ep_cent p) = Some e
               end) /\
  (forall k, qlast k (ep_q p) <> None -> amem k (own o) = true) /\
  (forall k, memz k (dlv o) = true -> qlast k (ep_q p) = None /\ amem k (own o) = true) /\
  (ep_en p = true -> ep_q p = []) /\
  (forall k, amem k (own o) = true -> memz k (attached o) = true).

Ltac own_split := split; [|split; [|split; [|split; [|split]]]].

Lemma OwnInv_init : OwnInv (evp_of winit) oinit.
Proof.
  own_split; cbn; auto; try discriminate; try (intros k Hk; now elim Hk).
Qed.

Lemma own_attach p o e c : OwnInv p o -> OwnInv (nac p c e) (attach K o e c).
Proof.
  intros (J1 & J2 & J3 & J4 & J5 & J6). unfold nac, attach.
  destruct (k_ctrl (cinst_of K c)).
  - rewrite <- J1. destruct (ep_en p) eqn:En.
    + (* enabled: on_add runs at once; nothing is waiting *)
      pose proof (J5 eq_refl) as Hq.
      own_split; cbn [ep_en ep_q ep_cent own dlv sp_en attached].
      * reflexivity.
      * intros k e0. rewrite Hq. cbn. rewrite !alookup_aset.
        destruct (k =? c) eqn:E; auto. intros Ho. specialize (J2 k e0 Ho).
        rewrite Hq in J2. exact J2.
      * intros k Hk. rewrite Hq in Hk. now elim Hk.
      * intros k Hk. rewrite Hq. split; [reflexivity|].
        rewrite memz_addz in Hk. rewrite amem_aset.
        destruct (k =? c) eqn:E; cbn [orb] in *; auto. now apply J4.
      * auto.
      * intros k. rewrite amem_aset, memz_cons. destruct (k =? c); cbn [orb]; auto; apply J6.
    + (* disabled: relayed; the controller waits again *)
      own_split; cbn [ep_en ep_q ep_cent own dlv sp_en attached].
      * reflexivity.
      * intros k e0. rewrite qlast_snoc, alookup_aset. destruct (k =? c); [congruence|].
        apply J2.
      * intros k. rewrite qlast_snoc, amem_aset. destruct (k =? c); cbn [orb]; auto.
      * intros k Hk. apply memz_remz in Hk. destruct Hk as (Hne & Hm).
        rewrite qlast_snoc, amem_aset. destruct (k =? c) eqn:E; [lia|]. cbn [orb].
        now apply J4.
      * discriminate.
      * intros k. rewrite amem_aset, memz_cons. destruct (k =? c); cbn [orb]; auto; apply J6.
  - own_split; cbn [own dlv sp_en attached].
    + exact J1.
    + exact J2.
    + exact J3.
    + exact J4.
    + exact J5.
    + intros k Hk. rewrite memz_cons, (J6 k Hk). apply orb_true_r.
Qed.

Lemma own_attaches l : forall p o,
  OwnInv p o ->
  OwnInv (ev_attaches p l) (fold_left (fun s ec => attach K s (fst ec) (snd ec)) l o).
Proof.
  unfold ev_attaches. induction l as [|[e c] l IH]; intros p o HI; cbn [fold_left snd fst]; auto.
  apply IH. now apply own_attach.
Qed.

Lemma own_enable p o b :
  OwnInv p o ->
  OwnInv (wop_ev p (WEnable b))
         (if b then {| own := own o; dlv := akeys (own o); sp_en := true; attached := attached o |}
          else {| own := own o; dlv := dlv o; sp_en := false; attached := attached o |}).
Proof.
  intros (J1 & J2 & J3 & J4 & J5 & J6). destruct b; cbn [wop_ev].
  - own_split; cbn [ep_en ep_q ep_cent own dlv sp_en attached].
    + reflexivity.
    + intros k e Ho. cbn. rewrite fold_aset_qlast. specialize (J2 k e Ho).
      destruct (qlast k (ep_q p)); congruence.
    + intros k Hk. now elim Hk.
    + intros k Hk. split; [reflexivity|]. now rewrite amem_akeys.
    + reflexivity.
    + exact J6.
  - own_split; cbn [ep_en ep_q ep_cent own dlv sp_en attached].
    + reflexivity.
    + exact J2.
    + exact J3.
    + exact J4.
    + discriminate.
    + exact J6.
Qed.

Lemma own_mk p o k e :
  OwnInv p o -> memz k (attached o) = false ->
  OwnInv {| ep_en := ep_en p; ep_q := ep_q p; ep_cent := aset k e (ep_cent p) |}
         {| own := aset k e (own o); dlv := addz k (dlv o); sp_en := sp_en o;
            attached := k :: attached o |}.
Proof.
  intros (J1 & J2 & J3 & J4 & J5 & J6) Hfresh.
  assert (Hown : amem k (own o) = false).
  { destruct (amem k (own o)) eqn:E; auto. rewrite (J6 k E) in Hfresh. discriminate. }
  assert (Hq : qlast k (ep_q p) = None).
  { destruct (qlast k (ep_q p)) eqn:E; auto.
    assert (Hn : qlast k (ep_q p) <> None) by congruence. apply J3 in Hn. congruence. }
  own_split; cbn [ep_en ep_q ep_cent own dlv sp_en attached].
  - exact J1.
  - intros k0 e0. rewrite !alookup_aset. destruct (k0 =? k) eqn:E.
    + apply Z.eqb_eq in E. subst k0. rewrite Hq. auto.
    + apply J2.
  - intros k0 Hk. rewrite amem_aset. rewrite (J3 k0 Hk). apply orb_true_r.
  - intros k0 Hk. rewrite memz_addz in Hk. rewrite amem_aset.
    destruct (k0 =? k) eqn:E; cbn [orb] in *.
    + apply Z.eqb_eq in E. subst k0. auto.
    + now apply J4.
  - exact J5.
  - intros k0. rewrite amem_aset, memz_cons. destruct (k0 =? k); cbn [orb]; auto; apply J6.
Qed.

(* the triple and the history summary move together *)
Lemma own_step p o op :
  OwnInv p o -> cop_wf H K P o op = true -> OwnInv (cop_ev p op) (ospec_step K o op).
Proof.
  intros HI Hwf. unfold cop_wf in Hwf.
  apply andb_true_iff in Hwf. destruct Hwf as (_ & Hop).
  pose proof (own_attaches (attaches op) p o HI) as HA.
  unfold ospec_step. destruct op as [w|k e s|k e].
  - destruct w as [| | | | | | | |b| | |]; try exact HA.
    cbn [attaches fold_left]. cbn [cop_ev].
    pose proof (own_enable p o b HI) as HE. destruct b; exact HE.
  - destruct s; exact HA.
  - cbn [attaches fold_left cop_ev]. apply andb_true_iff in Hop. destruct Hop as (Hk & _).
    apply negb_true_iff in Hk. now apply own_mk.
Qed.

Lemma own_cent p o k e :
  OwnInv p o -> alookup k (own o) = Some e -> memz k (dlv o) = true ->
  alookup k (ep_cent p) = Some e.
Proof.
  intros (J1 & J2 & J3 & J4 & J5 & J6) Ho Hd. specialize (J2 k e Ho).
  now rewrite (proj1 (J4 k Hd)) in J2.
Qed.

Lemma knows_snapshot pool st o :
  OwnInv (evp_of st) o -> knows o (snapshot K pool st) = true.
Proof.
  intros HI. unfold knows, snapshot. cbn [sn_world sn_cent andb].
  apply forallb_forall. intros ke Hin. apply in_map_iff in Hin.
  destruct Hin as (k & <- & _). cbn [fst snd].
  destruct (memz k (dlv o)) eqn:E; auto.
  pose proof HI as (_ & _ & _ & J4 & _). pose proof (proj2 (J4 k E)) as Hm. unfold amem in Hm.
  destruct (alookup k (own o)) as [e|] eqn:Eo; [|discriminate].
  pose proof (own_cent _ _ _ _ HI Eo E) as Hc. cbn [evp_of ep_cent] in Hc. rewrite Hc.
  apply Z.eqb_refl.
Qed.

End PartA.

Lemma side_ok_inv K pool r ores olog osnap st' :
  side_ok K pool r ores olog osnap = Some st' ->
  exists mres mlog, r = Some (st', mres, mlog) /\ ores = mres /\ olog = mlog /\
                    osnap = snapshot K pool st'.
Proof.
  unfold side_ok. destruct r as [[[s mres] mlog]|]; [|discriminate].
  destruct (res_eqb ores mres) eqn:E1; cbn [andb]; [|discriminate].
  destruct (evs_eqb olog mlog) eqn:E2; cbn [andb]; [|discriminate].
  destruct (snap_eqb osnap (snapshot K pool s)) eqn:E3; [|discriminate].
  intros [= <-]. apply res_eqb_eq in E1. apply evs_eqb_eq in E2. apply snap_eqb_eq in E3.
  eauto 6.
Qed.

Lemma cstep_sim c st o op ob stA' stB' :
  let H := cc_hier c in let K := cc_comps c in let P := cc_procs c in
  OwnInv (evp_of st) o -> cop_wf H K P o op = true ->
  cstep c st st op ob = Some (stA', stB') ->
  stA' = stB' /\ OwnInv (evp_of stA') (ospec_step K o op) /\
  same_effect ob = true /\ knows (ospec_step K o op) (a_snap ob) = true.
Proof.
  intros H K P HI Hwf Hstep. unfold cstep in Hstep. fold H K P in Hstep.
  set (rA := match op with
             | ODirect w => w_step H K P st w (o_pick ob)
             | OShort k e s => via_controller H K P st k s (o_pick ob)
             | OMkCtrl k e => Some (mk_controller st k e, RNone, [])
             end).
  set (rB := match op with
             | ODirect w => w_step H K P st w (o_pick ob)
             | OShort k e s => direct_call H K P st e s (o_pick ob)
             | OMkCtrl k e => Some (mk_controller st k e, RNone, [])
             end).
  assert (Hpair : (let '(a, b) :=
                     match op with
                     | ODirect w => (w_step H K P st w (o_pick ob), w_step H K P st w (o_pick ob))
                     | OShort k e s => (via_controller H K P st k s (o_pick ob),
                                        direct_call H K P st e s (o_pick ob))
                     | OMkCtrl k e => (Some (mk_controller st k e, RNone, []),
                                       Some (mk_controller st k e, RNone, []))
                     end in
                   match side_ok K (cc_pool c) a (a_res ob) (a_log ob) (a_snap ob),
                         side_ok K (cc_pool c) b (b_res ob) (b_log ob) (b_snap ob) with
                   | Some a', Some b' => Some (a', b')
                   | _, _ => None
                   end)
                  = match side_ok K (cc_pool c) rA (a_res ob) (a_log ob) (a_snap ob),
                          side_ok K (cc_pool c) rB (b_res ob) (b_log ob) (b_snap ob) with
                    | Some a', Some b' => Some (a', b')
                    | _, _ => None
                    end) by (unfold rA, rB; destruct op; reflexivity).
  rewrite Hpair in Hstep. clear Hpair.
  (* the controller's entity is the entity of its attachment: both sides run the same call *)
  assert (HAB : rA = rB).
  { unfold rA, rB. destruct op as [w|k e s|k e]; auto.
    unfold cop_wf in Hwf. apply andb_true_iff in Hwf. destruct Hwf as (_ & Hop).
    apply andb_true_iff in Hop. destruct Hop as (Hop & Hsw).
    apply andb_true_iff in Hop. destruct Hop as (Hown & Hdlv).
    apply opt_eqb_eq in Hown.
    pose proof (own_cent _ _ _ _ HI Hown Hdlv) as I3.
    cbn [evp_of ep_cent] in I3.
    unfold via_controller, direct_call. rewrite I3.
    assert (Hg : set_guard H K P s = true) by (destruct s; exact Hsw || reflexivity).
    rewrite Hg. cbn [negb]. reflexivity. }
  rewrite <- HAB in Hstep.
  destruct (side_ok K (cc_pool c) rA (a_res ob) (a_log ob) (a_snap ob)) as [a'|] eqn:EA;
    [|discriminate].
  destruct (side_ok K (cc_pool c) rA (b_res ob) (b_log ob) (b_snap ob)) as [b'|] eqn:EB;
    [|discriminate].
  injection Hstep as <- <-.
  apply side_ok_inv in EA. destruct EA as (mres & mlog & ErA & Ea1 & Ea2 & Ea3).
  apply side_ok_inv in EB. destruct EB as (mres' & mlog' & ErB & Eb1 & Eb2 & Eb3).
  rewrite ErA in ErB. injection ErB as <- <- <-.
  assert (Hev : evp_of a' = cop_ev K (evp_of st) op).
  { rewrite HAB in ErA. unfold rB in ErA. destruct op as [w|k e s|k e].
    - rewrite <- wop_ev_attaches. eapply evp_w_step; eauto.
    - rewrite <- (lower_ev K _ k e s).
      unfold direct_call in ErA.
      destruct (lower s e) as [w d] eqn:El. cbn [fst].
      destruct (w_step H K P st w (o_pick ob)) as [[[s1 r1] l1]|] eqn:Ew; [|discriminate].
      injection ErA as <- _ _. eapply evp_w_step; eauto.
    - injection ErA as <- _ _. reflexivity. }
  pose proof (own_step H K P _ _ _ HI Hwf) as HI'. rewrite <- Hev in HI'.
  split; [reflexivity|split; [exact HI'|split]].
  - unfold same_effect. rewrite Ea1, Eb1, Ea2, Eb2, Ea3, Eb3.
    apply andb_true_iff. split; [apply andb_true_iff; split|].
    + now apply res_eqb_eq.
    + now apply evs_eqb_eq.
    + now apply snap_eqb_eq.
  - rewrite Ea3. now apply knows_snapshot.
Qed.

Lemma crun_sim c tr : forall st o,
  OwnInv (evp_of st) o ->
  ctrl_wf_from (cc_hier c) (cc_comps c) (cc_procs c) o tr = true ->
  (exists r, crun c st st tr = Some r) ->
  ctrl_holds_from (cc_comps c) o tr = true.
Proof.
  induction tr as [|[op ob] tr IH]; intros st o HI Hwf (r & Hrun); cbn [ctrl_holds_from]; auto.
  cbn [ctrl_wf_from] in Hwf. apply andb_true_iff in Hwf. destruct Hwf as (Hwf1 & Hwf).
  cbn [crun] in Hrun.
  destruct (cstep c st st op ob) as [[a b]|] eqn:Es; [|discriminate].
  destruct (cstep_sim c st o op ob a b HI Hwf1 Es) as (<- & HI' & Hsame & Hknows).
  rewrite Hsame, Hknows. cbn [andb]. eapply IH; eauto.
Qed.

Theorem ctrl_accepts_holds c :
  ctrl_wf_b c = true -> ctrl_accepts c = true -> ctrl_holds_b c = true.
Proof.
  unfold ctrl_wf_b, ctrl_accepts, ctrl_holds_b. intros Hwf Hacc.
  apply andb_true_iff in Hwf. destruct Hwf as (_ & Hwf).
  destruct (crun c winit winit (cc_trace c)) as [r|] eqn:E; [|discriminate].
  eapply crun_sim; eauto. apply OwnInv_init.
Qed.

(* ====================================================================== *)
(* Part B                                                                  *)
(* ====================================================================== *)
Lemma builder_source T p t m :
  m_fid m = builder_for T p t -> source_ok T p t m = true.
Proof.
  unfold builder_for, source_ok. intros ->.
  destruct (alookup t (p_methods p)); [apply Z.eqb_refl|].
  destruct (getattr_named p _); apply Z.eqb_refl.
Qed.

Lemma iter_sim T p ts : forall ms x,
  (let '(l, x') := iterate T p ts in all2 made_ok ms l && (x =? x')) = true ->
  iter_holds T p ts ms x = true.
Proof.
  induction ts as [|t ts IH]; intros ms x; cbn [iterate].
  - destruct ms; cbn [all2 andb iter_holds]; auto; try discriminate.
  - destruct ((builder_for T p t =? 0) && negb (t_nullary (tinfo_of T t))) eqn:Estop.
    + destruct ms; cbn [all2 andb iter_holds]; [|discriminate]. intros Hx.
      apply andb_true_iff in Estop. destruct Estop as (E0 & En).
      rewrite Hx, En. cbn [andb]. apply builder_source. cbn [m_fid].
      apply Z.eqb_eq in E0. now rewrite E0.
    + specialize (IH (tl ms) x). destruct (iterate T p ts) as [l x'].
      destruct ms as [|m ms]; cbn [all2 andb]; [discriminate|]. cbn [tl] in IH.
      intros Hm. apply andb_true_iff in Hm. destruct Hm as (Hm & Hx).
      apply andb_true_iff in Hm. destruct Hm as (Hm & Hall).
      unfold made_ok in Hm. cbn [fst snd] in Hm.
      cbn [iter_holds].
      assert (Hf : m_fid m = builder_for T p t) by lia.
      rewrite (builder_source T p t m Hf), IH by (now rewrite Hall, Hx).
      lia.
Qed.

Theorem proto_accepts_holds c : proto_accepts c = true -> proto_holds_b c = true.
Proof.
  unfold proto_accepts, proto_holds_b. rewrite !forallb_forall. intros Hacc po Hpo.
  specialize (Hacc po Hpo). rewrite forallb_forall in *. intros ob Hob.
  specialize (Hacc ob Hob). unfold iter_accepts in Hacc. apply iter_sim.
  destruct (iterate (pc_types c) (fst po) (p_types (fst po))). exact Hacc.
Qed.

(* what [iter_holds] says for one produced component, spelled out: the
   builder is the entry of init_methods if there is one, else the method
   named prefix ++ name if there is one, else the default *)
Lemma source_ok_meaning T p t m : source_ok T p t m = true ->
  (forall f, alookup t (p_methods p) = Some f -> m_fid m = f) /\
  (alookup t (p_methods p) = None ->
   forall g, getattr_named p (t_name (tinfo_of T t)) = Some g -> m_fid m = g) /\
  (alookup t (p_methods p) = None -> getattr_named p (t_name (tinfo_of T t)) = None ->
   m_fid m = p_default p).
Proof.
  unfold source_ok. intros Hs. repeat split.
  - intros f E. rewrite E in Hs. lia.
  - intros E g Eg. rewrite E, Eg in Hs. lia.
  - intros E Eg. rewrite E, Eg in Hs. lia.
Qed.

(* ====================================================================== *)
(* Part C                                                                  *)
(* ====================================================================== *)
Lemma insert_sorted_perm x l : Permutation (insert_sorted x l) (x :: l).
Proof.
  induction l as [|y l IH]; cbn [insert_sorted]; auto.
  destruct (x <=? y); auto. eapply perm_trans; [apply perm_skip, IH|apply perm_swap].
Qed.

Lemma isort_perm l : Permutation (isort l) l.
Proof.
  induction l as [|x l IH]; cbn [isort fold_right]; auto.
  eapply perm_trans; [apply insert_sorted_perm|]. now constructor.
Qed.

Lemma count_calls_notin h dt l :
  ~ In h l -> count_calls h (map (fun x => (x, dt)) l) = 0.
Proof.
  induction l as [|y l IH]; cbn [map count_calls]; intros Hn; auto.
  destruct (h =? y) eqn:E.
  - apply Z.eqb_eq in E. subst. exfalso. apply Hn. now left.
  - rewrite IH; auto. intros Hin. apply Hn. now right.
Qed.

Lemma count_calls_nodup h dt l :
  NoDup l -> In h l -> count_calls h (map (fun x => (x, dt)) l) = 1.
Proof.
  induction 1 as [|y l Hn Hd IH]; cbn [map count_calls]; intros Hin; [contradiction|].
  destruct Hin as [->|Hin].
  - rewrite Z.eqb_refl, count_calls_notin; auto.
  - destruct (h =? y) eqn:E.
    + apply Z.eqb_eq in E. subst. contradiction.
    + rewrite IH; auto.
Qed.

Lemma frame_ok_listeners ls dt :
  NoDup ls ->
  frame_ok {| us_listeners := ls; us_oup := true |} dt (map (fun h => (h, dt)) (isort ls)) = true.
Proof.
  intros Hd. unfold frame_ok. cbn [us_oup us_listeners].
  pose proof (isort_perm ls) as HP.
  apply andb_true_iff. split; apply forallb_forall.
  - intros h Hh. apply Z.eqb_eq. apply count_calls_nodup.
    + eapply Permutation_NoDup; [apply Permutation_sym, HP|exact Hd].
    + eapply Permutation_in; [apply Permutation_sym, HP|exact Hh].
  - intros hd Hin. apply in_map_iff in Hin. destruct Hin as (h & <- & Hh). cbn [fst snd].
    rewrite Z.eqb_refl, andb_true_r. apply memz_In. eapply Permutation_in; eauto.
Qed.

Lemma NoDup_addz x l : NoDup l -> NoDup (addz x l).
Proof.
  intros Hd. unfold addz. destruct (memz x l) eqn:E; auto.
  apply NoDup_snoc; auto. intros Hin. apply memz_In in Hin. congruence.
Qed.
Lemma NoDup_remz x l : NoDup l -> NoDup (remz x l).
Proof. intros Hd. unfold remz. now apply NoDup_filter. Qed.
Lemma remz_notin x l : ~ In x l -> remz x l = l.
Proof.
  intros Hn. unfold remz. apply filter_all. intros y Hy. apply negb_true_iff.
  apply Z.eqb_neq. intros ->. contradiction.
Qed.
Lemma In_addz y x l : In y (addz x l) <-> y = x \/ In y l.
Proof.
  rewrite <- !memz_In, memz_addz, orb_true_iff, Z.eqb_eq. tauto.
Qed.
Lemma In_remz y x l : In y (remz x l) -> In y l.
Proof. unfold remz. intros Hin. apply filter_In in Hin. tauto. Qed.

Definition UR (st : ustate) (s : uspec) : Prop :=
  u_events st = us_listeners s /\ NoDup (u_events st) /\
  (forall h, In h (u_events st) -> In h (u_handlers st)) /\
  (us_oup s = match u_oup st with Some _ => true | None => false end).

Lemma ustep_sim c st s o calls st' :
  UR st s -> ustep c st o calls = Some st' ->
  exists s', uspec_step c s o calls = Some s' /\ UR st' s'.
Proof.
  intros (He & Hd & Hsub & Ho) Hs. destruct o as [h|h|p| |dt]; cbn [ustep uspec_step] in *.
  - destruct (list_eqb pair_eqb calls []); [|discriminate]. injection Hs as <-.
    eexists; split; [reflexivity|]. repeat split; cbn; auto.
    + now rewrite He.
    + destruct (listens c h); auto. now apply NoDup_addz.
    + intros y Hy. apply In_addz. destruct (listens c h); auto.
      apply In_addz in Hy. destruct Hy; auto.
  - destruct (list_eqb pair_eqb calls []); [|discriminate].
    destruct (memz h (u_handlers st)) eqn:Em; injection Hs as <-;
      (eexists; split; [reflexivity|]); repeat split; cbn; auto.
    + now rewrite He.
    + now apply NoDup_remz.
    + intros y Hy. unfold remz in *. apply filter_In in Hy. destruct Hy as (Hy & Hne).
      apply filter_In. split; auto.
    + rewrite <- He. symmetry. apply remz_notin. intros Hin. apply Hsub in Hin.
      apply memz_In in Hin. congruence.
  - destruct (list_eqb pair_eqb calls []); [|discriminate]. injection Hs as <-.
    eexists; split; [reflexivity|]. repeat split; cbn; auto.
  - destruct (list_eqb pair_eqb calls []); [|discriminate]. injection Hs as <-.
    eexists; split; [reflexivity|]. repeat split; cbn; auto.
  - destruct (list_eqb pair_eqb calls _) eqn:E; [|discriminate]. injection Hs as <-.
    assert (Hcalls : calls = match u_oup st with
                             | Some _ => map (fun h => (h, dt)) (isort (u_events st))
                             | None => [] end).
    { apply (list_eqb_eq pair_eqb); auto. intros [a1 a2] [b1 b2]. unfold pair_eqb. cbn [fst snd].
      rewrite andb_true_iff, !Z.eqb_eq. split; [intros (-> & ->); reflexivity|].
      intros [= -> ->]. auto. }
    exists s. split; [|repeat split; auto].
    assert (Hf : frame_ok s dt calls = true).
    { destruct s as [ls ou]. cbn [us_listeners us_oup] in *. subst ls.
      destruct (u_oup st); subst ou calls.
      - now apply frame_ok_listeners.
      - reflexivity. }
    now rewrite Hf.
Qed.

Lemma urun_sim c tr : forall st s st',
  UR st s -> urun c st tr = Some st' -> uspec_run c s tr = true.
Proof.
  induction tr as [|[o calls] tr IH]; intros st s st' HR Hrun; cbn [urun uspec_run] in *; auto.
  destruct (ustep c st o calls) as [st1|] eqn:Es; [|discriminate].
  destruct (ustep_sim _ _ _ _ _ _ HR Es) as (s1 & -> & HR1). eauto.
Qed.

Theorem upd_accepts_holds c : upd_accepts c = true -> upd_holds_b c = true.
Proof.
  unfold upd_accepts, upd_holds_b. destruct (urun c uinit (uc_trace c)) as [st'|] eqn:E;
    [|discriminate].
  intros _. eapply urun_sim; eauto. repeat split; cbn; auto. constructor.
Qed.

(* ====================================================================== *)
Theorem accepts_holds c : wf_b c = true -> accepts c = true -> holds c.
Proof.
  unfold holds. destruct c as [c|c|c]; cbn [wf_b accepts holds_b]; intros Hwf Hacc.
  - now apply ctrl_accepts_holds.
  - now apply proto_accepts_holds.
  - now apply upd_accepts_holds.
Qed.

(* the model-level reading of part A: through a controller whose entity
   field is e, every shorthand is the World call for e *)
Lemma via_controller_direct H K P st k e s pick :
  alookup k (cent st) = Some e -> set_guard H K P s = true ->
  via_controller H K P st k s pick = direct_call H K P st e s pick.
Proof. intros Hc Hg. unfold via_controller, direct_call. now rewrite Hc, Hg. Qed.

(* and the owner invariant: along any accepted well-formed trace, after
   every operation, every controller whose on_add has been delivered has the
   entity of its attachment in its entity field *)
Lemma knows_meaning o s k :
  knows o s = true -> memz k (dlv o) = true ->
  forall x, In (k, x) (sn_cent s) -> x = alookup k (own o).
Proof.
  unfold knows. intros Hk Hd x Hin. apply andb_true_iff in Hk. destruct Hk as (_ & Hk).
  rewrite forallb_forall in Hk. specialize (Hk (k, x) Hin). cbn [fst snd] in Hk.
  rewrite Hd in Hk. now apply opt_eqb_eq.
Qed.
