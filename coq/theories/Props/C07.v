(* C07 - Processors run once per frame in priority order, one per type.
   Statement file: theorems only, each closed by [exact]. *)
From Coq Require Import ZArith List Bool Sorted Permutation.
From Desper Require Import Lib.Alist Logic.Bisect Logic.C07Model Logic.C07Proofs.
Import ListNotations.
Open Scope Z_scope.

(* Every trace of observations that the model of add_processor /
   remove_processor / get_processor / processors / process (with bisect.insort,
   the relay of on_add / on_remove while dispatching is disabled, and
   processor bodies that themselves add / remove / query processors during
   the frame) accepts satisfies the property [holds] (C07Model.spec_istep):
   after every operation - issued at top level or from inside a processor
   body - world.processors lists exactly the registered processors, strictly
   increasing in (priority, time of adding), no two of one exact type;
   process(dt) calls, in the order world.processors had when the frame
   started, exactly those of them that are registered when their turn comes,
   once each, with dt - so a processor added during a frame first runs in the
   next one and a removed or replaced one does not run after its on_remove;
   add_processor replaces the processor of the same exact type, which gets
   on_remove (at once, or when dispatching is enabled again), the priority
   used is the explicit one whenever one is given (0 and negatives
   included), the added processor's world is this world and it gets on_add;
   remove_processor / get_processor answer with the processor of exactly the
   type when there is one, else with a registered processor of a subtype,
   None only when there is none; no operation raises.
   For all class hierarchies, processor sets, priorities, body scripts and
   trace lengths. *)
Theorem C07_processors :
  forall c : C07_case, wf_b c = true -> known_b c = false ->
                       accepts c = true -> holds c.
Proof. intros c _ _. exact (accepts_holds c). Qed.
Print Assumptions C07_processors.

(* desper/bisect.py, pure: on a list sorted by key the binary search returns
   the linear-scan insertion point (the loop's fuel hi - lo + 1 suffices) *)
Theorem C07_bisect_right_spec :
  forall (A : Type) (key : A -> Z) (a : list A) (x : Z), sorted_by_key key a ->
    let i := bisect_right key a x in
    (i <= length a)%nat /\
    (forall j v, (j < i)%nat -> nth_error a j = Some v -> key v <= x) /\
    (forall j v, (i <= j)%nat -> nth_error a j = Some v -> x < key v).
Proof. intros A key a x. exact (bisect_right_spec key a x). Qed.
Print Assumptions C07_bisect_right_spec.

(* insort keeps the list sorted and is stable *)
Theorem C07_insort_sorted_stable :
  forall (A : Type) (key : A -> Z) (a : list A) (e : A), sorted_by_key key a ->
    exists l1 l2, a = l1 ++ l2 /\ insort_right key a e = l1 ++ e :: l2 /\
                  Forall (fun v => key v <= key e) l1 /\
                  Forall (fun v => key e < key v) l2 /\
                  sorted_by_key key (insort_right key a e).
Proof. intros A key a e. exact (insort_sorted_stable key a e). Qed.
Print Assumptions C07_insort_sorted_stable.

(* reading of [holds] on raw observations: the order check of the
   specification accepts a list exactly when it enumerates the registered
   set once, strictly sorted by (priority, time of adding), with pairwise
   different exact types ... *)
Theorem C07_order_ok_meaning :
  forall I r l, order_ok I r l = true ->
    exists L, l = map s_pid L /\ Permutation L r /\ StronglySorted slt L /\
              NoDup (map (fun p => i_ty (inst_of I p)) l).
Proof. exact order_ok_meaning. Qed.
Print Assumptions C07_order_ok_meaning.

(* ... a frame that the specification accepts ran a subsequence of the
   start-of-frame list, every body with the frame's dt (which ones: exactly
   those registered at their turn, by the definition of spec_frame) ... *)
Theorem C07_frame_meaning :
  forall H I dt order ss bs ss', spec_frame H I dt order ss bs = Some ss' ->
    subseq (map b_pid bs) order /\ Forall (fun b => b_dt b = dt) bs.
Proof. exact frame_meaning. Qed.
Print Assumptions C07_frame_meaning.

(* ... and when the bodies leave the world alone, exactly that list *)
Theorem C07_frame_plain_meaning :
  forall H I dt order ss bs ss',
    (forall p, In p order -> is_reg ss p = true) ->
    Forall (fun b => b_acts b = []) bs ->
    spec_frame H I dt order ss bs = Some ss' ->
    ss' = ss /\ map b_pid bs = order /\ Forall (fun b => b_dt b = dt) bs.
Proof. exact frame_plain_meaning. Qed.
Print Assumptions C07_frame_plain_meaning.

(* ---- non-vacuity and rejected behaviours -------------------------------- *)
Definition ex_hier : hier := [(0, [0]); (1, [1; 0]); (2, [2; 1; 0])].
Definition ex_insts : insts :=
  [(0, Build_inst 1 true true true); (1, Build_inst 1 false false false);
   (2, Build_inst 2 true false false); (3, Build_inst 0 false false false)].
Definition ob (ret : option Z) (log : list ev) (ps : list Z) : obs := Build_obs 0 ret log ps true.
Definition ex_ok : C07_case :=
  {| c_hier := ex_hier; c_insts := ex_insts; c_trace :=
     [ Step (OAdd 0 (Some 0) 1) (ob None [EAdd 0] [0]);
       Step (OAdd 2 None 0) (ob None [] [0; 2]);                 (* tie: later one behind *)
       Step (OAdd 3 (Some (-1)) 0) (ob None [] [3; 0; 2]);
       (* a frame: 3 runs and replaces 0 by 1 (same type, priority -2) and removes type 2;
          0 and 2 do not run any more, 1 was added during the frame and does not run in it *)
       Frame 4 [ Build_body 3 4 [ (OAdd 1 (Some (-2)) 5, ob None [ERemove 0] [1; 3; 2]);
                                  (ORemove 2, ob (Some 2) [] [1; 3]) ] ]
             (ob None [] [1; 3]);
       Frame 8 [ Build_body 1 8 []; Build_body 3 8 [ (OAdd 1 (Some (-2)) (-2), ob None [] [1; 3]) ] ]
             (ob None [] [1; 3]);           (* 3 re-adds 1 in every frame *)
       Step (OEnable false) (ob None [] [1; 3]);
       Step (OAdd 0 (Some 0) 5) (ob None [] [3; 0]);             (* replaces 1; 0's on_add owed *)
       Step (ORemove 0) (ob (Some 3) [] [0]);                    (* exact type *)
       Step (OEnable true) (ob None [EAdd 0] [0]);
       Step (OGet 1) (ob (Some 0) [] [0]);
       Step (ORemove 0) (ob (Some 0) [ERemove 0] []);            (* a subtype *)
       Frame 0 [] (ob None [] []) ] |}.
Example C07_nonvacuous :
  wf_b ex_ok = true /\ known_b ex_ok = false /\ accepts ex_ok = true /\ holds_b ex_ok = true.
Proof. vm_compute. auto. Qed.

Definition mk (tr : trace) : C07_case :=
  {| c_hier := ex_hier; c_insts := ex_insts; c_trace := tr |}.
(* insort_left: the later of two equal priorities in front *)
Example C07_tie_order_rejected :
  holds_b (mk [ Step (OAdd 0 (Some 0) 1) (ob None [EAdd 0] [0]);
                Step (OAdd 2 None 0) (ob None [] [2; 0]) ]) = false.
Proof. vm_compute. reflexivity. Qed.
(* "if priority:" - an explicit 0 ignored in favour of p.priority = 1 *)
Example C07_explicit_zero_rejected :
  holds_b (mk [ Step (OAdd 0 (Some 0) 1) (ob None [EAdd 0] [0]);
                Step (OAdd 3 (Some 0) 0) (ob None [] [3; 0]) ]) = false.
Proof. vm_compute. reflexivity. Qed.
(* the replaced instance still in the execution list *)
Example C07_lingering_rejected :
  holds_b (mk [ Step (OAdd 1 None 0) (ob None [] [1]);
                Step (OAdd 0 None 0) (ob None [EAdd 0] [1; 0]) ]) = false.
Proof. vm_compute. reflexivity. Qed.
(* a different dt *)
Example C07_other_dt_rejected :
  holds_b (mk [ Step (OAdd 1 None 0) (ob None [] [1]);
                Frame 4 [Build_body 1 8 []] (ob None [] [1]) ]) = false.
Proof. vm_compute. reflexivity. Qed.
(* KeyError when dispatching is enabled again (handler without on_remove
   removed while disabled) *)
Example C07_enable_raises_rejected :
  holds_b (mk [ Step (OAdd 2 None 0) (ob None [] [2]);
                Step (OEnable false) (ob None [] [2]);
                Step (ORemove 2) (ob (Some 2) [] []);
                Step (OEnable true) (Build_obs 1 None [] [] true) ]) = false.
Proof. vm_compute. reflexivity. Qed.
(* process() iterating the live list: 3 adds 1 in front of itself and is called again *)
Example C07_called_twice_rejected :
  holds_b (mk [ Step (OAdd 3 None 0) (ob None [] [3]);
                Frame 4 [ Build_body 3 4 [ (OAdd 1 (Some (-1)) 0, ob None [] [1; 3]) ];
                          Build_body 3 4 [ (OAdd 1 (Some (-1)) (-1), ob None [] [1; 3]) ] ]
                      (ob None [] [1; 3]) ]) = false.
Proof. vm_compute. reflexivity. Qed.
(* a processor removed by an earlier body of the frame still runs *)
Example C07_runs_after_removal_rejected :
  holds_b (mk [ Step (OAdd 3 (Some (-1)) 0) (ob None [] [3]);
                Step (OAdd 1 None 0) (ob None [] [3; 1]);
                Frame 4 [ Build_body 3 4 [ (ORemove 1, ob (Some 1) [] [3]) ]; Build_body 1 4 [] ]
                      (ob None [] [3]) ]) = false.
Proof. vm_compute. reflexivity. Qed.
(* in-place deletion under a live iteration: the processor after the removed one is skipped *)
Example C07_skipped_rejected :
  holds_b (mk [ Step (OAdd 3 (Some (-1)) 0) (ob None [] [3]);
                Step (OAdd 1 None 0) (ob None [] [3; 1]);
                Step (OAdd 2 (Some 1) 0) (ob None [] [3; 1; 2]);
                Frame 4 [ Build_body 3 4 []; Build_body 1 4 [ (ORemove 0, ob (Some 3) [] [1; 2]) ] ]
                      (ob None [] [1; 2]) ]) = false.
Proof. vm_compute. reflexivity. Qed.
