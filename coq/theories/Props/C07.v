(* C07 - Processors run once per frame in priority order, one per type.
   Statement file: theorems only, each closed by [exact]. *)
From Coq Require Import ZArith List Bool Sorted Permutation.
From Desper Require Import Lib.Alist Logic.Bisect Logic.C07Model Logic.C07Proofs.
Import ListNotations.
Open Scope Z_scope.

(* Every trace of observations that the model of add_processor /
   remove_processor / get_processor / processors / process (with bisect.insort
   and the relay of on_add / on_remove while dispatching is disabled) accepts
   satisfies the property [holds] (C07Model.spec_step): after every operation
   world.processors lists exactly the registered processors, strictly
   increasing in (priority, time of adding), no two of one exact type;
   process(dt) calls exactly that list, in that order, once each, with dt;
   add_processor replaces the processor of the same exact type, which gets
   on_remove (at once, or when dispatching is enabled again) and is not
   registered any more - hence in no later list and no later frame - the
   priority used is the explicit one whenever one is given (0 and negatives
   included), the added processor's world is this world and it gets on_add;
   remove_processor / get_processor answer with the processor of exactly the
   type when there is one, else with a registered processor of a subtype,
   None only when there is none; no operation raises.
   For all class hierarchies, processor sets, priorities and trace lengths. *)
Theorem C07_processors :
  forall c : C07_case, wf_b c = true -> known_b c = false ->
                       accepts c = true -> holds c.
Proof. intros c _ _. exact (accepts_holds c). Qed.
Print Assumptions C07_processors.

(* desper/bisect.py, pure: on a list sorted by key the binary search returns
   the linear-scan insertion point (the loop's fuel hi - lo + 1 suffices) *)
Theorem C07_bisect_right_spec :
  forall (A : Type) (key : A -> Z) (a : list A) (x : Z), sorted_by_key key a ->
    let i := bisect_right key a x in
    (i <= length a)%nat /\
    (forall j v, (j < i)%nat -> nth_error a j = Some v -> key v <= x) /\
    (forall j v, (i <= j)%nat -> nth_error a j = Some v -> x < key v).
Proof. intros A key a x. exact (bisect_right_spec key a x). Qed.
Print Assumptions C07_bisect_right_spec.

(* insort keeps the list sorted and is stable *)
Theorem C07_insort_sorted_stable :
  forall (A : Type) (key : A -> Z) (a : list A) (e : A), sorted_by_key key a ->
    exists l1 l2, a = l1 ++ l2 /\ insort_right key a e = l1 ++ e :: l2 /\
                  Forall (fun v => key v <= key e) l1 /\
                  Forall (fun v => key e < key v) l2 /\
                  sorted_by_key key (insort_right key a e).
Proof. intros A key a e. exact (insort_sorted_stable key a e). Qed.
Print Assumptions C07_insort_sorted_stable.

(* reading of [holds] on raw observations: the order check of the
   specification accepts a list exactly when it enumerates the registered
   set once, strictly sorted by (priority, time of adding), with pairwise
   different exact types ... *)
Theorem C07_order_ok_meaning :
  forall I r l, order_ok I r l = true ->
    exists L, l = map s_pid L /\ Permutation L r /\ StronglySorted slt L /\
              NoDup (map (fun p => i_ty (inst_of I p)) l).
Proof. exact order_ok_meaning. Qed.
Print Assumptions C07_order_ok_meaning.

(* ... and a frame that the specification accepts called exactly the
   registered processors, once each, in that order, with the frame's dt *)
Theorem C07_process_meaning :
  forall H I ss dt ob ss', spec_step H I ss (OProcess dt) ob = Some ss' ->
    ss' = ss /\ o_exn ob = 0 /\
    exists L, o_log ob = map (fun s => ERun (s_pid s) dt) L /\
              Permutation L (reg ss) /\ StronglySorted slt L.
Proof. exact process_meaning. Qed.
Print Assumptions C07_process_meaning.

(* ---- non-vacuity and rejected behaviours -------------------------------- *)
Definition ex_hier : hier := [(0, [0]); (1, [1; 0]); (2, [2; 1; 0])].
Definition ex_insts : insts :=
  [(0, Build_inst 1 true true true); (1, Build_inst 1 false false false);
   (2, Build_inst 2 true false false); (3, Build_inst 0 false false false)].
Definition ex_ok : C07_case :=
  {| c_hier := ex_hier; c_insts := ex_insts; c_trace :=
     [ (OAdd 0 (Some 0) 1, Build_obs 0 None [EAdd 0] [0] true);
       (OAdd 2 None 0, Build_obs 0 None [] [0; 2] true);           (* tie: later one behind *)
       (OAdd 3 (Some (-1)) 0, Build_obs 0 None [] [3; 0; 2] true);
       (OProcess 4, Build_obs 0 None [ERun 3 4; ERun 0 4; ERun 2 4] [3; 0; 2] true);
       (OEnable false, Build_obs 0 None [] [3; 0; 2] true);
       (OAdd 1 (Some 0) 5, Build_obs 0 None [] [3; 2; 1] true);    (* replaces 0, on_remove owed *)
       (ORemove 0, Build_obs 0 (Some 3) [] [2; 1] true);           (* exact type *)
       (OEnable true, Build_obs 0 None [ERemove 0] [2; 1] true);
       (OGet 1, Build_obs 0 (Some 1) [] [2; 1] true);
       (ORemove 0, Build_obs 0 (Some 2) [] [1] true);              (* a subtype *)
       (OProcess 0, Build_obs 0 None [ERun 1 0] [1] true) ] |}.
Example C07_nonvacuous :
  wf_b ex_ok = true /\ known_b ex_ok = false /\ accepts ex_ok = true /\ holds_b ex_ok = true.
Proof. vm_compute. auto. Qed.

Definition mk (tr : trace) : C07_case :=
  {| c_hier := ex_hier; c_insts := ex_insts; c_trace := tr |}.
(* insort_left: the later of two equal priorities in front *)
Example C07_tie_order_rejected :
  holds_b (mk [ (OAdd 0 (Some 0) 1, Build_obs 0 None [EAdd 0] [0] true);
                (OAdd 2 None 0, Build_obs 0 None [] [2; 0] true) ]) = false.
Proof. vm_compute. reflexivity. Qed.
(* "if priority:" - an explicit 0 ignored in favour of p.priority = 1 *)
Example C07_explicit_zero_rejected :
  holds_b (mk [ (OAdd 0 (Some 0) 1, Build_obs 0 None [EAdd 0] [0] true);
                (OAdd 3 (Some 0) 0, Build_obs 0 None [] [3; 0] true) ]) = false.
Proof. vm_compute. reflexivity. Qed.
(* the replaced instance still in the execution list *)
Example C07_lingering_rejected :
  holds_b (mk [ (OAdd 1 None 0, Build_obs 0 None [] [1] true);
                (OAdd 0 None 0, Build_obs 0 None [EAdd 0] [1; 0] true) ]) = false.
Proof. vm_compute. reflexivity. Qed.
(* a different dt *)
Example C07_other_dt_rejected :
  holds_b (mk [ (OAdd 1 None 0, Build_obs 0 None [] [1] true);
                (OProcess 4, Build_obs 0 None [ERun 1 8] [1] true) ]) = false.
Proof. vm_compute. reflexivity. Qed.
(* KeyError when dispatching is enabled again (handler without on_remove
   removed while disabled) *)
Example C07_enable_raises_rejected :
  holds_b (mk [ (OAdd 2 None 0, Build_obs 0 None [] [2] true);
                (OEnable false, Build_obs 0 None [] [2] true);
                (ORemove 2, Build_obs 0 (Some 2) [] [] true);
                (OEnable true, Build_obs 1 None [] [] true) ]) = false.
Proof. vm_compute. reflexivity. Qed.
