(* C08 - Coroutines advance one step per frame and wake exactly on time.
   Statement file: theorems only, each closed by [exact]. *)
From Coq Require Import ZArith List Bool.
From Desper Require Import Lib.Alist Coro.Model Coro.Spec Coro.Main Coro.Reading.
Import ListNotations.
Open Scope Z_scope.

(* Every trace of observations that the model of CoroutineProcessor accepts
   satisfies the timing clauses checked by the abstract scheduler of
   Coro/Spec.v ([ok08]):
   - a body is executed only when its coroutine is ACTIVE, at most once per
     process call, and at the end of the call nobody who was ACTIVE at its
     start or whose wait ran out in it is still owed a step (unless killed);
     if a body raises (SwitchWorld, Quit, anything) the call is abandoned:
     nobody runs after it in that call, and from the next call on everything
     is as usual - the coroutines that had run and those that had not are all
     owed a step, in their previous relative order, waits unaffected;
   - the coroutines that stayed runnable since they last ran come in the
     same relative order as then;
   - a coroutine that yields n > 0 is PAUSED with remaining time n, every
     process(dt) subtracts dt, and it is ACTIVE - hence owed a step - exactly
     from the call in which the remaining time reaches <= 0; None, 0 and
     negative numbers leave it ACTIVE, i.e. owed a step in the next call.
   For all scripts (yield sequences, in-body start/kill/state), all start
   times, all dt, any number of coroutines and frames; kills and restarts
   included. *)
Theorem C08_wake_exactly_on_time :
  forall c : C08_case, wf_b c = true -> known08_b c = false ->
                       accepts c = true -> holds08 c.
Proof. intros c Hwf _ Ha. exact (accepts_holds08 c Hwf Ha). Qed.
Print Assumptions C08_wake_exactly_on_time.

(* Reading of the scheduler on raw observations: a coroutine paused with r
   to go and left alone (no start/kill aimed at it) is not in the log of any
   of the next process calls as long as the dt accumulated stays below r
   (never earlier) ... *)
Theorem C08_never_earlier :
  forall sc g frames t r,
    alookup g (t_st t) = Some (SPaused r) ->
    frames_only frames = true -> quiet sc g frames = true ->
    total_dt frames < r ->
    ok08 (sp_run sc t frames) = true ->
    ~ In g (logged frames) /\
    alookup g (t_st (sp_run sc t frames)) = Some (SPaused (r - total_dt frames)).
Proof. exact never_earlier. Qed.
Print Assumptions C08_never_earlier.

(* ... and it is in the log of the process call by which the accumulated dt
   reaches r (never later) - provided no body raises in that call ([calm]): a
   call in which a body raises is abandoned at that point. *)
Theorem C08_never_later :
  forall sc g frames t r dt log exc,
    alookup g (t_st t) = Some (SPaused r) ->
    frames_only frames = true -> quiet sc g (frames ++ [(Process dt, ObsP log exc)]) = true ->
    calm sc log = true ->
    total_dt frames < r -> r <= total_dt frames + dt ->
    ok08 (sp_run sc t (frames ++ [(Process dt, ObsP log exc)])) = true ->
    In g (log_gids log).
Proof. exact never_later. Qed.
Print Assumptions C08_never_later.

(* a runnable coroutine that is left alone is in the log of the next call *)
Theorem C08_one_step_per_frame :
  forall sc g t dt log exc,
    alookup g (t_st t) = Some SAct ->
    quiet sc g [(Process dt, ObsP log exc)] = true -> calm sc log = true ->
    ok08 (sp_step sc t (Process dt) (ObsP log exc)) = true ->
    In g (log_gids log) /\ NoDup (log_gids log).
Proof. exact one_step_per_frame. Qed.
Print Assumptions C08_one_step_per_frame.

(* non-vacuity: a trace recorded from /repo (three coroutines, waits of 1,
   1.5 and 0.5, an in-body kill and restart) meets all premises *)
Definition ex_ok : case :=
  mkCase [(0, [([], (RYield (YNum 8))); ([], (RYield YNone)); ([], (RReturn (Some 7)))]);
          (1, [([], (RYield YNone)); ([(AKill 2)], (RYield (YNum 12)));
               ([(AState 0); (AStart 2)], (RYield (YNum 0))); ([], (RReturn None))]);
          (2, [([], (RYield (YNum 4))); ([], (RYield (YNum 4))); ([], (RReturn (Some 1)))])]
         [(Start 0, ObsR OOk); (Start 1, ObsR OOk);
          (Process 4, ObsP [(0, 0, []); (1, 0, [])] OOk);
          (Start 2, ObsR OOk); (State 0, ObsR (OState 1));
          (Process 4, ObsP [(1, 1, [OOk])] OOk); (Process 0, ObsP [] OOk);
          (State 2, ObsR (OState 0)); (Process 8, ObsP [(0, 1, [])] OOk);
          (Process 4, ObsP [(0, 2, []); (1, 2, [(OState 0); OOk])] OOk);
          (Value 0, ObsV (Some 7)); (Process 8, ObsP [(2, 0, []); (1, 3, [])] OOk);
          (Process 8, ObsP [(2, 1, [])] OOk); (Value 2, ObsV None)] [2].
Example C08_nonvacuous :
  wf_b ex_ok = true /\ known08_b ex_ok = false /\ accepts ex_ok = true /\ holds08_b ex_ok = true.
Proof. vm_compute. auto. Qed.

(* a frame interrupted by a coroutine that raises SwitchWorld (recorded from
   /repo): 0 ran, 1 raised, 2 did not run; the next frames run 0 and 2 *)
Definition ex_raise : case :=
  mkCase [(0, [([], (RYield YNone)); ([], (RYield YNone)); ([], (RYield YNone));
               ([], (RYield YNone)); ([], (RReturn (Some 1)))]);
          (1, [([], (RYield YNone)); ([], (RRaise 1))]);
          (2, [([], (RYield YNone)); ([], (RYield YNone)); ([(AState 1)], (RYield YNone));
               ([], (RYield YNone)); ([], (RReturn (Some 2)))])]
         [(Start 0, ObsR OOk); (Start 1, ObsR OOk); (Start 2, ObsR OOk);
          (Process 8, ObsP [(0, 0, []); (1, 0, []); (2, 0, [])] OOk);
          (Process 8, ObsP [(0, 1, []); (1, 1, [])] (ORaised 1));
          (State 1, ObsR (OState 0)); (Value 1, ObsV None);
          (Process 8, ObsP [(0, 2, []); (2, 1, [])] OOk);
          (Process 8, ObsP [(0, 3, []); (2, 2, [(OState 0)])] OOk)] [0; 2].
Example C08_interrupted_frame :
  wf_b ex_raise = true /\ accepts ex_raise = true /\ holds08_b ex_raise = true.
Proof. vm_compute. auto. Qed.
(* what the code did before the repair 5fd221a: the frame after the
   interrupted one skipped the coroutine that had already run *)
Example C08_skipped_frame_rejected :
  holds08_b (mkCase (c_scripts ex_raise)
               [(Start 0, ObsR OOk); (Start 1, ObsR OOk); (Start 2, ObsR OOk);
                (Process 8, ObsP [(0, 0, []); (1, 0, []); (2, 0, [])] OOk);
                (Process 8, ObsP [(0, 1, []); (1, 1, [])] (ORaised 1));
                (Process 8, ObsP [(2, 1, [])] OOk)] []) = false.
Proof. vm_compute. reflexivity. Qed.

(* a coroutine that waits for 1 and is resumed after 0.5 (too early), one
   that is resumed a frame late, and one that runs twice in a frame *)
Definition one : scripts :=
  [(0, [([], RYield (YNum 8)); ([], RYield YNone); ([], RYield YNone); ([], RReturn None)])].
Example C08_too_early_rejected :
  holds08_b (mkCase one [(Start 0, ObsR OOk); (Process 4, ObsP [(0, 0, [])] OOk);
                         (Process 4, ObsP [(0, 1, [])] OOk)] []) = false.
Proof. vm_compute. reflexivity. Qed.
Example C08_too_late_rejected :
  holds08_b (mkCase one [(Start 0, ObsR OOk); (Process 4, ObsP [(0, 0, [])] OOk);
                         (Process 4, ObsP [] OOk); (Process 4, ObsP [] OOk);
                         (Process 4, ObsP [(0, 1, [])] OOk)] []) = false.
Proof. vm_compute. reflexivity. Qed.
Example C08_twice_rejected :
  holds08_b (mkCase one [(Start 0, ObsR OOk); (Process 4, ObsP [(0, 0, [])] OOk);
                         (Process 8, ObsP [(0, 1, []); (0, 2, [])] OOk)] []) = false.
Proof. vm_compute. reflexivity. Qed.
