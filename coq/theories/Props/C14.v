(* C14 - SimpleLoop feeds exact time deltas and stops cleanly on Quit.
   Statement file: theorems only, each closed by [exact].
   Second generation of the Loop family: the listener callbacks
   (on_world_load, on_switch_in, on_switch_out, on_quit) can themselves raise
   Quit, call quit_loop / switch, raise SwitchWorld or another exception, at
   any nesting depth (Loop/RBus.v, RModel.v, R14Model.v, R14Proofs.v). *)
From Coq Require Import ZArith List Bool.
From Desper Require Import Lib.Alist Loop.RBus Loop.RModel Loop.RFacts Loop.R14Model
     Loop.R14Proofs.
Import ListNotations.
Open Scope Z_scope.

(* For every case (any number of handles and processors, any sequence of
   loop.switch / start() operations, any clock readings, any frame scripts
   issued from any processor position by a processor, an event callback or a
   coroutine, any one-shot reactions of the load-time / switch-time / quit
   callbacks, including switch requests made while the loop is entering a
   world) whose observed logs the model of desper/loop.py accepts,
   every start() satisfies the checker of Loop/R14Model.v:
   - the first iteration after each start gets dt = 0, every later one exactly
     (this reading - previous reading of the time function), also when the
     world was switched in between;
   - in an iteration the processors of the loop's current world are called in
     order, each once, all with that dt, until one of them acts;
   - Quit - raised by a script, by the time function, by quit_loop after on_quit
     was delivered to the current world, or by any callback, also while the
     loop is entering a world - makes start() return with running = false and
     current world / handle as they were when Quit was raised; any other
     exception reaches the caller (a SwitchWorld either is honoured by the
     loop or reaches the caller: which one is C13's business);
   - the next start() begins again with dt = 0, however the previous ended. *)
Theorem C14_exact_dt :
  forall c : C14_case, wf_b c = true -> known14_b c = false ->
                       accepts c = true -> holds14 c.
Proof. intros c W K A. exact (accepts_holds14 c W K A). Qed.
Print Assumptions C14_exact_dt.

(* what the checker means on a raw log: the deltas handed to the first
   processor, one per iteration, add up to last reading - first reading *)
Theorem C14_deltas_telescope :
  forall nps l, nps_ok nps -> start14 nps l = true ->
    sum_dt0 l = match readings l with [] => 0 | t0 :: rs => last rs t0 - t0 end.
Proof. intros nps l H1 H2. exact (start14_telescopes nps l H1 H2). Qed.
Print Assumptions C14_deltas_telescope.

Definition fr t a := {| f_t := t; f_pokes := []; f_pos := 0%nat; f_org := OProc; f_act := a |}.
Definition top0 : op * list entry :=
  (OTop 0 false false [], [ELoad 0 1; EEv 1 (VLoad 0 1); ETopDone 1 0]).

(* non-vacuity: a start ended by another exception; a restart across a world
   switch during which the on_world_load callback of the entered world raises
   Quit (the loop is in its except clause); a third start that switches again *)
Definition ex_ok : C14_case :=
  {| c_nps := [1%nat; 1%nat]; c_ncs := [1%nat; 1%nat];
     c_ops :=
       [ top0;
         (OStart [fr 8 AOther] EndQuit [],
          [EClock 8 1 0; EProc 1 0%nat 0; EAct OProc AOther 1 0; EEnd RaisedOther 1 0]);
         (OStart [fr 24 ANormal; fr 29 (ASwitch 1 false false true); fr 32 ANormal] EndQuit
                 [(KLoad, AQuit)],
          [EClock 24 1 0; EProc 1 0%nat 0; ECoro 1 0%nat;
           EClock 29 1 0; EProc 1 0%nat 5; EAct OProc (ASwitch 1 false false true) 1 0;
           ELoad 1 2; EEv 1 (VOut 1 2); EEv 2 (VLoad 1 2);
           EAct (OCallback KLoad true) AQuit 2 1; EEnd (Returned false) 2 1]);
         (OStart [fr 40 ANormal; fr 41 (ASwitch 0 false false true);
                  fr 44 (AQuitLoop QCurrent)] EndQuit [],
          [EClock 40 2 1; EProc 2 0%nat 0; ECoro 2 0%nat;
           EClock 41 2 1; EProc 2 0%nat 1; EAct OProc (ASwitch 0 false false true) 2 1;
           EEv 2 (VOut 2 1); EEv 1 (VIn 2 1);
           EClock 44 1 0; EProc 1 0%nat 3; EAct OProc (AQuitLoop QCurrent) 1 0; EEv 1 VQuit;
           EEnd (Returned false) 1 0]) ] |}.
Example C14_nonvacuous :
  wf_b ex_ok = true /\ known14_b ex_ok = false /\ accepts ex_ok = true /\ holds14_b ex_ok = true.
Proof. vm_compute. auto. Qed.

(* the former known findings K10 / K11 (repaired in /repo by ce4190f):
   on_switch_in of world 2 calls switch(handle 2): the loop goes on to world 3
   without touching the clock (dt = 8 at the next iteration); at the next
   start quit_loop's on_quit is delivered to the current world before the
   loop quits *)
Definition chain_case : C14_case :=
  {| c_nps := [1%nat; 1%nat; 1%nat]; c_ncs := [1%nat; 1%nat; 1%nat];
     c_ops :=
       [ top0;
         (OStart [fr 0 (ASwitch 1 false false true); fr 8 ANormal] EndQuit
                 [(KIn, ASwitch 2 false false false)],
          [EClock 0 1 0; EProc 1 0%nat 0; EAct OProc (ASwitch 1 false false true) 1 0;
           ELoad 1 2; EEv 1 (VOut 1 2); EEv 2 (VLoad 1 2); EEv 2 (VIn 1 2);
           EAct (OCallback KIn true) (ASwitch 2 false false false) 2 1;
           ELoad 2 3; EEv 2 (VOut 2 3); EEv 3 (VLoad 2 3); EEv 3 (VIn 2 3);
           EClock 8 3 2; EProc 3 0%nat 8; ECoro 3 0%nat; EClockEnd EndQuit 3 2; EEnd (Returned false) 3 2]);
         (OStart [fr 16 (AQuitLoop QDefault)] EndQuit [],
          [EClock 16 3 2; EProc 3 0%nat 0; EAct OProc (AQuitLoop QDefault) 3 2; EEv 3 VQuit;
           EEnd (Returned false) 3 2]) ] |}.
Example C14_switch_chain_holds :
  wf_b chain_case = true /\ known14_b chain_case = false /\ accepts chain_case = true /\
  holds14_b chain_case = true.
Proof. vm_compute. auto. Qed.
(* what the unrepaired loop did: on_quit held by the muted current world *)
Example C14_on_quit_held_rejected :
  start14 [1%nat; 1%nat; 1%nat]
    [EClock 16 2 1; EProc 2 0%nat 0; EAct OProc (AQuitLoop QDefault) 2 1;
     EEnd (Returned false) 2 1] = false.
Proof. vm_compute. reflexivity. Qed.

(* a processor calls the_loop.switch(handle 1) directly inside a frame: the
   rest of the frame still runs the processors of world 1, the next iteration
   processes world 2 with the exact delta *)
Definition direct_case : C14_case :=
  {| c_nps := [2%nat; 1%nat]; c_ncs := [1%nat; 1%nat];
     c_ops :=
       [ top0;
         (OStart [fr 0 (ADirect 1 false false); fr 5 ANormal] EndQuit [],
          [EClock 0 1 0; EProc 1 0%nat 0; EAct OProc (ADirect 1 false false) 1 0;
           ELoad 1 2; EEv 2 (VLoad 1 2); EProc 1 1%nat 0; ECoro 1 0%nat;
           EClock 5 2 1; EProc 2 0%nat 5; ECoro 2 0%nat; EClockEnd EndQuit 2 1; EEnd (Returned false) 2 1]) ] |}.
Example C14_direct_switch_holds :
  wf_b direct_case = true /\ accepts direct_case = true /\ holds14_b direct_case = true.
Proof. vm_compute. auto. Qed.
(* a loop that keeps calling the process method of the world it started with *)
Example C14_stale_world_processed_rejected :
  start14 [2%nat; 1%nat]
    [EClock 0 1 0; EProc 1 0%nat 0; EAct OProc (ADirect 1 false false) 1 0;
     ELoad 1 2; EEv 2 (VLoad 1 2); EProc 1 1%nat 0;
     EClock 5 2 1; EProc 1 0%nat 5; EProc 1 1%nat 5; EClockEnd EndQuit 2 1;
     EEnd (Returned false) 2 1] = false.
Proof. vm_compute. reflexivity. Qed.

(* logs that violate the property are rejected by the checker: a stale
   timestamp after a start that ended by an exception (first dt = 16) ... *)
Example C14_stale_timestamp_rejected :
  start14 [1%nat] [EClock 24 1 0; EProc 1 0%nat 16; EClockEnd EndQuit 1 0;
                   EEnd (Returned false) 1 0] = false.
Proof. vm_compute. reflexivity. Qed.
(* ... time lost across a switch (the clock restarted: dt = 0 instead of 3) ... *)
Example C14_time_lost_across_switch_rejected :
  start14 [1%nat; 1%nat]
    [EClock 29 1 0; EProc 1 0%nat 0; EAct OProc (ARaiseSW 1 false false) 1 0;
     ELoad 1 2; EEv 2 (VLoad 1 2);
     EClock 32 2 1; EProc 2 0%nat 0; EClockEnd EndQuit 2 1; EEnd (Returned false) 2 1] = false.
Proof. vm_compute. reflexivity. Qed.
(* ... running left true after Quit, a processor called after the one that
   quit, Quit raised by a callback during a switch not ending the loop *)
Example C14_running_true_rejected :
  start14 [1%nat] [EClock 8 1 0; EProc 1 0%nat 0; EAct OProc AQuit 1 0; EEnd (Returned true) 1 0]
  = false.
Proof. vm_compute. reflexivity. Qed.
Example C14_frame_not_abandoned_rejected :
  start14 [2%nat] [EClock 8 1 0; EProc 1 0%nat 0; EAct OProc AQuit 1 0; EProc 1 1%nat 0;
                   EEnd (Returned false) 1 0] = false.
Proof. vm_compute. reflexivity. Qed.
Example C14_callback_quit_ignored_rejected :
  start14 [1%nat; 1%nat]
    [EClock 29 1 0; EProc 1 0%nat 0; EAct OProc (ASwitch 1 false false true) 1 0;
     ELoad 1 2; EEv 1 (VOut 1 2); EEv 2 (VLoad 1 2); EAct (OCallback KLoad true) AQuit 2 1;
     EEv 2 (VIn 1 2); EClock 32 2 1; EProc 2 0%nat 3; EClockEnd EndQuit 2 1;
     EEnd (Returned false) 2 1] = false.
Proof. vm_compute. reflexivity. Qed.
