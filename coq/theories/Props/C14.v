(* C14 - SimpleLoop feeds exact time deltas and stops cleanly on Quit.
   Statement file: theorems only, each closed by [exact]. *)
From Coq Require Import ZArith List Bool.
From Desper Require Import Lib.Alist Loop.Model Loop.ModelFacts Loop.C14Model Loop.C14Proofs.
Import ListNotations.
Open Scope Z_scope.

(* For every case (any number of handles and processors, any sequence of
   loop.switch / start() operations, any clock readings, any frame scripts
   issued from any processor position by a processor, an event callback or a
   coroutine - including the call patterns of known finding K5) whose
   observed logs the model of desper/loop.py accepts, every start() satisfies
   the checker of Loop/C14Model.v:
   - the first iteration after each start gets dt = 0, every later one exactly
     (this reading - previous reading of the time function), also when the
     world was switched in between (the clock is never reset by a switch);
   - in an iteration the processors of the loop's current world are called in
     order, each once, all with that dt, until one of them acts;
   - Quit (raised by a script, by the time function, or by quit_loop after
     on_quit was delivered to the current world) makes start() return with
     running = false and current world / handle as they were when Quit was
     raised; any other exception reaches the caller;
   - the next start() begins again with dt = 0, however the previous ended. *)
Theorem C14_exact_dt :
  forall c : C14_case, wf_b c = true -> known14_b c = false ->
                       accepts c = true -> holds14 c.
Proof. intros c W _ A. exact (accepts_holds14 c W A). Qed.
Print Assumptions C14_exact_dt.

(* what the checker means on a raw log: the deltas handed to the first
   processor, one per iteration, add up to last reading - first reading: no
   time is lost or counted twice, whatever switches happened in between *)
Theorem C14_deltas_telescope :
  forall nps l, nps_ok nps -> start14 nps l = true ->
    sum_dt0 l = match readings l with [] => 0 | t0 :: rs => last rs t0 - t0 end.
Proof. intros nps l H1 H2. exact (start14_telescopes nps l H1 H2). Qed.
Print Assumptions C14_deltas_telescope.

(* non-vacuity: a start ended by another exception, then a restart across a
   world switch that quits through quit_loop *)
Definition fr t a := {| f_t := t; f_pokes := []; f_pos := 0%nat; f_org := OProc; f_act := a |}.
Definition ex_ok : C14_case :=
  {| c_nps := [1%nat; 1%nat];
     c_ops :=
       [ (OTop 0 false false, [ELoad 0 1; EEv 1 (VLoad 0 1); ETopDone 1 0]);
         (OStart [fr 8 AOther] EndQuit,
          [EClock 8 1 0; EProc 1 0%nat 0; EAct OProc AOther; EEnd RaisedOther 1 0]);
         (OStart [fr 24 ANormal; fr 29 (ASwitch 1 false false true);
                  fr 32 (AQuitLoop QCurrent)] EndQuit,
          [EClock 24 1 0; EProc 1 0%nat 0;
           EClock 29 1 0; EProc 1 0%nat 5; EAct OProc (ASwitch 1 false false true);
           ELoad 1 2; EEv 1 (VOut 1 2); EEv 2 (VLoad 1 2); EEv 2 (VIn 1 2);
           EClock 32 2 1; EProc 2 0%nat 3; EAct OProc (AQuitLoop QCurrent); EEv 2 VQuit;
           EEnd (Returned false) 2 1]) ] |}.
Example C14_nonvacuous :
  wf_b ex_ok = true /\ known14_b ex_ok = false /\ accepts ex_ok = true /\ holds14_b ex_ok = true.
Proof. vm_compute. auto. Qed.

(* logs that violate the property are rejected by the checker: a stale
   timestamp after a start that ended by an exception (first dt = 16) ... *)
Example C14_stale_timestamp_rejected :
  start14 [1%nat] [EClock 24 1 0; EProc 1 0%nat 16; EClockEnd EndQuit 1 0;
                   EEnd (Returned false) 1 0] = false.
Proof. vm_compute. reflexivity. Qed.
(* ... time lost across a switch (the clock restarted: dt = 0 instead of 3) ... *)
Example C14_time_lost_across_switch_rejected :
  start14 [1%nat; 1%nat]
    [EClock 29 1 0; EProc 1 0%nat 0; EAct OProc (ARaiseSW 1 false false);
     ELoad 1 2; EEv 2 (VLoad 1 2);
     EClock 32 2 1; EProc 2 0%nat 0; EClockEnd EndQuit 2 1; EEnd (Returned false) 2 1] = false.
Proof. vm_compute. reflexivity. Qed.
(* ... running left true after Quit, and a processor called after the one
   that quit *)
Example C14_running_true_rejected :
  start14 [1%nat] [EClock 8 1 0; EProc 1 0%nat 0; EAct OProc AQuit; EEnd (Returned true) 1 0]
  = false.
Proof. vm_compute. reflexivity. Qed.
Example C14_frame_not_abandoned_rejected :
  start14 [2%nat] [EClock 8 1 0; EProc 1 0%nat 0; EAct OProc AQuit; EProc 1 1%nat 0;
                   EEnd (Returned false) 1 0] = false.
Proof. vm_compute. reflexivity. Qed.
