(* C03 - An enabled dispatcher delivers each event once to each listener.
   Statement file: theorems only, each closed by [exact]. *)
From Coq Require Import ZArith List Bool.
From Desper Require Import Lib.Alist Events.Model Events.Spec Events.Tables Events.CaseProofs Events.Proj3 Events.Reading3.
Import ListNotations.
Open Scope Z_scope.

Definition holds3 (c : C03_case) : Prop := holds3_case_b c = true.

(* Every case the model accepts - handler classes built with the decorator
   (chains of subclasses), programs of add_handler / remove_handler /
   is_handler / dispatch / clear / raise run at top level and re-entrantly
   from inside callbacks, any argument shape, any iteration order of the
   listener set - satisfies the specification machine [sstep3] and the
   decorator specification [cls_spec]:
   - every dispatch owes exactly one call (h, method the class of h maps the
     name to, the token and arguments given) per handler registered when it
     starts (registered = added and not removed or cleared since; a set, so
     adding twice does not duplicate); every call of the log must be owed by
     an open dispatch (nothing else is called, nothing twice, nothing with
     other arguments); a dispatch that returns owes nothing any more (nobody
     is missed); a name without listeners owes nothing and returns silently;
   - is_handler answers membership of the registered set;
   - after each class definition (any number of bases, the MRO being Python's)
     the new class maps what it inherits along its MRO, overridden by the
     decorator's names and keyword mappings (event_handler() with no argument:
     exactly what it inherits), and the __events__ of every other class is
     what it was. *)
Theorem C03_dispatch_exactly_registered :
  forall c : C03_case, wf3_b c = true -> known3_b c = false -> accepts c = true -> holds3 c.
Proof. exact C03_accepts_holds. Qed.
Print Assumptions C03_dispatch_exactly_registered.

(* The decorator as a function, for any hierarchy (several bases, decorated and
   undecorated classes mixed): what the new class inherits is what attribute
   lookup finds along its MRO - the mapping of the first class after itself
   to which a decorator assigned one; event_handler() without arguments leaves
   the class reading exactly that; otherwise the class gets the inherited
   mapping overridden by the names and then by the keyword mappings; all
   earlier classes are untouched. *)
Theorem C03_decorator_pure :
  forall info tb d mro, NoDup (map fst (cd_maps d)) ->
    firstn (length tb) (decorate info tb d mro) = tb /\
    (empty_deco d = true -> decorated info tb d mro = inherited info tb mro) /\
    (empty_deco d = false -> exists m, decorated info tb d mro = Some m /\
       forall e, alookup e m = expect_lookup (or_empty (inherited info tb mro)) (cd_names d) (cd_maps d) e).
Proof. exact decorator_pure. Qed.
Print Assumptions C03_decorator_pure.

(* Readings of [sstep3] on raw log entries. *)

(* the registered set is the set of handlers added and not removed since *)
Theorem C03_registered_set :
  forall h' h regs, (inb h' (hadd h regs) = inb h' regs || (h' =? h)) /\
                    (inb h' (hdel h regs) = inb h' regs && negb (h' =? h)).
Proof. exact registered_set. Qed.
Print Assumptions C03_registered_set.

(* what a dispatch owes: (h, m) is owed iff h is registered and its class maps
   the name to m; no pair is owed twice *)
Theorem C03_owed_calls :
  forall p e regs, keys_nodup p -> NoDup regs ->
    NoDup (listeners p e regs) /\
    forall h m, In (h, m) (listeners p e regs) <-> (In h regs /\ alookup e (events_of p h) = Some m).
Proof. exact owed_calls. Qed.
Print Assumptions C03_owed_calls.

(* an accepted call was owed by its token's dispatch with these arguments, and
   is not owed a second time *)
Theorem C03_call_is_owed_once :
  forall d h m t x d', scall d h m t x = Some d' -> NoDup (d_rem d) ->
    d_tok d = t /\ snd (fst d) = x /\ In (h, m) (d_rem d) /\ ~ In (h, m) (d_rem d') /\ NoDup (d_rem d').
Proof. exact call_is_owed_once. Qed.
Print Assumptions C03_call_is_owed_once.

(* non-vacuity: a diamond (class 3 has bases 1 and 2; 1 is undecorated, so 3
   inherits through its MRO [3; 1; 2; 0] the mapping of 2, which overrides
   event 0), double registration, removal from inside a callback, re-entrant
   dispatch with keywords *)
Definition ex_classes : list (cdef * cobs) :=
  [({| cd_cls := 0; cd_bases := []; cd_names := [0; 1]; cd_maps := [] |},
    {| co_mro := [0]; co_tab := [(0, Some [(0, 0); (1, 1)])] |});
   ({| cd_cls := 1; cd_bases := [0]; cd_names := []; cd_maps := [] |},
    {| co_mro := [1; 0]; co_tab := [(0, Some [(0, 0); (1, 1)]); (1, Some [(0, 0); (1, 1)])] |});
   ({| cd_cls := 2; cd_bases := [0]; cd_names := []; cd_maps := [(0, 2)] |},
    {| co_mro := [2; 0];
       co_tab := [(0, Some [(0, 0); (1, 1)]); (1, Some [(0, 0); (1, 1)]); (2, Some [(0, 2); (1, 1)])] |});
   ({| cd_cls := 3; cd_bases := [1; 2]; cd_names := [1]; cd_maps := [] |},
    {| co_mro := [3; 1; 2; 0];
       co_tab := [(0, Some [(0, 0); (1, 1)]); (1, Some [(0, 0); (1, 1)]); (2, Some [(0, 2); (1, 1)]);
                  (3, Some [(0, 2); (1, 1)])] |})].
Definition ex_ok : C03_case :=
  {| c_classes := ex_classes;
     c_hcls := [(1, 0); (2, 3); (3, 1)]; c_eqs := [];
     c_scripts := [(1, [(0, [ARemove 3; ADispatch 1 4])])];
     c_ops := [AAdd 1; AAdd 2; AAdd 3; AAdd 2; ADispatch 0 1; AIs 3; ADispatch 0 0];
     c_log := [EAct (AAdd 1); EAct (AAdd 2); EAct (AAdd 3); EAct (AAdd 2); EAct (ADispatch 0 1);
               ECall 2 2 0 1; ERet; ECall 1 0 0 1; EAct (ARemove 3); EAct (ADispatch 1 4);
               ECall 1 1 1 4; ERet; ECall 2 1 1 4; ERet; EEnd 1; ERet; ECall 3 0 0 1; ERet; EEnd 0;
               EIs 3 false; EAct (ADispatch 0 0); ECall 1 0 2 0; EAct (ARemove 3); EAct (ADispatch 1 4);
               ECall 2 1 3 4; ERet; ECall 1 1 3 4; ERet; EEnd 3; ERet; ECall 2 2 2 0; ERet; EEnd 2] |}.
Example C03_nonvacuous : wf3_b ex_ok = true /\ known3_b ex_ok = false /\ accepts ex_ok = true.
Proof. vm_compute. auto. Qed.

(* a dispatcher that drops the keyword arguments, one that delivers twice
   after a double registration, and a decorator that updates the inherited
   dict in place are rejected by the property *)
Definition with_log (c : C03_case) (l : list entry) : C03_case :=
  {| c_classes := c_classes c; c_hcls := c_hcls c; c_eqs := c_eqs c; c_scripts := []; c_ops := c_ops c; c_log := l |}.
Example C03_lost_kwargs_rejected :
  holds3_case_b (with_log ex_ok [EAct (AAdd 1); EAct (ADispatch 1 4); ECall 1 1 0 1; ERet; EEnd 0]) = false.
Proof. vm_compute. reflexivity. Qed.
Example C03_double_delivery_rejected :
  holds3_case_b (with_log ex_ok [EAct (AAdd 2); EAct (AAdd 2); EAct (ADispatch 1 0); ECall 2 1 0 0; ERet;
                                 ECall 2 1 0 0; ERet; EEnd 0]) = false.
Proof. vm_compute. reflexivity. Qed.
Example C03_aliasing_decorator_rejected :
  holds3_case_b {| c_classes := [({| cd_cls := 0; cd_bases := []; cd_names := [0; 1]; cd_maps := [] |},
                                  {| co_mro := [0]; co_tab := [(0, Some [(0, 0); (1, 1)])] |});
                                 ({| cd_cls := 1; cd_bases := [0]; cd_names := []; cd_maps := [(0, 2)] |},
                                  {| co_mro := [1; 0];
                                     co_tab := [(0, Some [(0, 2); (1, 1)]); (1, Some [(0, 2); (1, 1)])] |})];
                   c_hcls := []; c_eqs := []; c_scripts := []; c_ops := []; c_log := [] |} = false.
Proof. vm_compute. reflexivity. Qed.
(* a decorator that takes the mapping of the first base only (ignoring the MRO) *)
Example C03_first_base_only_rejected :
  holds3_case_b {| c_classes := firstn 3 ex_classes ++
                     [({| cd_cls := 3; cd_bases := [1; 2]; cd_names := [1]; cd_maps := [] |},
                       {| co_mro := [3; 1; 2; 0];
                          co_tab := [(0, Some [(0, 0); (1, 1)]); (1, Some [(0, 0); (1, 1)]); (2, Some [(0, 2); (1, 1)]);
                                     (3, Some [(0, 0); (1, 1)])] |})];
                   c_hcls := []; c_eqs := []; c_scripts := []; c_ops := []; c_log := [] |} = false.
Proof. vm_compute. reflexivity. Qed.

(* K4 (known finding): two distinct handlers that are == and hash-equal are
   one registration; the model mirrors the code, the property fails *)
Definition k4_witness : C03_case :=
  {| c_classes := [({| cd_cls := 0; cd_bases := []; cd_names := [0]; cd_maps := [] |},
                      {| co_mro := [0]; co_tab := [(0, Some [(0, 0)])] |})];
     c_hcls := [(1, 0); (2, 0)]; c_eqs := [(2, 1)]; c_scripts := [];
     c_ops := [AAdd 1; AAdd 2; ADispatch 0 1];
     c_log := [EAct (AAdd 1); EAct (AAdd 2); EAct (ADispatch 0 1); ECall 1 0 0 1; ERet; EEnd 0] |}.
Theorem C03_K4_refuted :
  exists c, wf3_b c = true /\ known3_b c = true /\ accepts c = true /\ holds3_case_b c = false.
Proof. exists k4_witness. vm_compute. auto. Qed.
