(* C04 - Disabled dispatchers defer events and release them once, in order.
   Statement file: theorems only, each closed by [exact]. *)
From Coq Require Import ZArith List Bool.
From Desper Require Import Lib.Alist Events.Model Events.Spec Events.CaseProofs Events.Reading.
Import ListNotations.
Open Scope Z_scope.

Definition holds4 (c : C04_case) : Prop := holds4_case_b c = true.

(* Every log that the model of EventDispatcher accepts - programs of
   add_handler / remove_handler / dispatch / dispatch_enabled = b / clear run
   at top level and, re-entrantly, from inside callbacks; callbacks that
   raise or toggle the flag at any delivery position (scripts are universally
   quantified, so are the positions); any listener iteration order - is
   accepted by the specification machine [sstep] of Events/Spec.v:
   (i)   a dispatch made while disabled causes no call then (it becomes
         pending), and a pending event is only taken up while dispatching is
         enabled, inside an enabling assignment;
   (ii)  pending events are taken up from the front, in dispatch order (only
         events without a current listener, or the optional ones - those
         whose name had no listener when dispatched - may be passed over);
         each goes, exactly once per handler, to the handlers registered when
         it is taken up, with the arguments it was dispatched with; an
         enabling assignment that returns while enabled leaves nothing
         deliverable pending;
   (iii) when a callback raises, the exception reaches the top level, every
         open delivery is abandoned for good (its token can never receive a
         call again) and the events not yet taken up stay pending in order;
   (iv)  when a callback disables dispatching, the enabling assignment
         returns after the delivery in progress and leaves the rest pending;
   (v)   every enabling assignment returns or is abandoned by an exception
         (the log is finite and ends with no assignment open).
   No bound on the number of handlers, events, queue length or nesting. *)
Theorem C04_release_fifo_once :
  forall c : C04_case, wf4_b c = true -> known4_b c = false -> accepts c = true -> holds4 c.
Proof. exact C04_accepts_holds. Qed.
Print Assumptions C04_release_fifo_once.

(* Readings of the specification machine on raw log entries. *)

(* a call attributed to a pending event (not to a dispatch or delivery that is
   already open) happens only while dispatching is enabled *)
Theorem C04_pending_taken_up_only_when_enabled :
  forall p s h m t x s',
    sstep p s (ECall h m t x) = Some s' -> In t (map q_tok (s_pend s)) ->
    ~ In t (map d_tok (s_owed s)) -> ~ In (Some t) (map (fun r => option_map d_tok (snd r)) (s_rel s)) ->
    s_en s = true /\ exists q rest, seek (fun e => listeners p e (s_reg s)) t (s_pend s) = Some (q, rest)
                                     /\ s_pend s' = rest.
Proof. exact pending_taken_up_only_when_enabled. Qed.
Print Assumptions C04_pending_taken_up_only_when_enabled.

(* events are taken up in order: whatever precedes the one taken up could be
   passed over, and what follows it stays pending in the same order *)
Theorem C04_seek_is_fifo :
  forall lis t q x rest, seek lis t q = Some (x, rest) ->
    exists skipped, q = skipped ++ x :: rest /\ q_tok x = t /\ forallb (skippable lis) skipped = true.
Proof. exact seek_is_fifo. Qed.
Print Assumptions C04_seek_is_fifo.

(* an enabling assignment that returns while dispatching is enabled has left
   nothing deliverable behind *)
Theorem C04_enable_returns_with_nothing_pending :
  forall p s t s',
    sstep p s (EEnd t) = Some s' -> ~ In t (map d_tok (s_owed s)) -> s_exc s = false -> s_en s = true ->
    forallb (skippable (fun e => listeners p e (s_reg s))) (s_pend s) = true /\ s_pend s' = [].
Proof. exact enable_returns_with_nothing_pending. Qed.
Print Assumptions C04_enable_returns_with_nothing_pending.

(* an exception abandons what is open and keeps what is pending *)
Theorem C04_raise_keeps_pending :
  forall p s s', sstep p s (EAct ARaise) = Some s' ->
    s_pend s' = s_pend s /\ s_owed s' = [] /\ s_rel s' = [] /\ s_exc s' = true.
Proof. exact raise_keeps_pending. Qed.
Print Assumptions C04_raise_keeps_pending.

(* non-vacuity: a log of the repaired code in which a callback disables during
   the release (delivery 0), a callback raises (delivery 1), one pending event
   has no listener, and three further assignments finish the job *)
Definition ex_ok : C04_case :=
  {| c_classes := [({| cd_cls := 0; cd_bases := []; cd_names := [0; 1]; cd_maps := [] |}, {| co_mro := [0]; co_tab := [(0, Some [(0, 0); (1, 1)])] |})];
     c_hcls := [(1, 0); (2, 0)]; c_eqs := [];
     c_scripts := [(1, [(1, [ARaise])]); (2, [(0, [(ASetEnabled false)])])];
     c_ops := [(AAdd 1); (AAdd 2); (ASetEnabled false); (ADispatch 0 1); (ADispatch 1 0); (ADispatch 2 0);
               (ADispatch 0 4); (ASetEnabled true); (ASetEnabled true); (ASetEnabled true); (ASetEnabled true)];
     c_log := [(EAct (AAdd 1)); (EAct (AAdd 2)); (EAct (ASetEnabled false)); (EAct (ADispatch 0 1));
               (EAct (ADispatch 1 0)); (EAct (ADispatch 2 0)); (EAct (ADispatch 0 4)); (EAct (ASetEnabled true));
               (ECall 2 0 0 1); (EAct (ASetEnabled false)); ERet; (ECall 1 0 0 1); ERet; (EEnd 4);
               (EAct (ASetEnabled true)); (ECall 2 1 1 0); ERet; (ECall 1 1 1 0); (EAct ARaise); EExc;
               (EAct (ASetEnabled true)); (ECall 2 0 3 4); (EAct (ASetEnabled false)); ERet; (ECall 1 0 3 4); ERet;
               (EEnd 6); (EAct (ASetEnabled true)); (EEnd 7)] |}.
Example C04_nonvacuous : wf4_b ex_ok = true /\ known4_b ex_ok = false /\ accepts ex_ok = true.
Proof. vm_compute. auto. Qed.

(* the log of the unrepaired setter (events delivered again after a callback
   raised) violates the property, and the model rejects it *)
Definition ex_redelivered : C04_case :=
  {| c_classes := [({| cd_cls := 0; cd_bases := []; cd_names := [0; 1]; cd_maps := [] |}, {| co_mro := [0]; co_tab := [(0, Some [(0, 0); (1, 1)])] |})];
     c_hcls := [(1, 0)]; c_eqs := []; c_scripts := [(1, [(1, [ARaise])])];
     c_ops := [(AAdd 1); (ASetEnabled false); (ADispatch 0 0); (ADispatch 1 0); (ASetEnabled true); (ASetEnabled true)];
     c_log := [(EAct (AAdd 1)); (EAct (ASetEnabled false)); (EAct (ADispatch 0 0)); (EAct (ADispatch 1 0));
               (EAct (ASetEnabled true)); (ECall 1 0 0 0); ERet; (ECall 1 1 1 0); (EAct ARaise); EExc;
               (EAct (ASetEnabled true)); (ECall 1 0 0 0); ERet; (ECall 1 1 1 0); (EAct ARaise); EExc] |}.
Example C04_redelivery_rejected :
  wf4_b ex_redelivered = true /\ holds4_case_b ex_redelivered = false /\ accepts ex_redelivered = false.
Proof. vm_compute. auto. Qed.
