(* C19 - Controllers, references and prototypes are faithful shorthands.
   Statement file: theorems only, each closed by [exact]. *)
From Coq Require Import ZArith List Bool.
From Desper Require Import Lib.Alist Logic.C07Model Logic.C19Model Logic.C19Proofs.
Import ListNotations.
Open Scope Z_scope.

(* A case is one of three kinds (C19Model.C19_case).

   CaseCtrl: twin sides A and B, each with two independent Worlds sharing the
   side's controller instances, go through the same history of World
   calls; every shorthand (the six Controller methods / module functions,
   reading, assigning and deleting a ComponentReference or a
   ProcessorReference, desper.controller()) is issued through a controller k
   on A and as the corresponding World call for entity e on B, where e is the
   entity k was attached to (or built for) and k's on_add has been delivered
   (wf_b).  [holds]: after every operation the result, the callbacks and the
   complete public snapshot (entities, components and existence of every
   entity, processors, every controller's entity / world) of A equal those of
   B, and every controller whose on_add has been delivered has the entity of
   its attachment in its entity field and this world in its world field.

   CaseProto: every iteration of a Prototype yields, for each listed type in
   order, one new component, built by exactly one call of the entry of
   init_methods if there is one, else of the method named init_prefix ++ name
   if the instance has one, else of the default constructor (or an overriding
   _default_init), with the listed type as argument.

   CaseUpd: a frame of a world holding an OnUpdateProcessor calls
   on_update(dt) exactly once on every current on_update listener and on
   nothing else; other operations call nothing.

   For all histories, class hierarchies, component / processor / prototype
   sets and dt values. *)
Theorem C19_shorthands_faithful :
  forall c : C19_case, wf_b c = true -> known_b c = false ->
                       accepts c = true -> holds c.
Proof. intros c Hwf _. exact (accepts_holds c Hwf). Qed.
Print Assumptions C19_shorthands_faithful.

(* model level: through a controller whose fields are (e, world j), every
   shorthand IS the World call on world j for e (same result, same callbacks,
   same successor state of both worlds) *)
Theorem C19_shorthand_is_world_call :
  forall H K P d k e j s pick,
    alookup k (cent (d1 d)) = Some (e, norm j) -> set_guard H K P s = true ->
    via_controller H K P d k s pick = direct_call H K P d j e s pick.
Proof. exact via_controller_direct. Qed.
Print Assumptions C19_shorthand_is_world_call.

(* one step on twin sides in equal states: equal successor states, equal
   observations, and the history summary (entity and world of every
   controller's latest delivered on_add, waiting notifications per world) is
   exactly what the model state holds *)
Theorem C19_twin_step :
  forall c d op ob dA' dB',
    Good d ->
    cop_wf (cc_hier c) (cc_comps c) (cc_procs c) (track_of d) op = true ->
    cstep c d d op ob = Some (dA', dB') ->
    dA' = dB' /\ Good dA' /\ track_of dA' = track_step (cc_comps c) (track_of d) op /\
    same_effect ob = true /\ knows (track_step (cc_comps c) (track_of d) op) (a_snap ob) = true.
Proof. exact cstep_sim. Qed.
Print Assumptions C19_twin_step.

(* reading of [knows]: a controller's observed entity and world are those of
   its latest delivered on_add *)
Theorem C19_knows_meaning :
  forall t s k x, knows t s = true -> In (k, x) (sn_cent s) -> x = alookup k (t_own t).
Proof. exact knows_meaning. Qed.
Print Assumptions C19_knows_meaning.

(* reading of the prototype clause: the three-way priority *)
Theorem C19_source_priority :
  forall T p t m, source_ok T p t m = true ->
    (forall f, alookup t (p_methods p) = Some f -> m_fid m = f) /\
    (alookup t (p_methods p) = None ->
     forall g, getattr_named p (t_name (tinfo_of T t)) = Some g -> m_fid m = g) /\
    (alookup t (p_methods p) = None -> getattr_named p (t_name (tinfo_of T t)) = None ->
     m_fid m = p_default p).
Proof. exact source_ok_meaning. Qed.
Print Assumptions C19_source_priority.

(* ---- non-vacuity and rejected behaviours -------------------------------- *)
(* controller 0 (class 50) and component 1 (class 0) on entity 1; component 2
   of class 1 (a subclass of 0) *)
Definition ex_hier : hier := [(0, [0]); (1, [0; 1]); (49, [49]); (50, [49; 50]); (100, [100])].
Definition ex_comps : comps :=
  [(0, Build_cinst 50 true); (1, Build_cinst 0 false); (2, Build_cinst 1 false)].
Definition sn (ents : list Z) (row1 : list Z) (ex1 : bool) (ps : list Z) (k0 : option Z) : snap :=
  Build_snap ents [row1] [ex1] ps (map (fun _ => 0) ps)
             [(0, option_map (fun e => (e, 1)) k0)] true.
Definition both (r : res) (l : list ev) (s : snap) (pick : option Z) : cobs :=
  Build_cobs r l s r l s pick.
Definition ex_ctrl (tr : ctrace) : C19_case :=
  CaseCtrl {| cc_hier := ex_hier; cc_comps := ex_comps;
              cc_procs := [(0, Build_inst 100 false false false)]; cc_pool := [1];
              cc_trace := tr |}.
Definition ex_prefix : ctrace :=
  [ (ODirect 1 (WCreate 1 [0; 1]), both (ROpt (Some 1)) [] (sn [1] [0; 1] true [] (Some 1)) None);
    (OShort 0 1 1 (SGet 0), both (ROpt (Some 1)) [] (sn [1] [0; 1] true [] (Some 1)) (Some 1));
    (OShort 0 1 1 (SRefSet 0 2), both RNone [] (sn [1] [0; 1; 2] true [] (Some 1)) None);
    (OShort 0 1 1 (SPRefSet 100 0 0), both RNone [] (sn [1] [0; 1; 2] true [0] (Some 1)) None) ].
Definition ex_ok : C19_case :=
  ex_ctrl (ex_prefix ++
    [ (OShort 0 1 1 SDelete, both RNone [] (sn [] [0; 1; 2] false [0] (Some 1)) None);
      (OShort 0 1 1 SGetAll, both (RList [0; 1; 2]) [] (sn [] [0; 1; 2] false [0] (Some 1)) None);
      (ODirect 1 (WProcess 4), both RNone [ERun 0 4] (sn [] [] false [0] (Some 1)) None) ]).
Example C19_ctrl_nonvacuous :
  wf_b ex_ok = true /\ known_b ex_ok = false /\ accepts ex_ok = true /\ holds_b ex_ok = true.
Proof. vm_compute. auto. Qed.

(* delete() that deletes immediately: world A has lost the components at
   once, world B (delete_entity(e)) still has them until the next frame *)
Example C19_delete_immediate_rejected :
  let c := ex_ctrl (ex_prefix ++
    [ (OShort 0 1 1 SDelete,
       Build_cobs RNone [] (sn [] [] false [0] (Some 1))
                  RNone [] (sn [] [0; 1; 2] false [0] (Some 1)) None) ]) in
  wf_b c = true /\ accepts c = false /\ holds_b c = false.
Proof. vm_compute. auto. Qed.

(* del k.pref removing another processor type than the World call does *)
Example C19_reference_wrong_type_rejected :
  let c := ex_ctrl (ex_prefix ++
    [ (OShort 0 1 1 (SPRefDel 100),
       Build_cobs RNone [] (sn [1] [0; 1; 2] true [0] (Some 1))
                  RNone [] (sn [1] [0; 1; 2] true [] (Some 1)) (Some 0)) ]) in
  wf_b c = true /\ accepts c = false /\ holds_b c = false.
Proof. vm_compute. auto. Qed.

(* a controller that does not know its entity *)
Example C19_unknown_entity_rejected :
  let c := ex_ctrl
    [ (ODirect 1 (WCreate 1 [0; 1]), both (ROpt (Some 1)) [] (sn [1] [0; 1] true [] None) None) ] in
  wf_b c = true /\ accepts c = false /\ holds_b c = false.
Proof. vm_compute. auto. Qed.

(* the controller is attached again, in world 2: a shorthand must then act on
   world 2 (here: world A's controller still acts on world 1, whose
   get_components it returns) *)
Example C19_moved_to_other_world_rejected :
  let s1 := sn [1] [0; 1] true [] (Some 1) in
  let s2 (w : Z) := Build_snap [1] [[0]] [true] [] [] [(0, Some (1, w))] true in
  let c := ex_ctrl
    [ (ODirect 1 (WCreate 1 [0; 1]), both (ROpt (Some 1)) [] s1 None);
      (ODirect 2 (WAdd 1 0), Build_cobs RNone [] (s2 1) RNone [] (s2 2) None);
      (OShort 0 1 2 SGetAll, Build_cobs (RList [0; 1]) [] (s2 1) (RList [0]) [] (s2 2) None) ] in
  wf_b c = true /\ accepts c = false /\ holds_b c = false.
Proof. vm_compute. auto. Qed.

(* prototypes: type 0 has all three sources, type 1 a named method only and
   needs arguments, type 2 shares its name with type 0; a subclass changes
   the prefix *)
Definition ex_tinfos : tinfos :=
  [(0, Build_tinfo 0 true); (1, Build_tinfo 1 false); (2, Build_tinfo 0 true)].
Definition ex_p1 : proto :=
  Build_proto [0; 1; 2; 0] [(0, 1)] 0 [(0, [(0, 2); (1, 3)]); (1, [(1, 4)]); (2, [])] 0.
Definition ex_p2 : proto :=
  Build_proto [0; 1; 2; 0] [(0, 1)] 1 [(0, [(0, 2); (1, 3)]); (1, [(0, 5); (1, 4)]); (2, [])] 0.
Definition mk1 (f t : Z) : made := Build_made 1 f t true true.
Definition ex_proto : C19_case :=
  CaseProto {| pc_types := ex_tinfos; pc_protos :=
    [ (ex_p1, [Build_iter_obs [mk1 1 0; mk1 3 1; mk1 2 2; mk1 1 0] 0;
               Build_iter_obs [mk1 1 0; mk1 3 1; mk1 2 2; mk1 1 0] 0]);
      (ex_p2, [Build_iter_obs [mk1 1 0; mk1 4 1; mk1 5 2; mk1 1 0] 0]) ] |}.
Example C19_proto_nonvacuous :
  wf_b ex_proto = true /\ accepts ex_proto = true /\ holds_b ex_proto = true.
Proof. vm_compute. auto. Qed.
(* init_<Name> preferred over init_methods *)
Example C19_named_over_methods_rejected :
  holds_b (CaseProto {| pc_types := ex_tinfos; pc_protos :=
    [ (ex_p1, [Build_iter_obs [mk1 2 0; mk1 3 1; mk1 2 2; mk1 2 0] 0]) ] |}) = false.
Proof. vm_compute. reflexivity. Qed.
(* a component handed out a second time *)
Example C19_not_fresh_rejected :
  holds_b (CaseProto {| pc_types := ex_tinfos; pc_protos :=
    [ (ex_p1, [Build_iter_obs [mk1 1 0; mk1 3 1; mk1 2 2; Build_made 1 1 0 true false] 0]) ] |})
  = false.
Proof. vm_compute. reflexivity. Qed.

(* on_update: handler 1 does not listen, handler 2 joins later *)
Definition ex_upd (tr : utrace) : C19_case :=
  CaseUpd {| uc_listens := [(0, true); (1, false); (2, true)]; uc_trace := tr |}.
Example C19_upd_nonvacuous :
  let c := ex_upd [ (UAddH 0, []); (UAddH 1, []); (UProcess 8, []); (UAddOUP 1, []);
                    (UAddH 2, []); (UProcess 4, [(0, 4); (2, 4)]); (URemH 0, []);
                    (UProcess 1, [(2, 1)]); (URemOUP, []); (UProcess 1, []) ] in
  wf_b c = true /\ accepts c = true /\ holds_b c = true.
Proof. vm_compute. auto. Qed.
Example C19_upd_twice_rejected :
  holds_b (ex_upd [ (UAddH 0, []); (UAddOUP 1, []); (UProcess 4, [(0, 4); (0, 4)]) ]) = false.
Proof. vm_compute. reflexivity. Qed.
Example C19_upd_other_dt_rejected :
  holds_b (ex_upd [ (UAddH 0, []); (UAddOUP 1, []); (UProcess 4, [(0, 8)]) ]) = false.
Proof. vm_compute. reflexivity. Qed.

(* k.pref = p passing a priority of its own: world A runs / lists p with
   another priority attribute than add_processor(p) gives it on world B *)
Example C19_reference_priority_rejected :
  let sp (pr : Z) := Build_snap [1] [[0; 1; 2]] [true] [0] [pr] [(0, Some (1, 1))] true in
  let c := ex_ctrl (firstn 3 ex_prefix ++
    [ (OShort 0 1 1 (SPRefSet 100 0 2), Build_cobs RNone [] (sp 0) RNone [] (sp 2) None) ]) in
  wf_b c = true /\ accepts c = false /\ holds_b c = false.
Proof. vm_compute. auto. Qed.
