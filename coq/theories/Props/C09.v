(* C09 - Coroutine lifecycle: state, kill, restart and promise are coherent.
   Statement file: theorems only, each closed by [exact]. *)
From Coq Require Import ZArith List Bool.
From Desper Require Import Lib.Alist Coro.Model Coro.Spec Coro.Main Coro.Release Coro.Reading9.
Import ListNotations.
Open Scope Z_scope.

(* Every trace of observations that the model of CoroutineProcessor accepts
   satisfies the
   lifecycle clauses checked by the abstract scheduler of Coro/Spec.v
   ([ok09]) at every operation - issued between frames or from inside a
   coroutine body:
   - state answers ACTIVE from a successful start until a positive yield,
     PAUSED until the frame in which the wait runs out (C08), TERMINATED
     after return and from the instant a successful kill returns;
   - start answers ValueError unless the generator is TERMINATED, kill
     answers ValueError if it is, both TypeError for non-generators, and a
     call that raises changes nothing;
   - the body of a coroutine runs only while it is ACTIVE (never after kill
     unless it was started again) and always from the script position where
     it stopped;
   - once the generator has returned, the promise of its last start holds
     the returned value;
   - process never raises, except that it passes on an exception that left a
     coroutine body; that coroutine is TERMINATED from then on, its promise
     keeps None, it is released at once;
   and at the end of the trace every generator that is still alive after the
   harness dropped its references is ACTIVE, PAUSED, or a killed one whose
   next turn (next frame, or the frame in which its wait runs out) has not
   come yet. *)
Theorem C09_lifecycle :
  forall c : C09_case, wf_b c = true -> known09_b c = false ->
                       accepts c = true -> holds09 c.
Proof. exact accepts_holds09. Qed.
Print Assumptions C09_lifecycle.

(* readings of [ok09] on raw observations *)
Theorem C09_body_runs_only_when_active_and_resumes :
  forall sc t g k outs, ok09 (sp_exec sc t (g, k, outs)) = true ->
                        sp_state t g = 2 /\ k = zget (t_pc t) g.
Proof. exact body_only_when_active. Qed.
Print Assumptions C09_body_runs_only_when_active_and_resumes.

Theorem C09_answers :
  forall t a o, ok09 (sp_action t a o) = true -> o = exp_action t a.
Proof. exact answers. Qed.

Theorem C09_kill_at_once : forall t g, sp_state (sp_action t (AKill g) OOk) g = 0.
Proof. exact kill_at_once. Qed.

Theorem C09_error_changes_nothing :
  forall t a o, is_ok o = false ->
    t_st (sp_action t a o) = t_st t /\ t_pc (sp_action t a o) = t_pc t /\
    t_val (sp_action t a o) = t_val t /\ t_ghost (sp_action t a o) = t_ghost t.
Proof. exact error_changes_nothing. Qed.

Theorem C09_return_terminates_and_fills_promise :
  forall t g v, sp_state (sp_result t g (RReturn v)) g = 0 /\
                alookup g (t_val (sp_result t g (RReturn v))) = Some v /\
                In g (t_fin (sp_result t g (RReturn v))).
Proof. exact return_terminates. Qed.

(* process never fails, except that it passes on what left a coroutine body *)
Theorem C09_process_never_fails :
  forall sc t dt log exc,
    ok09 (sp_step sc t (Process dt) (ObsP log exc)) = true ->
    exc = abort_outcome (fold_left (sp_exec sc) log (tick dt (flagwf (0 <=? dt) t))).
Proof. exact process_never_fails. Qed.

Theorem C09_raise_terminates :
  forall t g k,
    sp_state (sp_result t g (RRaise k)) g = 0 /\
    t_val (sp_result t g (RRaise k)) = t_val t /\
    In g (t_fin (sp_result t g (RRaise k))) /\
    t_due (sp_result t g (RRaise k)) = [] /\
    no_abort (sp_result t g (RRaise k)) = false.
Proof. exact raise_terminates. Qed.
Print Assumptions C09_process_never_fails.

(* non-vacuity: a trace recorded from /repo (kill + start between frames and
   from inside a body, a self-kill, error answers, a promise value) *)
Definition ex_ok : case :=
  mkCase [(0, [([], (RYield (YNum 8))); ([], (RYield YNone)); ([], (RYield YNone));
               ([], (RYield YNone)); ([], (RYield YNone)); ([], (RYield YNone));
               ([], (RYield YNone)); ([], (RReturn (Some 7)))]);
          (1, [([], (RYield YNone));
               ([(AKill 0); (AState 0); (AStart 0); (AKill 1)], (RYield YNone));
               ([], (RReturn (Some 3)))]);
          (2, [([(AState 1)], (RReturn (Some 4)))])]
         [(Start 0, ObsR OOk); (Start 1, ObsR OOk); (Kill (-1), ObsR OTypeError);
          (Process 4, ObsP [(0, 0, []); (1, 0, [])] OOk); (State 0, ObsR (OState 1));
          (Kill 0, ObsR OOk); (State 0, ObsR (OState 0)); (Start 0, ObsR OOk);
          (State 0, ObsR (OState 2));
          (Process 4, ObsP [(1, 1, [OOk; (OState 0); OOk; OOk]); (0, 1, [])] OOk);
          (State 1, ObsR (OState 0)); (Start 2, ObsR OOk); (Kill 1, ObsR OValueError);
          (Start 0, ObsR OValueError);
          (Process 4, ObsP [(0, 2, []); (2, 0, [(OState 0)])] OOk);
          (Value 2, ObsV (Some 4)); (Kill 0, ObsR OOk); (Process 0, ObsP [] OOk);
          (State 0, ObsR (OState 0))] [].
Example C09_nonvacuous :
  wf_b ex_ok = true /\ known09_b ex_ok = false /\ accepts ex_ok = true /\ holds09_b ex_ok = true.
Proof. vm_compute. auto. Qed.

(* the history of defect D8 as the unrepaired code answered it: TERMINATED
   reported for a coroutine that runs; the killed body runs again; a KeyError *)
Definition two : scripts :=
  [(0, [([], RYield YNone); ([], RYield YNone); ([], RYield YNone); ([], RReturn None)])].
Example C09_state_ignoring_kill_rejected :
  holds09_b (mkCase two [(Start 0, ObsR OOk); (Kill 0, ObsR OOk); (State 0, ObsR (OState 2))] [])
  = false.
Proof. vm_compute. reflexivity. Qed.
Example C09_runs_after_kill_rejected :
  holds09_b (mkCase two [(Start 0, ObsR OOk); (Kill 0, ObsR OOk);
                         (Process 8, ObsP [(0, 0, [])] OOk)] []) = false.
Proof. vm_compute. reflexivity. Qed.
Example C09_process_keyerror_rejected :
  holds09_b (mkCase two [(Start 0, ObsR OOk); (Process 8, ObsP [(0, 0, [])] OOk);
                         (Kill 0, ObsR OOk); (Start 0, ObsR OOk);
                         (Process 8, ObsP [(0, 1, [])] OKeyError)] []) = false.
Proof. vm_compute. reflexivity. Qed.
Example C09_not_released_rejected :
  holds09_b (mkCase two [(Start 0, ObsR OOk); (Kill 0, ObsR OOk);
                         (Process 8, ObsP [] OOk)] [0]) = false.
Proof. vm_compute. reflexivity. Qed.

(* what the code did before the repair 5fd221a: the coroutine whose body
   raised stayed registered (ACTIVE, not released) *)
Definition boom : scripts := [(0, [([], RRaise 2)])].
Example C09_raised_still_active_rejected :
  holds09_b (mkCase boom [(Start 0, ObsR OOk); (Process 8, ObsP [(0, 0, [])] (ORaised 2));
                          (State 0, ObsR (OState 2))] []) = false.
Proof. vm_compute. reflexivity. Qed.
Example C09_raised_not_released_rejected :
  holds09_b (mkCase boom [(Start 0, ObsR OOk); (Process 8, ObsP [(0, 0, [])] (ORaised 2))] [0])
  = false.
Proof. vm_compute. reflexivity. Qed.
Example C09_raised_accepted :
  accepts (mkCase boom [(Start 0, ObsR OOk); (Process 8, ObsP [(0, 0, [])] (ORaised 2));
                        (State 0, ObsR (OState 0)); (Process 8, ObsP [] OOk)] []) = true.
Proof. vm_compute. reflexivity. Qed.

(* former finding K9 (repaired in /repo): a coroutine kills itself and
   returns in the same resumption; the unrepaired code kept its kill mark and
   with it the generator for ever *)
Example C09_stale_kill_mark_rejected :
  holds09_b (mkCase [(0, [([(AKill 0)], (RReturn (Some 5)))])]
                    [(Start 0, ObsR OOk); (Process 8, ObsP [(0, 0, [OOk])] OOk);
                     (State 0, ObsR (OState 0))] [0]) = false.
Proof. vm_compute. reflexivity. Qed.
