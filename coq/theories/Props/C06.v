(* C06 - Type queries match exactly the subclasses, once each.
   Statement file: theorems only, each closed by [exact]. *)
From Coq Require Import ZArith List Bool Permutation.
From Desper Require Import World.QLib World.QHier World.QHierProofs World.QModel
                           World.QProofs World.QReadings.
Import ListNotations.
Open Scope Z_scope.

(* For EVERY hierarchy of component / processor classes in which bases precede
   subclasses (any DAG, multiple inheritance included; Python accepts a
   subset of these), every assignment of types to entities and every query
   type: along every well-formed trace accepted by the model of
   desper/logic/world.py, each query by type observed after each operation
   (get, get_component, has_component, get_processor) and each result of
   remove_component / remove_processor satisfies the specification: the
   objects matched are those whose type is T or a direct or indirect subclass
   of T, get(T) lists each once, single-result queries return the object of
   exactly type T when there is one, and a removal detaches exactly the
   returned object.  [holds06 c] is [spec_run ... sel_type ... = true]. *)
Theorem C06_type_queries :
  forall c : C06_case, wf_b c = true -> known_b c = false -> accepts c = true -> holds06 c.
Proof. exact accepts_holds06. Qed.
Print Assumptions C06_type_queries.

(* [issub], the relation used by the specification, is the reflexive-
   transitive closure of "lists as a direct base" *)
Theorem C06_issub_is_the_subclass_relation :
  forall H, hier_wf H -> forall u t, issub H u t = true <-> sub H u t.
Proof. exact issub_spec. Qed.

(* the walk of the repaired _get (visited set) visits exactly the subclasses
   of T, once each, for every hierarchy *)
Theorem C06_walk_visits :
  forall H fuel T l, get_types_walk H fuel T = Some l ->
    NoDup l /\ forall u, In u l <-> sub H u T.
Proof. exact walk_visits. Qed.
Print Assumptions C06_walk_visits.

(* the walks with early return: what they find is a subclass that passes the
   test, they find nothing only if no subclass passes, and the exact type is
   examined first *)
Theorem C06_walk_finds_a_subclass :
  forall H test fuel T u, find_walk H test fuel [T] = WFound u ->
    test u = true /\ sub H u T.
Proof.
  intros H test fuel T u W. destruct (find_sound H test fuel [T] u W) as (Ht & v & [<-|[]] & Hs).
  exact (conj Ht Hs).
Qed.

Theorem C06_walk_misses_nothing :
  forall H test fuel T, find_walk H test fuel [T] = WNone ->
    forall u, sub H u T -> test u = false.
Proof.
  intros H test fuel T W u Hs. exact (find_complete H test fuel [T] W T u (or_introl eq_refl) Hs).
Qed.

Theorem C06_walk_first_exact :
  forall H test fuel T rest, test T = true -> find_walk H test (S fuel) (T :: rest) = WFound T.
Proof. exact find_exact. Qed.

(* has_component's variant (fringe extended before the test) is the same function *)
Theorem C06_has_walk_is_find_walk :
  forall H test fuel st, has_walk H test fuel st = find_walk H test fuel st.
Proof. exact has_walk_find. Qed.

(* no walk of the model stops for lack of fuel, whatever the hierarchy *)
Theorem C06_fuel_suffices :
  forall H, hier_wf H -> forall test T,
    find_walk H test (walk_fuel H) [T] <> WFuel /\
    has_walk H test (walk_fuel H) [T] <> WFuel /\
    get_types_walk H (walk_fuel H) T <> None.
Proof.
  intros H WF test T.
  exact (conj (find_walk_fuel H WF test T) (conj (has_walk_fuel H WF test T) (get_walk_fuel H WF T))).
Qed.

(* the acceptor reads the returned object from the observation and checks
   that it is allowed; the answer of the code-shaped walk itself always is *)
Theorem C06_own_walk_answer_allowed :
  forall H tbl T, hier_wf H -> NoDup (akeys tbl) -> NoDup (avals tbl) ->
  match find_walk H (fun u => amem u tbl) (walk_fuel H) [T] with
  | WFound u0 =>
      exists c, alookup u0 tbl = Some c /\
        pick H (walk_fuel H) tbl (WFound u0) T (Some c) = Some (Some u0)
  | WNone => pick H (walk_fuel H) tbl WNone T None = Some None
  | WFuel => False
  end.
Proof. exact own_answer_allowed. Qed.

(* What the clauses checked by [holds06] say on raw observations
   (get / get_component / has_component: see also Props/C01.v). *)
Theorem C06_get_lists_each_matching_component_once :
  forall H, hier_wf H -> forall t, story t -> forall T r,
    spec_query H t (QGet T r) = true ->
    NoDup r /\ forall e c, In (e, c) r <-> exists u, In (e, u, c) (att t) /\ sub H u T.
Proof. exact reading_get. Qed.

Theorem C06_get_processor_returns_a_subtype_exact_first :
  forall H, hier_wf H -> forall t T r,
    spec_query H t (QGetProc T r) = true ->
    match r with
    | None => forall u p, In (u, p) (sprocs t) -> ~ sub H u T
    | Some p => (exists u, In (u, p) (sprocs t) /\ sub H u T) /\
                (forall p', In (T, p') (sprocs t) -> p' = p)
    end.
Proof. exact reading_get_processor. Qed.

(* remove_component(e, T) returning c: c was attached to e under a subtype of
   T (exactly T if e had one), and afterwards exactly that one attachment is
   gone *)
Theorem C06_remove_component_detaches_exactly_one :
  forall H, hier_wf H -> forall t, story t -> forall e T c t',
    spec_step H t (ORemove e T) (RObj (Some c)) = Some t' ->
    exists u, In (e, u, c) (att t) /\ sub H u T /\
              (forall c', In (e, T, c') (att t) -> c' = c) /\
              Permutation (att t) ((e, u, c) :: att t') /\ sprocs t' = sprocs t.
Proof. exact reading_remove. Qed.

Theorem C06_remove_processor_detaches_exactly_one :
  forall H, hier_wf H -> forall t, story t -> forall T p t',
    spec_step H t (ORemoveProc T) (RObj (Some p)) = Some t' ->
    exists u, In (u, p) (sprocs t) /\ sub H u T /\
              (forall p', In (T, p') (sprocs t) -> p' = p) /\
              Permutation (sprocs t) ((u, p) :: sprocs t') /\ att t' = att t.
Proof. exact reading_remove_processor. Qed.

(* ---- non-vacuity ------------------------------------------------------------- *)
(* classes A, B(A), C(A), D(B, C), E(D) *)
Definition ex_H : hier := [[]; [0%nat]; [0%nat]; [1%nat; 2%nat]; [3%nat]].
Definition ex_ok : C06_case := {| c_H := ex_H; c_trace := [
  (OCreate None [(3%nat, 10); (2%nat, 11)], RId 1,
     [QGet 0%nat [(1, 11); (1, 10)]; QGet 1%nat [(1, 10)]; QHas 1 4%nat false;
      QGetComponent 1 2%nat (Some 11); QGetComponent 1 1%nat (Some 10)]);
  (OAdd 1 4%nat 12, RUnit, [QGet 0%nat [(1, 10); (1, 12); (1, 11)]; QGetComponent 1 3%nat (Some 10)]);
  (* the implementation may pick either subtype when the exact type is absent *)
  (ORemove 1 1%nat, RObj (Some 12), [QGet 0%nat [(1, 10); (1, 11)]; QHas 1 4%nat false]);
  (OAddProc 3%nat 20, RUnit, [QGetProc 0%nat (Some 20); QGetProc 4%nat None]);
  (OAddProc 2%nat 21, RUnit, [QGetProc 2%nat (Some 21); QGetProc 0%nat (Some 20)]);
  (ORemoveProc 2%nat, RObj (Some 21), [QGetProc 2%nat (Some 20)]);
  (ORemoveProc 0%nat, RObj (Some 20), [QGetProc 0%nat None])
  ] |}.
Example C06_nonvacuous : wf_b ex_ok = true /\ known_b ex_ok = false /\ accepts ex_ok = true.
Proof. vm_compute. auto. Qed.

(* D7 (repaired by ed7d8c8): under a diamond get(A) listed the component twice *)
Example C06_diamond_listed_twice_rejected :
  holds06_b {| c_H := ex_H; c_trace := [
    (OCreate None [(3%nat, 10)], RId 1, [QGet 0%nat [(1, 10); (1, 10)]]) ] |} = false.
Proof. vm_compute. reflexivity. Qed.

(* a subclass preferred to the exact type *)
Example C06_exact_type_not_preferred_rejected :
  holds06_b {| c_H := ex_H; c_trace := [
    (OCreate None [(0%nat, 10); (1%nat, 11)], RId 1, [QGetComponent 1 0%nat (Some 11)]) ] |} = false.
Proof. vm_compute. reflexivity. Qed.

(* an indirect subclass missed *)
Example C06_indirect_subclass_missed_rejected :
  holds06_b {| c_H := ex_H; c_trace := [
    (OCreate None [(4%nat, 10)], RId 1, [QHas 1 0%nat false]) ] |} = false.
Proof. vm_compute. reflexivity. Qed.

(* remove_component detaching more than the returned object *)
Example C06_remove_detaching_two_rejected :
  holds06_b {| c_H := ex_H; c_trace := [
    (OCreate None [(1%nat, 10); (2%nat, 11)], RId 1, []);
    (ORemove 1 0%nat, RObj (Some 10), [QGet 0%nat []]) ] |} = false.
Proof. vm_compute. reflexivity. Qed.
