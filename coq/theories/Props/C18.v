(* C18 - Vector and matrix operations compute their textbook definitions.
   Statement file: theorems only, each closed by [exact].

   Every name of the form Vec2_add, Mat4_matmul_m, ... is a definition of
   Math/MathGen.v, which harness/pymath2coq.py regenerates from
   /repo/desper/math.py on every run of the check; the theorems below are
   re-checked against that text.  They are stated over R, for ALL reals.
     vN a      reads the tuple a as the vector  i |-> a_i           (Math/Spec.v)
     mN A      reads the tuple A as the grid    (i, j) |-> A_(N*i+j), i.e. the
               grid the values are written in, row after row
     dot, norm, dist, cross, mmul, vecmat, det, ...  are the textbook
               definitions of Math/Spec.v (indexed sums).
   Conventions of the code, as proved below: (A @ B)(i,j) = sum_k A(i,k) B(k,j);
   A @ v treats v as a ROW vector, (A @ v)(j) = sum_k v(k) A(k,j); points are
   rows (x, y, z, 1) and translations sit in the last row.
   binary64 rounding is not modelled (the float behaviour is only tested). *)
From Coq Require Import Reals List String Ascii Bool.
From Desper Require Import Math.Sig Math.Spec Math.RInst Math.MathGen Math.C18Model
  Math.ProofsVec Math.ProofsMat Math.ProofsInv Math.ProofsNorm Math.ProofsTrig
  Math.ProofsXform Math.Swizzle.
Import ListNotations.
Local Open Scope R_scope.

Section C18.
(* math.atan2: arbitrary, except where [polar] is assumed explicitly *)
Variable at2 : R -> R -> R.
Let RO : ops R := Rops at2.
Local Existing Instance RO.

(* ---- 1. arithmetic acts entry by entry -------------------------------- *)
Theorem C18_vec2_arith : forall (a b : V2 R) i, (i < 2)%nat ->
  v2 (Vec2_add a b) i = v2 a i + v2 b i /\ v2 (Vec2_sub a b) i = v2 a i - v2 b i /\
  v2 (Vec2_mul a b) i = v2 a i * v2 b i /\ v2 (Vec2_truediv a b) i = v2 a i / v2 b i /\
  v2 (Vec2_neg a) i = - v2 a i.
Proof.
  intros a b i Hi.
  exact (conj (Vec2_add_ok at2 a b i Hi) (conj (Vec2_sub_ok at2 a b i Hi)
        (conj (Vec2_mul_ok at2 a b i Hi) (conj (Vec2_truediv_ok at2 a b i Hi)
        (Vec2_neg_ok at2 a i Hi))))).
Qed.
Theorem C18_vec3_arith : forall (a b : V3 R) i, (i < 3)%nat ->
  v3 (Vec3_add a b) i = v3 a i + v3 b i /\ v3 (Vec3_sub a b) i = v3 a i - v3 b i /\
  v3 (Vec3_mul a b) i = v3 a i * v3 b i /\ v3 (Vec3_truediv a b) i = v3 a i / v3 b i /\
  v3 (Vec3_neg a) i = - v3 a i.
Proof.
  intros a b i Hi.
  exact (conj (Vec3_add_ok at2 a b i Hi) (conj (Vec3_sub_ok at2 a b i Hi)
        (conj (Vec3_mul_ok at2 a b i Hi) (conj (Vec3_truediv_ok at2 a b i Hi)
        (Vec3_neg_ok at2 a i Hi))))).
Qed.
Theorem C18_vec4_arith : forall (a b : V4 R) i, (i < 4)%nat ->
  v4 (Vec4_add a b) i = v4 a i + v4 b i /\ v4 (Vec4_sub a b) i = v4 a i - v4 b i /\
  v4 (Vec4_mul a b) i = v4 a i * v4 b i /\ v4 (Vec4_truediv a b) i = v4 a i / v4 b i /\
  v4 (Vec4_neg a) i = - v4 a i.
Proof.
  intros a b i Hi.
  exact (conj (Vec4_add_ok at2 a b i Hi) (conj (Vec4_sub_ok at2 a b i Hi)
        (conj (Vec4_mul_ok at2 a b i Hi) (conj (Vec4_truediv_ok at2 a b i Hi)
        (Vec4_neg_ok at2 a i Hi))))).
Qed.
Theorem C18_mat3_arith : forall (A B : V9 R) i j, (i < 3)%nat -> (j < 3)%nat ->
  m3 (Mat3_add A B) i j = m3 A i j + m3 B i j /\ m3 (Mat3_sub A B) i j = m3 A i j - m3 B i j /\
  m3 (Mat3_neg A) i j = - m3 A i j /\ Mat3_pos A = A.
Proof.
  intros A B i j Hi Hj.
  exact (conj (Mat3_add_ok at2 A B i j Hi Hj) (conj (Mat3_sub_ok at2 A B i j Hi Hj)
        (conj (Mat3_neg_ok at2 A i j Hi Hj) (Mat3_pos_ok at2 A)))).
Qed.
Theorem C18_mat4_arith : forall (A B : V16 R) i j, (i < 4)%nat -> (j < 4)%nat ->
  m4 (Mat4_add A B) i j = m4 A i j + m4 B i j /\ m4 (Mat4_sub A B) i j = m4 A i j - m4 B i j /\
  m4 (Mat4_neg A) i j = - m4 A i j /\ Mat4_pos A = A.
Proof.
  intros A B i j Hi Hj.
  exact (conj (Mat4_add_ok at2 A B i j Hi Hj) (conj (Mat4_sub_ok at2 A B i j Hi Hj)
        (conj (Mat4_neg_ok at2 A i j Hi Hj) (Mat4_pos_ok at2 A)))).
Qed.
(* components, the default (zero) vectors, sum() support *)
Theorem C18_components : forall (a : V2 R) (b : V3 R) (c : V4 R),
  Vec2_x a = v2 a 0%nat /\ Vec2_y a = v2 a 1%nat /\
  Vec3_x b = v3 b 0%nat /\ Vec3_y b = v3 b 1%nat /\ Vec3_z b = v3 b 2%nat /\
  Vec4_x c = v4 c 0%nat /\ Vec4_y c = v4 c 1%nat /\ Vec4_z c = v4 c 2%nat /\
  Vec4_w c = v4 c 3%nat.
Proof.
  intros a b c.
  exact (conj (Vec2_x_ok at2 a) (conj (Vec2_y_ok at2 a) (conj (Vec3_x_ok at2 b)
        (conj (Vec3_y_ok at2 b) (conj (Vec3_z_ok at2 b) (conj (Vec4_x_ok at2 c)
        (conj (Vec4_y_ok at2 c) (conj (Vec4_z_ok at2 c) (Vec4_w_ok at2 c))))))))).
Qed.
Theorem C18_default_vectors :
  Vec2_new = (0, 0) /\ Vec3_new = (0, 0, 0) /\ Vec4_new = (0, 0, 0, 0).
Proof. exact (conj eq_refl (conj eq_refl eq_refl)). Qed.
Theorem C18_radd : forall (a a' : V2 R) (b b' : V3 R) (c c' : V4 R),
  Vec2_radd_0 a = a /\ Vec3_radd_0 b = b /\ Vec4_radd_0 c = c /\
  Vec2_radd_v a a' = Vec2_add a a' /\ Vec3_radd_v b b' = Vec3_add b b' /\
  Vec4_radd_v c c' = Vec4_add c c'.
Proof.
  intros a a' b b' c c'.
  exact (conj (Vec2_radd_0_ok at2 a) (conj (Vec3_radd_0_ok at2 b) (conj (Vec4_radd_0_ok at2 c)
        (conj (Vec2_radd_is_add at2 a a') (conj (Vec3_radd_is_add at2 b b')
        (Vec4_radd_is_add at2 c c')))))).
Qed.

(* ---- 2. dot, cross, lerp, scale, distance, abs, clamp ------------------ *)
Theorem C18_dot : forall (a a' : V2 R) (b b' : V3 R) (c c' : V4 R),
  Vec2_dot a a' = dot 2 (v2 a) (v2 a') /\ Vec3_dot b b' = dot 3 (v3 b) (v3 b') /\
  Vec4_dot c c' = dot 4 (v4 c) (v4 c').
Proof.
  intros a a' b b' c c'.
  exact (conj (Vec2_dot_ok at2 a a') (conj (Vec3_dot_ok at2 b b') (Vec4_dot_ok at2 c c'))).
Qed.
(* the indexed sum written out *)
Theorem C18_dot3_written_out : forall u v : vec,
  dot 3 u v = u 0%nat * v 0%nat + u 1%nat * v 1%nat + u 2%nat * v 2%nat.
Proof. exact (dot3_unfolded at2). Qed.
Theorem C18_cross : forall (a b : V3 R) i, (i < 3)%nat ->
  v3 (Vec3_cross a b) i = cross (v3 a) (v3 b) i.
Proof. exact (Vec3_cross_ok at2). Qed.
Theorem C18_cross_written_out : forall u v : vec,
  cross u v 0%nat = u 1%nat * v 2%nat - u 2%nat * v 1%nat /\
  cross u v 1%nat = u 2%nat * v 0%nat - u 0%nat * v 2%nat /\
  cross u v 2%nat = u 0%nat * v 1%nat - u 1%nat * v 0%nat.
Proof. exact (cross_unfolded at2). Qed.
(* lerp a b t = (1 - t) a + t b *)
Theorem C18_lerp : forall (a a' : V2 R) (b b' : V3 R) (c c' : V4 R) (t : R),
  (forall i, (i < 2)%nat -> v2 (Vec2_lerp a a' t) i = (1 - t) * v2 a i + t * v2 a' i) /\
  (forall i, (i < 3)%nat -> v3 (Vec3_lerp b b' t) i = (1 - t) * v3 b i + t * v3 b' i) /\
  (forall i, (i < 4)%nat -> v4 (Vec4_lerp c c' t) i = (1 - t) * v4 c i + t * v4 c' i).
Proof.
  intros a a' b b' c c' t.
  exact (conj (Vec2_lerp_ok at2 a a' t) (conj (Vec3_lerp_ok at2 b b' t) (Vec4_lerp_ok at2 c c' t))).
Qed.
Theorem C18_scale : forall (a : V2 R) (b : V3 R) (c : V4 R) (s : R),
  (forall i, (i < 2)%nat -> v2 (Vec2_scale a s) i = s * v2 a i) /\
  (forall i, (i < 3)%nat -> v3 (Vec3_scale b s) i = s * v3 b i) /\
  (forall i, (i < 4)%nat -> v4 (Vec4_scale c s) i = s * v4 c i).
Proof.
  intros a b c s.
  exact (conj (Vec2_scale_ok at2 a s) (conj (Vec3_scale_ok at2 b s) (Vec4_scale_ok at2 c s))).
Qed.
(* |v| = sqrt (v . v), distance a b = |a - b| *)
Theorem C18_abs : forall (a : V2 R) (b : V3 R) (c : V4 R),
  Vec2_abs a = sqrt (dot 2 (v2 a) (v2 a)) /\ Vec3_abs b = sqrt (dot 3 (v3 b) (v3 b)) /\
  Vec4_abs c = sqrt (dot 4 (v4 c) (v4 c)) /\ Vec2_mag a = Vec2_abs a /\ Vec3_mag b = Vec3_abs b.
Proof.
  intros a b c.
  exact (conj (Vec2_abs_ok at2 a) (conj (Vec3_abs_ok at2 b) (conj (Vec4_abs_ok at2 c)
        (conj (Vec2_mag_is_abs at2 a) (Vec3_mag_is_abs at2 b))))).
Qed.
Theorem C18_distance : forall (a a' : V2 R) (b b' : V3 R) (c c' : V4 R),
  Vec2_distance a a' = norm 2 (vsub (v2 a) (v2 a')) /\
  Vec3_distance b b' = norm 3 (vsub (v3 b) (v3 b')) /\
  Vec4_distance c c' = norm 4 (vsub (v4 c) (v4 c')).
Proof.
  intros a a' b b' c c'.
  exact (conj (Vec2_distance_ok at2 a a') (conj (Vec3_distance_ok at2 b b')
        (Vec4_distance_ok at2 c c'))).
Qed.
Theorem C18_clamp : forall x lo hi : R, clamp x lo hi = Rmax (Rmin x hi) lo.
Proof. exact (clamp_ok at2). Qed.
Theorem C18_vec_clamp : forall (a : V2 R) (b : V3 R) (c : V4 R) (lo hi : R),
  (forall i, (i < 2)%nat -> v2 (Vec2_clamp a lo hi) i = Rmax (Rmin (v2 a i) hi) lo) /\
  (forall i, (i < 3)%nat -> v3 (Vec3_clamp b lo hi) i = Rmax (Rmin (v3 b i) hi) lo) /\
  (forall i, (i < 4)%nat -> v4 (Vec4_clamp c lo hi) i = Rmax (Rmin (v4 c i) hi) lo).
Proof.
  intros a b c lo hi.
  exact (conj (Vec2_clamp_ok at2 a lo hi) (conj (Vec3_clamp_ok at2 b lo hi)
        (Vec4_clamp_ok at2 c lo hi))).
Qed.

(* ---- 3. matrix products ------------------------------------------------ *)
(* A @ B is the row-by-column product of the grids the values are written in *)
Theorem C18_matmul : forall (A B : V16 R) (A' B' : V9 R),
  (forall i j, (i < 4)%nat -> (j < 4)%nat ->
     m4 (Mat4_matmul_m A B) i j = sum_n 4 (fun k => m4 A i k * m4 B k j)) /\
  (forall i j, (i < 3)%nat -> (j < 3)%nat ->
     m3 (Mat3_matmul_m A' B') i j = sum_n 3 (fun k => m3 A' i k * m3 B' k j)).
Proof.
  intros A B A' B'. exact (conj (Mat4_matmul_m_ok at2 A B) (Mat3_matmul_m_ok at2 A' B')).
Qed.
Theorem C18_sum_written_out : forall (A B : mat) i j,
  mmul 4 A B i j = A i 0%nat * B 0%nat j + A i 1%nat * B 1%nat j
                   + A i 2%nat * B 2%nat j + A i 3%nat * B 3%nat j.
Proof. exact (mmul4_unfolded at2). Qed.
(* A @ v: v is a row vector *)
Theorem C18_matvec : forall (A : V16 R) (x : V4 R) (A' : V9 R) (x' : V3 R),
  (forall j, (j < 4)%nat -> v4 (Mat4_matmul_v A x) j = sum_n 4 (fun k => v4 x k * m4 A k j)) /\
  (forall j, (j < 3)%nat -> v3 (Mat3_matmul_v A' x') j = sum_n 3 (fun k => v3 x' k * m3 A' k j)).
Proof.
  intros A x A' x'. exact (conj (Mat4_matmul_v_ok at2 A x) (Mat3_matmul_v_ok at2 A' x')).
Qed.
Theorem C18_matmul_assoc : forall (A B C : V16 R) (A' B' C' : V9 R),
  Mat4_matmul_m (Mat4_matmul_m A B) C = Mat4_matmul_m A (Mat4_matmul_m B C) /\
  Mat3_matmul_m (Mat3_matmul_m A' B') C' = Mat3_matmul_m A' (Mat3_matmul_m B' C').
Proof.
  intros A B C A' B' C'.
  exact (conj (Mat4_matmul_assoc at2 A B C) (Mat3_matmul_assoc at2 A' B' C')).
Qed.
(* the default matrix is the identity grid and a two-sided unit *)
Theorem C18_identity : forall (A : V16 R) (x : V4 R) (A' : V9 R) (x' : V3 R),
  (forall i j, (i < 4)%nat -> (j < 4)%nat -> m4 Mat4_new i j = if Nat.eqb i j then 1 else 0) /\
  (forall i j, (i < 3)%nat -> (j < 3)%nat -> m3 Mat3_new i j = if Nat.eqb i j then 1 else 0) /\
  Mat4_matmul_m Mat4_new A = A /\ Mat4_matmul_m A Mat4_new = A /\ Mat4_matmul_v Mat4_new x = x /\
  Mat3_matmul_m Mat3_new A' = A' /\ Mat3_matmul_m A' Mat3_new = A' /\
  Mat3_matmul_v Mat3_new x' = x'.
Proof.
  intros A x A' x'.
  exact (conj (Mat4_new_ok at2) (conj (Mat3_new_ok at2)
        (conj (Mat4_matmul_id_l at2 A) (conj (Mat4_matmul_id_r at2 A)
        (conj (Mat4_matmul_id_v at2 x) (conj (Mat3_matmul_id_l at2 A')
        (conj (Mat3_matmul_id_r at2 A') (Mat3_matmul_id_v at2 x')))))))).
Qed.
Theorem C18_matmul_vec_compose : forall (A B : V16 R) (x : V4 R) (A' B' : V9 R) (x' : V3 R),
  Mat4_matmul_v (Mat4_matmul_m A B) x = Mat4_matmul_v B (Mat4_matmul_v A x) /\
  Mat3_matmul_v (Mat3_matmul_m A' B') x' = Mat3_matmul_v B' (Mat3_matmul_v A' x').
Proof.
  intros A B x A' B' x'.
  exact (conj (Mat4_matmul_vec_compose at2 A B x) (Mat3_matmul_vec_compose at2 A' B' x')).
Qed.
Theorem C18_transpose : forall A : V16 R,
  (forall i j, (i < 4)%nat -> (j < 4)%nat -> m4 (Mat4_transpose A) i j = m4 A j i) /\
  Mat4_transpose (Mat4_transpose A) = A.
Proof. intros A. exact (conj (Mat4_transpose_ok at2 A) (Mat4_transpose_involutive at2 A)). Qed.

(* ---- 4. the inverse ----------------------------------------------------- *)
(* det is the Laplace expansion of Math/Spec.v *)
Theorem C18_inverse : forall A : V16 R, det 4 (m4 A) <> 0 ->
  Mat4_matmul_m A (Mat4_invert A) = Mat4_new /\ Mat4_matmul_m (Mat4_invert A) A = Mat4_new.
Proof. intros A H. exact (conj (Mat4_invert_right at2 A H) (Mat4_invert_left at2 A H)). Qed.
Theorem C18_inverse_singular : forall A : V16 R, det 4 (m4 A) = 0 ->
  Mat4_invert A = A /\ Mat4_invert_w A = true.
Proof.
  intros A H. exact (conj (Mat4_invert_singular at2 A H) (proj2 (Mat4_invert_warns at2 A) H)).
Qed.
Theorem C18_inverse_warns_only_then : forall A : V16 R,
  Mat4_invert_w A = true -> det 4 (m4 A) = 0.
Proof. intros A. exact (proj1 (Mat4_invert_warns at2 A)). Qed.
Theorem C18_det2_written_out : forall A : mat,
  det 2 A = A 0%nat 0%nat * A 1%nat 1%nat - A 0%nat 1%nat * A 1%nat 0%nat.
Proof. exact (det2_unfolded at2). Qed.

(* ---- 5. normalize, from_magnitude, limit -------------------------------- *)
Theorem C18_normalize_unit : forall (a : V2 R) (b : V3 R) (c : V4 R),
  (a <> (0, 0) -> norm 2 (v2 (Vec2_normalize a)) = 1) /\
  (b <> (0, 0, 0) -> norm 3 (v3 (Vec3_normalize b)) = 1) /\
  (c <> (0, 0, 0, 0) -> norm 4 (v4 (Vec4_normalize c)) = 1).
Proof.
  intros a b c. exact (conj (Vec2_normalize_unit at2 a) (conj (Vec3_normalize_unit at2 b)
                      (Vec4_normalize_unit at2 c))).
Qed.
Theorem C18_normalize_zero :
  Vec2_normalize (0, 0) = (0, 0) /\ Vec3_normalize (0, 0, 0) = (0, 0, 0) /\
  Vec4_normalize (0, 0, 0, 0) = (0, 0, 0, 0).
Proof.
  exact (conj (Vec2_normalize_zero at2) (conj (Vec3_normalize_zero at2) (Vec4_normalize_zero at2))).
Qed.
(* same direction: a positive multiple of v *)
Theorem C18_normalize_direction : forall (a : V2 R) (b : V3 R) (c : V4 R),
  (a <> (0, 0) -> exists k, 0 < k /\ forall i, (i < 2)%nat -> v2 (Vec2_normalize a) i = k * v2 a i) /\
  (b <> (0, 0, 0) -> exists k, 0 < k /\ forall i, (i < 3)%nat -> v3 (Vec3_normalize b) i = k * v3 b i) /\
  (c <> (0, 0, 0, 0) -> exists k, 0 < k /\ forall i, (i < 4)%nat -> v4 (Vec4_normalize c) i = k * v4 c i).
Proof.
  intros a b c. exact (conj (Vec2_normalize_positive_multiple at2 a)
                      (conj (Vec3_normalize_positive_multiple at2 b)
                            (Vec4_normalize_positive_multiple at2 c))).
Qed.
(* from_magnitude changes only the magnitude *)
Theorem C18_from_magnitude : forall (a : V2 R) (b : V3 R) (m : R),
  (a <> (0, 0) -> norm 2 (v2 (Vec2_from_magnitude a m)) = Rabs m /\
     forall i, (i < 2)%nat -> v2 (Vec2_from_magnitude a m) i = m / norm 2 (v2 a) * v2 a i) /\
  (b <> (0, 0, 0) -> norm 3 (v3 (Vec3_from_magnitude b m)) = Rabs m /\
     forall i, (i < 3)%nat -> v3 (Vec3_from_magnitude b m) i = m / norm 3 (v3 b) * v3 b i).
Proof.
  intros a b m.
  exact (conj (fun H => conj (Vec2_from_magnitude_norm at2 a m H)
                             (fun i Hi => Vec2_from_magnitude_dir at2 a m i H Hi))
              (fun H => conj (Vec3_from_magnitude_norm at2 b m H)
                             (fun i Hi => Vec3_from_magnitude_dir at2 b m i H Hi))).
Qed.
(* limit(m), m >= 0, never returns a vector longer than m and leaves short
   enough vectors unchanged *)
Theorem C18_limit : forall (a : V2 R) (b : V3 R) (m : R), 0 <= m ->
  norm 2 (v2 (Vec2_limit a m)) <= m /\ (norm 2 (v2 a) <= m -> Vec2_limit a m = a) /\
  norm 3 (v3 (Vec3_limit b m)) <= m /\ (norm 3 (v3 b) <= m -> Vec3_limit b m = b).
Proof.
  intros a b m Hm.
  exact (conj (Vec2_limit_le at2 a m Hm) (conj (Vec2_limit_short at2 a m Hm)
        (conj (Vec3_limit_le at2 b m Hm) (Vec3_limit_short at2 b m Hm)))).
Qed.

(* ---- 6. angles ----------------------------------------------------------- *)
(* from_polar m h = m (cos h, sin h); from_heading keeps |v| and sets the
   heading; rotate keeps |v| *)
Theorem C18_from_polar : forall m h : R,
  Vec2_from_polar m h = (m * cos h, m * sin h) /\ norm 2 (v2 (Vec2_from_polar m h)) = Rabs m.
Proof. intros m h. exact (conj (Vec2_from_polar_pair at2 m h) (Vec2_from_polar_norm at2 m h)). Qed.
Theorem C18_from_heading : forall (a : V2 R) (h : R),
  Vec2_from_heading a h = (norm 2 (v2 a) * cos h, norm 2 (v2 a) * sin h) /\
  norm 2 (v2 (Vec2_from_heading a h)) = norm 2 (v2 a).
Proof.
  intros a h. exact (conj (Vec2_from_heading_pair at2 a h) (Vec2_from_heading_norm at2 a h)).
Qed.
Theorem C18_heading : forall a : V2 R, Vec2_heading a = at2 (v2 a 1%nat) (v2 a 0%nat).
Proof. exact (Vec2_heading_ok at2). Qed.
Theorem C18_rotate_norm : forall (a : V2 R) (phi : R),
  norm 2 (v2 (Vec2_rotate a phi)) = norm 2 (v2 a).
Proof. exact (Vec2_rotate_norm at2). Qed.
(* hypothesis of THIS theorem (not an axiom): atan2 y x is a polar angle of
   (x, y):  x = |(x,y)| cos (atan2 y x),  y = |(x,y)| sin (atan2 y x) *)
Theorem C18_rotate : polar at2 -> forall (a : V2 R) (phi : R),
  Vec2_rotate a phi = (cos phi * v2 a 0%nat - sin phi * v2 a 1%nat,
                       sin phi * v2 a 0%nat + cos phi * v2 a 1%nat).
Proof. exact (Vec2_rotate_ok at2). Qed.

(* ---- 7. the stated transforms -------------------------------------------- *)
Theorem C18_from_translation : forall (t : V3 R) (x y z : R),
  (forall i j, (i < 4)%nat -> (j < 4)%nat ->
     m4 (Mat4_from_translation t) i j
     = if Nat.eqb i j then 1 else if Nat.eqb i 3 then v3 t j else 0) /\
  Mat4_matmul_v (Mat4_from_translation t) (x, y, z, 1)
  = (x + v3 t 0%nat, y + v3 t 1%nat, z + v3 t 2%nat, 1).
Proof.
  intros t x y z.
  exact (conj (Mat4_from_translation_ok at2 t) (Mat4_from_translation_acts at2 t x y z)).
Qed.
Theorem C18_from_scale : forall (s : V3 R) (x y z : R),
  (forall i j, (i < 4)%nat -> (j < 4)%nat ->
     m4 (Mat4_from_scale s) i j
     = if Nat.eqb i j then (if Nat.ltb i 3 then v3 s i else 1) else 0) /\
  Mat4_matmul_v (Mat4_from_scale s) (x, y, z, 1)
  = (v3 s 0%nat * x, v3 s 1%nat * y, v3 s 2%nat * z, 1).
Proof.
  intros s x y z. exact (conj (Mat4_from_scale_ok at2 s) (Mat4_from_scale_acts at2 s x y z)).
Qed.
Theorem C18_translate : forall (M : V16 R) (t : V3 R),
  Mat4_translate M t = Mat4_matmul_m M (Mat4_from_translation t).
Proof. exact (Mat4_translate_is_product at2). Qed.
(* every corner (x in {l, r}, y in {b, t}, z in {-n, -f}) of the box goes to
   the corresponding corner (+-1, +-1, +-1, 1) *)
Theorem C18_orthogonal_projection : forall l r b t n f : R, l <> r -> b <> t -> n <> f ->
  forall (sx sy sz : bool) j, (j < 4)%nat ->
    vecmat 4 (corner sx sy sz l r b t n f) (m4 (Mat4_orthogonal_projection l r b t n f)) j
    = corner_image sx sy sz j.
Proof. exact (Mat4_orthogonal_projection_corners at2). Qed.
Theorem C18_orthogonal_projection_affine :
  forall l r b t n f x y z : R, l <> r -> b <> t -> n <> f ->
    Mat4_matmul_v (Mat4_orthogonal_projection l r b t n f) (x, y, z, 1)
    = (2 * (x - l) / (r - l) - 1, 2 * (y - b) / (t - b) - 1, 2 * (- z - n) / (f - n) - 1, 1).
Proof. exact (Mat4_orthogonal_projection_acts at2). Qed.

(* ---- 9. second round: rows, columns, scale, rotations, perspective, look_at,
        the Mat3 transforms, rounding ------------------------------------------ *)
Theorem C18_rows_columns : forall (A : V16 R) k, (k < 4)%nat ->
  v4 (Mat4_row_0 A) k = m4 A 0%nat k /\ v4 (Mat4_row_1 A) k = m4 A 1%nat k /\
  v4 (Mat4_row_2 A) k = m4 A 2%nat k /\ v4 (Mat4_row_3 A) k = m4 A 3%nat k /\
  v4 (Mat4_column_0 A) k = m4 A k 0%nat /\ v4 (Mat4_column_1 A) k = m4 A k 1%nat /\
  v4 (Mat4_column_2 A) k = m4 A k 2%nat /\ v4 (Mat4_column_3 A) k = m4 A k 3%nat.
Proof.
  intros A k Hk.
  exact (conj (Mat4_row_0_ok at2 A k Hk) (conj (Mat4_row_1_ok at2 A k Hk)
        (conj (Mat4_row_2_ok at2 A k Hk) (conj (Mat4_row_3_ok at2 A k Hk)
        (conj (Mat4_column_0_ok at2 A k Hk) (conj (Mat4_column_1_ok at2 A k Hk)
        (conj (Mat4_column_2_ok at2 A k Hk) (Mat4_column_3_ok at2 A k Hk)))))))).
Qed.
(* Mat4.scale multiplies the diagonal entries (0,0), (1,1), (2,2) by the
   components; this is A @ from_scale(s) when the other entries of the first
   three columns are zero (NOT in general: a translation row is left unscaled) *)
Theorem C18_mat4_scale : forall (A : V16 R) (s : V3 R),
  (forall i j, (i < 4)%nat -> (j < 4)%nat ->
     m4 (Mat4_scale A s) i j
     = if Nat.eqb i j && Nat.ltb i 3 then m4 A i j * v3 s i else m4 A i j) /\
  ((forall i j, (i < 4)%nat -> (j < 3)%nat -> i <> j -> m4 A i j = 0) ->
   Mat4_scale A s = Mat4_matmul_m A (Mat4_from_scale s)).
Proof. intros A s. exact (conj (Mat4_scale_ok at2 A s) (Mat4_scale_is_product at2 A s)). Qed.
(* rotate / from_rotation: the Rodrigues rotation about the axis u by th;
   a point p goes to cos p + sin (u x p) + (1 - cos)(u . p) u *)
Theorem C18_rotation : forall (A : V16 R) (th : R) (u : V3 R) (x y z : R),
  (forall i j, (i < 4)%nat -> (j < 4)%nat ->
     m4 (Mat4_from_rotation th u) i j = rodrigues_grid (cos th) (sin th) (v3 u) i j) /\
  Mat4_rotate A th u = Mat4_matmul_m A (Mat4_from_rotation th u) /\
  Mat4_matmul_v (Mat4_from_rotation th u) (x, y, z, 1)
  = (rodrigues (cos th) (sin th) (v3 u) (vecof [x; y; z]) 0%nat,
     rodrigues (cos th) (sin th) (v3 u) (vecof [x; y; z]) 1%nat,
     rodrigues (cos th) (sin th) (v3 u) (vecof [x; y; z]) 2%nat, 1).
Proof.
  intros A th u x y z.
  exact (conj (Mat4_from_rotation_ok at2 th u) (conj (Mat4_rotate_is_product at2 A th u)
        (Mat4_from_rotation_acts at2 th u x y z))).
Qed.
(* for a unit axis it is a proper rotation that fixes the axis *)
Theorem C18_rotation_unit_axis : forall (th : R) (x y z : R), x * x + y * y + z * z = 1 ->
  let G := Mat4_from_rotation th (x, y, z) in
  Mat4_matmul_m G (Mat4_transpose G) = Mat4_new /\ det 4 (m4 G) = 1 /\
  Mat4_matmul_v G (x, y, z, 1) = (x, y, z, 1).
Proof.
  intros th x y z H G.
  assert (H' : dot 3 (v3 (x, y, z)) (v3 (x, y, z)) = 1)
    by (rewrite (dot3_unfolded at2); exact H).
  exact (conj (Mat4_from_rotation_orthogonal at2 th (x, y, z) H')
        (conj (Mat4_from_rotation_det at2 th (x, y, z) H')
              (Mat4_from_rotation_axis at2 th x y z H))).
Qed.
(* the assert of the code is exactly: the entries of the axis lie in [-1, 1] *)
Theorem C18_rotation_precondition : forall (A : V16 R) (th : R) (u : V3 R),
  Mat4_rotate_p A th u = true <-> (forall i, (i < 3)%nat -> Rabs (v3 u i) <= 1).
Proof. exact (Mat4_rotate_pre at2). Qed.
(* perspective_projection: the standard frustum matrix (row vectors), with
   f = 1 / tan(fov/2), fov in degrees, aspect = (right-left)/(top-bottom) *)
Theorem C18_perspective : forall l r b t n f fov : R,
  l <> r -> b <> t -> n <> f -> n <> 0 -> tan (fov * PI / 360) <> 0 ->
  (forall i j, (i < 4)%nat -> (j < 4)%nat ->
     m4 (Mat4_perspective_projection l r b t n f fov) i j
     = perspective_grid (1 / tan (fov * PI / 360)) ((r - l) / (t - b)) n f i j) /\
  (let h := n * tan (fov * PI / 360) in
   let a := (r - l) / (t - b) in
   Mat4_matmul_v (Mat4_perspective_projection l r b t n f fov) (a * h, h, - n, 1) = (n, n, - n, n)
   /\ Mat4_matmul_v (Mat4_perspective_projection l r b t n f fov)
                    (a * h * f / n, h * f / n, - f, 1) = (f, f, f, f)).
Proof.
  intros l r b t n f fov H1 H2 H3 H4 H5.
  exact (conj (Mat4_perspective_projection_ok at2 l r b t n f fov H1 H2 H3 H4 H5)
              (Mat4_perspective_projection_corners at2 l r b t n f fov H1 H2 H3 H4 H5)).
Qed.
Theorem C18_perspective_default_fov : forall l r b t n f : R,
  Mat4_perspective_projection_fov60 l r b t n f = Mat4_perspective_projection l r b t n f 60.
Proof. exact (Mat4_perspective_projection_default at2). Qed.
(* look_at: the view matrix of the frame f = (target - position)^, s = f x up^,
   u = s x f at position; position goes to the origin, the target onto the
   negative z axis at its distance *)
Theorem C18_look_at : forall p t up : V3 R, t <> p -> up <> (0, 0, 0) ->
  (forall i j, (i < 4)%nat -> (j < 4)%nat ->
     m4 (Mat4_look_at p t up) i j = lookat_grid (v3 p) (v3 t) (v3 up) i j) /\
  Mat4_matmul_v (Mat4_look_at p t up) (v3 p 0%nat, v3 p 1%nat, v3 p 2%nat, 1) = (0, 0, 0, 1) /\
  Mat4_matmul_v (Mat4_look_at p t up) (v3 t 0%nat, v3 t 1%nat, v3 t 2%nat, 1)
  = (0, 0, - norm 3 (vsub (v3 t) (v3 p)), 1).
Proof.
  intros p t up H1 H2.
  exact (conj (Mat4_look_at_ok at2 p t up H1 H2) (conj (Mat4_look_at_position at2 p t up H1 H2)
        (Mat4_look_at_target at2 p t up H1 H2))).
Qed.
(* the frame: f is a unit vector, s and u are orthogonal to it and to each
   other; they are unit vectors when up is perpendicular to the direction (the
   code does not renormalise s, so otherwise |s| = |u| < 1) *)
Theorem C18_look_at_frame : forall p t up : vec,
  0 < dot 3 (vsub t p) (vsub t p) -> 0 < dot 3 up up ->
  let f := lookat_f p t in let s := lookat_s p t up in let u := lookat_u p t up in
  dot 3 f f = 1 /\ dot 3 s f = 0 /\ dot 3 u f = 0 /\ dot 3 s u = 0 /\
  dot 3 u u = dot 3 s s /\ (dot 3 (vsub t p) up = 0 -> dot 3 s s = 1).
Proof. exact (lookat_frame at2). Qed.
Theorem C18_view_matrix_acts : forall (s u f p q : vec) j, (j < 4)%nat ->
  vecmat 4 (vecof [q 0%nat; q 1%nat; q 2%nat; 1]) (view_grid s u f p) j
  = vecof [dot 3 (vsub q p) s; dot 3 (vsub q p) u; - dot 3 (vsub q p) f; 1] j.
Proof. exact (view_grid_acts at2). Qed.
(* the Mat3 transforms multiply with the matrices written in the code: scale
   DIVIDES by its arguments, translate moves by (-tx, +ty), rotate takes degrees *)
Theorem C18_mat3_transforms : forall (A : V9 R) (a b phi : R) i j, (i < 3)%nat -> (j < 3)%nat ->
  m3 (Mat3_scale A a b) i j = mmul 3 (m3 A) (m3_scale a b) i j /\
  m3 (Mat3_translate A a b) i j = mmul 3 (m3 A) (m3_translate a b) i j /\
  m3 (Mat3_rotate A phi) i j
  = mmul 3 (m3 A) (m3_rotate (cos (phi * PI / 180)) (sin (phi * PI / 180))) i j /\
  m3 (Mat3_shear A a b) i j = mmul 3 (m3 A) (m3_shear a b) i j.
Proof.
  intros A a b phi i j Hi Hj.
  exact (conj (Mat3_scale_ok at2 A a b i j Hi Hj) (conj (Mat3_translate_ok at2 A a b i j Hi Hj)
        (conj (Mat3_rotate_ok at2 A phi i j Hi Hj) (Mat3_shear_ok at2 A a b i j Hi Hj)))).
Qed.
Theorem C18_mat3_transforms_act : forall x y a b phi : R, a <> 0 -> b <> 0 ->
  Mat3_matmul_v (Mat3_scale Mat3_new a b) (x, y, 1) = (x / a, y / b, 1) /\
  Mat3_matmul_v (Mat3_translate Mat3_new a b) (x, y, 1) = (x - a, y + b, 1) /\
  Mat3_matmul_v (Mat3_rotate Mat3_new phi) (x, y, 1)
  = (x * cos (phi * PI / 180) - y * sin (phi * PI / 180),
     x * sin (phi * PI / 180) + y * cos (phi * PI / 180), 1) /\
  Mat3_matmul_v (Mat3_shear Mat3_new a b) (x, y, 1) = (x + a * y, b * x + y, 1).
Proof. exact (Mat3_transforms_act at2). Qed.
(* __round__ rounds entry by entry; Rround x n = round-half-even of x 10^n,
   divided by 10^n (Math/RInst.v), within half a unit of the last digit *)
Theorem C18_round : forall (a : V2 R) (b : V3 R) (c : V4 R) (A : V9 R) (B : V16 R),
  (forall i, (i < 2)%nat -> v2 (Vec2_round_n a) i = Rround (v2 a i) 0
                            /\ v2 (Vec2_round_2 a) i = Rround (v2 a i) 2) /\
  (forall i, (i < 3)%nat -> v3 (Vec3_round_n b) i = Rround (v3 b i) 0
                            /\ v3 (Vec3_round_2 b) i = Rround (v3 b i) 2) /\
  (forall i, (i < 4)%nat -> v4 (Vec4_round_n c) i = Rround (v4 c i) 0
                            /\ v4 (Vec4_round_2 c) i = Rround (v4 c i) 2) /\
  (forall i j, (i < 3)%nat -> (j < 3)%nat -> m3 (Mat3_round_n A) i j = Rround (m3 A i j) 0
                            /\ m3 (Mat3_round_2 A) i j = Rround (m3 A i j) 2) /\
  (forall i j, (i < 4)%nat -> (j < 4)%nat -> m4 (Mat4_round_n B) i j = Rround (m4 B i j) 0
                            /\ m4 (Mat4_round_2 B) i j = Rround (m4 B i j) 2).
Proof.
  intros a b c A B.
  exact (conj (fun i Hi => conj (Vec2_round_n_ok at2 a i Hi) (Vec2_round_2_ok at2 a i Hi))
        (conj (fun i Hi => conj (Vec3_round_n_ok at2 b i Hi) (Vec3_round_2_ok at2 b i Hi))
        (conj (fun i Hi => conj (Vec4_round_n_ok at2 c i Hi) (Vec4_round_2_ok at2 c i Hi))
        (conj (fun i j Hi Hj => conj (Mat3_round_n_ok at2 A i j Hi Hj) (Mat3_round_2_ok at2 A i j Hi Hj))
              (fun i j Hi Hj => conj (Mat4_round_n_ok at2 B i j Hi Hj)
                                     (Mat4_round_2_ok at2 B i j Hi Hj)))))).
Qed.
Theorem C18_round_is_nearest : forall x : R, Rabs (IZR (Rround_int x) - x) <= 1 / 2.
Proof. exact Rround_int_close. Qed.

End C18.

(* after closing the section every theorem above is quantified over at2 *)
Print Assumptions C18_vec4_arith.
Print Assumptions C18_mat4_arith.
Print Assumptions C18_cross.
Print Assumptions C18_vec_clamp.
Print Assumptions C18_matmul.
Print Assumptions C18_matmul_assoc.
Print Assumptions C18_transpose.
Print Assumptions C18_inverse.
Print Assumptions C18_inverse_singular.
Print Assumptions C18_normalize_unit.
Print Assumptions C18_from_magnitude.
Print Assumptions C18_limit.
Print Assumptions C18_from_heading.
Print Assumptions C18_rotate.
Print Assumptions C18_translate.
Print Assumptions C18_orthogonal_projection.
Print Assumptions C18_rotation.
Print Assumptions C18_rotation_unit_axis.
Print Assumptions C18_perspective.
Print Assumptions C18_look_at.
Print Assumptions C18_look_at_frame.
Print Assumptions C18_round.

(* ---- 8. swizzling (hand-written model Math/Swizzle.v, tied to the classes
   by the exhaustive comparison of every run) --------------------------------- *)
Theorem C18_swizzle : forall (A : Type) (letters s : list ascii) (v out : list A),
  swizzle letters s v = Some out ->
  List.length out = List.length s /\ (2 <= List.length s <= 4)%nat /\
  forall i c, nth_error s i = Some c ->
    exists k, nth_error letters k = Some c /\ nth_error out i = nth_error v k
              /\ nth_error out i <> None.
Proof. exact swizzle_spec. Qed.
Theorem C18_swizzle_error : forall (A : Type) (letters s : list ascii) (v : list A),
  (List.length letters <= List.length v)%nat ->
  (swizzle letters s v = None <->
   (~ (2 <= List.length s <= 4)%nat \/ exists c, In c s /\ ~ In c letters)).
Proof. exact swizzle_error. Qed.
Print Assumptions C18_swizzle.
Print Assumptions C18_swizzle_error.

(* the hypothesis of C18_rotate is not vacuous: the usual atan2, defined from
   atan by cases on the signs, satisfies it (uses the stdlib lemmas about
   atan, hence one more stdlib axiom: Classical_Prop.classic) *)
Theorem C18_polar_satisfiable : polar atan2_ref.
Proof. exact polar_satisfiable. Qed.
Print Assumptions C18_polar_satisfiable.

(* the evaluation used by the harness (Math/C18Model.v, over Q): a concrete
   observation of the real classes is accepted and satisfies the textbook
   reading; a wrong cross product, a wrong inverse and an over-long limit are
   rejected by [holds_b] *)
Example C18_evaluation_nonvacuous :
  C18_verdict {| c_meth := "Vec3.cross";
                 c_in := [q 1 1; q 2 1; q 3 1; q 4 1; q 5 1; q 6 1];
                 c_out := [q (-3) 1; q 6 1; q (-3) 1]; c_warn := false |} = 13%nat /\
  C18_verdict {| c_meth := "Mat4.__invert__";
                 c_in := [q 2 1; q 0 1; q 0 1; q 0 1; q 0 1; q 1 1; q 0 1; q 0 1;
                          q 0 1; q 0 1; q 1 1; q 0 1; q 1 1; q 2 1; q 3 1; q 1 1];
                 c_out := [q 1 2; q 0 1; q 0 1; q 0 1; q 0 1; q 1 1; q 0 1; q 0 1;
                           q 0 1; q 0 1; q 1 1; q 0 1; q (-1) 2; q (-2) 1; q (-3) 1; q 1 1];
                 c_warn := false |} = 13%nat.
Proof. vm_compute. auto. Qed.
Example C18_wrong_results_rejected :
  holds_b {| c_meth := "Vec3.cross";
             c_in := [q 1 1; q 2 1; q 3 1; q 4 1; q 5 1; q 6 1];
             c_out := [q (-3) 1; q (-6) 1; q (-3) 1]; c_warn := false |} = false /\
  holds_b {| c_meth := "Mat4.__invert__";
             c_in := [q 2 1; q 0 1; q 0 1; q 0 1; q 0 1; q 1 1; q 0 1; q 0 1;
                      q 0 1; q 0 1; q 1 1; q 0 1; q 1 1; q 2 1; q 3 1; q 1 1];
             c_out := [q 1 2; q 0 1; q 0 1; q 0 1; q 0 1; q 1 1; q 0 1; q 0 1;
                       q 0 1; q 0 1; q 1 1; q 0 1; q 1 2; q (-2) 1; q (-3) 1; q 1 1];
             c_warn := false |} = false /\
  (* Vec3(2, 2, 2).limit(3) returned unchanged: length 3.46 > 3 (defect D16) *)
  holds_b {| c_meth := "Vec3.limit"; c_in := [q 2 1; q 2 1; q 2 1; q 3 1];
             c_out := [q 2 1; q 2 1; q 2 1]; c_warn := false |} = false.
Proof. vm_compute. auto. Qed.

(* non-vacuity / examples *)
Example C18_swizzle_example :
  swizzle (list_of_string "xyz") (list_of_string "zxy") [10; 20; 30]%nat = Some [30; 10; 20]%nat
  /\ swizzle (list_of_string "xy") (list_of_string "xz") [10; 20]%nat = None
  /\ swizzle (list_of_string "xyzw") (list_of_string "xyzwx") [1; 2; 3; 4]%nat = None.
Proof. vm_compute. auto. Qed.
