(* C18 - Vector and matrix operations compute their textbook definitions.
   Statement file: theorems only, each closed by [exact].

   Every name of the form Vec2_add, Mat4_matmul_m, ... is a definition of
   Math/MathGen.v, which harness/pymath2coq.py regenerates from
   /repo/desper/math.py on every run of the check; the theorems below are
   re-checked against that text.  They are stated over R, for ALL reals.
     vN a      reads the tuple a as the vector  i |-> a_i           (Math/Spec.v)
     mN A      reads the tuple A as the grid    (i, j) |-> A_(N*i+j), i.e. the
               grid the values are written in, row after row
     dot, norm, dist, cross, mmul, vecmat, det, ...  are the textbook
               definitions of Math/Spec.v (indexed sums).
   Conventions of the code, as proved below: (A @ B)(i,j) = sum_k A(i,k) B(k,j);
   A @ v treats v as a ROW vector, (A @ v)(j) = sum_k v(k) A(k,j); points are
   rows (x, y, z, 1) and translations sit in the last row.
   binary64 rounding is not modelled (the float behaviour is only tested). *)
From Coq Require Import Reals List String Ascii Bool.
From Desper Require Import Math.Sig Math.Spec Math.RInst Math.MathGen Math.C18Model
  Math.ProofsVec Math.ProofsMat Math.ProofsInv Math.ProofsNorm Math.ProofsTrig
  Math.ProofsXform Math.Swizzle.
Import ListNotations.
Local Open Scope R_scope.

Section C18.
(* math.atan2: arbitrary, except where [polar] is assumed explicitly *)
Variable at2 : R -> R -> R.
Let RO : ops R := Rops at2.
Local Existing Instance RO.

(* ---- 1. arithmetic acts entry by entry -------------------------------- *)
Theorem C18_vec2_arith : forall (a b : V2 R) i, (i < 2)%nat ->
  v2 (Vec2_add a b) i = v2 a i + v2 b i /\ v2 (Vec2_sub a b) i = v2 a i - v2 b i /\
  v2 (Vec2_mul a b) i = v2 a i * v2 b i /\ v2 (Vec2_truediv a b) i = v2 a i / v2 b i /\
  v2 (Vec2_neg a) i = - v2 a i.
Proof.
  intros a b i Hi.
  exact (conj (Vec2_add_ok at2 a b i Hi) (conj (Vec2_sub_ok at2 a b i Hi)
        (conj (Vec2_mul_ok at2 a b i Hi) (conj (Vec2_truediv_ok at2 a b i Hi)
        (Vec2_neg_ok at2 a i Hi))))).
Qed.
Theorem C18_vec3_arith : forall (a b : V3 R) i, (i < 3)%nat ->
  v3 (Vec3_add a b) i = v3 a i + v3 b i /\ v3 (Vec3_sub a b) i = v3 a i - v3 b i /\
  v3 (Vec3_mul a b) i = v3 a i * v3 b i /\ v3 (Vec3_truediv a b) i = v3 a i / v3 b i /\
  v3 (Vec3_neg a) i = - v3 a i.
Proof.
  intros a b i Hi.
  exact (conj (Vec3_add_ok at2 a b i Hi) (conj (Vec3_sub_ok at2 a b i Hi)
        (conj (Vec3_mul_ok at2 a b i Hi) (conj (Vec3_truediv_ok at2 a b i Hi)
        (Vec3_neg_ok at2 a i Hi))))).
Qed.
Theorem C18_vec4_arith : forall (a b : V4 R) i, (i < 4)%nat ->
  v4 (Vec4_add a b) i = v4 a i + v4 b i /\ v4 (Vec4_sub a b) i = v4 a i - v4 b i /\
  v4 (Vec4_mul a b) i = v4 a i * v4 b i /\ v4 (Vec4_truediv a b) i = v4 a i / v4 b i /\
  v4 (Vec4_neg a) i = - v4 a i.
Proof.
  intros a b i Hi.
  exact (conj (Vec4_add_ok at2 a b i Hi) (conj (Vec4_sub_ok at2 a b i Hi)
        (conj (Vec4_mul_ok at2 a b i Hi) (conj (Vec4_truediv_ok at2 a b i Hi)
        (Vec4_neg_ok at2 a i Hi))))).
Qed.
Theorem C18_mat3_arith : forall (A B : V9 R) i j, (i < 3)%nat -> (j < 3)%nat ->
  m3 (Mat3_add A B) i j = m3 A i j + m3 B i j /\ m3 (Mat3_sub A B) i j = m3 A i j - m3 B i j /\
  m3 (Mat3_neg A) i j = - m3 A i j /\ Mat3_pos A = A.
Proof.
  intros A B i j Hi Hj.
  exact (conj (Mat3_add_ok at2 A B i j Hi Hj) (conj (Mat3_sub_ok at2 A B i j Hi Hj)
        (conj (Mat3_neg_ok at2 A i j Hi Hj) (Mat3_pos_ok at2 A)))).
Qed.
Theorem C18_mat4_arith : forall (A B : V16 R) i j, (i < 4)%nat -> (j < 4)%nat ->
  m4 (Mat4_add A B) i j = m4 A i j + m4 B i j /\ m4 (Mat4_sub A B) i j = m4 A i j - m4 B i j /\
  m4 (Mat4_neg A) i j = - m4 A i j /\ Mat4_pos A = A.
Proof.
  intros A B i j Hi Hj.
  exact (conj (Mat4_add_ok at2 A B i j Hi Hj) (conj (Mat4_sub_ok at2 A B i j Hi Hj)
        (conj (Mat4_neg_ok at2 A i j Hi Hj) (Mat4_pos_ok at2 A)))).
Qed.
(* components, the default (zero) vectors, sum() support *)
Theorem C18_components : forall (a : V2 R) (b : V3 R) (c : V4 R),
  Vec2_x a = v2 a 0%nat /\ Vec2_y a = v2 a 1%nat /\
  Vec3_x b = v3 b 0%nat /\ Vec3_y b = v3 b 1%nat /\ Vec3_z b = v3 b 2%nat /\
  Vec4_x c = v4 c 0%nat /\ Vec4_y c = v4 c 1%nat /\ Vec4_z c = v4 c 2%nat /\
  Vec4_w c = v4 c 3%nat.
Proof.
  intros a b c.
  exact (conj (Vec2_x_ok at2 a) (conj (Vec2_y_ok at2 a) (conj (Vec3_x_ok at2 b)
        (conj (Vec3_y_ok at2 b) (conj (Vec3_z_ok at2 b) (conj (Vec4_x_ok at2 c)
        (conj (Vec4_y_ok at2 c) (conj (Vec4_z_ok at2 c) (Vec4_w_ok at2 c))))))))).
Qed.
Theorem C18_default_vectors :
  Vec2_new = (0, 0) /\ Vec3_new = (0, 0, 0) /\ Vec4_new = (0, 0, 0, 0).
Proof. exact (conj eq_refl (conj eq_refl eq_refl)). Qed.
Theorem C18_radd : forall (a a' : V2 R) (b b' : V3 R) (c c' : V4 R),
  Vec2_radd_0 a = a /\ Vec3_radd_0 b = b /\ Vec4_radd_0 c = c /\
  Vec2_radd_v a a' = Vec2_add a a' /\ Vec3_radd_v b b' = Vec3_add b b' /\
  Vec4_radd_v c c' = Vec4_add c c'.
Proof.
  intros a a' b b' c c'.
  exact (conj (Vec2_radd_0_ok at2 a) (conj (Vec3_radd_0_ok at2 b) (conj (Vec4_radd_0_ok at2 c)
        (conj (Vec2_radd_is_add at2 a a') (conj (Vec3_radd_is_add at2 b b')
        (Vec4_radd_is_add at2 c c')))))).
Qed.
Print Assumptions C18_vec4_arith.
Print Assumptions C18_mat4_arith.

(* ---- 2. dot, cross, lerp, scale, distance, abs, clamp ------------------ *)
Theorem C18_dot : forall (a a' : V2 R) (b b' : V3 R) (c c' : V4 R),
  Vec2_dot a a' = dot 2 (v2 a) (v2 a') /\ Vec3_dot b b' = dot 3 (v3 b) (v3 b') /\
  Vec4_dot c c' = dot 4 (v4 c) (v4 c').
Proof.
  intros a a' b b' c c'.
  exact (conj (Vec2_dot_ok at2 a a') (conj (Vec3_dot_ok at2 b b') (Vec4_dot_ok at2 c c'))).
Qed.
(* the indexed sum written out *)
Theorem C18_dot3_written_out : forall u v : vec,
  dot 3 u v = u 0%nat * v 0%nat + u 1%nat * v 1%nat + u 2%nat * v 2%nat.
Proof. exact (dot3_unfolded at2). Qed.
Theorem C18_cross : forall (a b : V3 R) i, (i < 3)%nat ->
  v3 (Vec3_cross a b) i = cross (v3 a) (v3 b) i.
Proof. exact (Vec3_cross_ok at2). Qed.
Theorem C18_cross_written_out : forall u v : vec,
  cross u v 0%nat = u 1%nat * v 2%nat - u 2%nat * v 1%nat /\
  cross u v 1%nat = u 2%nat * v 0%nat - u 0%nat * v 2%nat /\
  cross u v 2%nat = u 0%nat * v 1%nat - u 1%nat * v 0%nat.
Proof. exact (cross_unfolded at2). Qed.
(* lerp a b t = (1 - t) a + t b *)
Theorem C18_lerp : forall (a a' : V2 R) (b b' : V3 R) (c c' : V4 R) (t : R),
  (forall i, (i < 2)%nat -> v2 (Vec2_lerp a a' t) i = (1 - t) * v2 a i + t * v2 a' i) /\
  (forall i, (i < 3)%nat -> v3 (Vec3_lerp b b' t) i = (1 - t) * v3 b i + t * v3 b' i) /\
  (forall i, (i < 4)%nat -> v4 (Vec4_lerp c c' t) i = (1 - t) * v4 c i + t * v4 c' i).
Proof.
  intros a a' b b' c c' t.
  exact (conj (Vec2_lerp_ok at2 a a' t) (conj (Vec3_lerp_ok at2 b b' t) (Vec4_lerp_ok at2 c c' t))).
Qed.
Theorem C18_scale : forall (a : V2 R) (b : V3 R) (c : V4 R) (s : R),
  (forall i, (i < 2)%nat -> v2 (Vec2_scale a s) i = s * v2 a i) /\
  (forall i, (i < 3)%nat -> v3 (Vec3_scale b s) i = s * v3 b i) /\
  (forall i, (i < 4)%nat -> v4 (Vec4_scale c s) i = s * v4 c i).
Proof.
  intros a b c s.
  exact (conj (Vec2_scale_ok at2 a s) (conj (Vec3_scale_ok at2 b s) (Vec4_scale_ok at2 c s))).
Qed.
(* |v| = sqrt (v . v), distance a b = |a - b| *)
Theorem C18_abs : forall (a : V2 R) (b : V3 R) (c : V4 R),
  Vec2_abs a = sqrt (dot 2 (v2 a) (v2 a)) /\ Vec3_abs b = sqrt (dot 3 (v3 b) (v3 b)) /\
  Vec4_abs c = sqrt (dot 4 (v4 c) (v4 c)) /\ Vec2_mag a = Vec2_abs a /\ Vec3_mag b = Vec3_abs b.
Proof.
  intros a b c.
  exact (conj (Vec2_abs_ok at2 a) (conj (Vec3_abs_ok at2 b) (conj (Vec4_abs_ok at2 c)
        (conj (Vec2_mag_is_abs at2 a) (Vec3_mag_is_abs at2 b))))).
Qed.
Theorem C18_distance : forall (a a' : V2 R) (b b' : V3 R) (c c' : V4 R),
  Vec2_distance a a' = norm 2 (vsub (v2 a) (v2 a')) /\
  Vec3_distance b b' = norm 3 (vsub (v3 b) (v3 b')) /\
  Vec4_distance c c' = norm 4 (vsub (v4 c) (v4 c')).
Proof.
  intros a a' b b' c c'.
  exact (conj (Vec2_distance_ok at2 a a') (conj (Vec3_distance_ok at2 b b')
        (Vec4_distance_ok at2 c c'))).
Qed.
Theorem C18_clamp : forall x lo hi : R, clamp x lo hi = Rmax (Rmin x hi) lo.
Proof. exact (clamp_ok at2). Qed.
Theorem C18_vec_clamp : forall (a : V2 R) (b : V3 R) (c : V4 R) (lo hi : R),
  (forall i, (i < 2)%nat -> v2 (Vec2_clamp a lo hi) i = Rmax (Rmin (v2 a i) hi) lo) /\
  (forall i, (i < 3)%nat -> v3 (Vec3_clamp b lo hi) i = Rmax (Rmin (v3 b i) hi) lo) /\
  (forall i, (i < 4)%nat -> v4 (Vec4_clamp c lo hi) i = Rmax (Rmin (v4 c i) hi) lo).
Proof.
  intros a b c lo hi.
  exact (conj (Vec2_clamp_ok at2 a lo hi) (conj (Vec3_clamp_ok at2 b lo hi)
        (Vec4_clamp_ok at2 c lo hi))).
Qed.
Print Assumptions C18_cross.
Print Assumptions C18_vec_clamp.

(* ---- 3. matrix products ------------------------------------------------ *)
(* A @ B is the row-by-column product of the grids the values are written in *)
Theorem C18_matmul : forall (A B : V16 R) (A' B' : V9 R),
  (forall i j, (i < 4)%nat -> (j < 4)%nat ->
     m4 (Mat4_matmul_m A B) i j = sum_n 4 (fun k => m4 A i k * m4 B k j)) /\
  (forall i j, (i < 3)%nat -> (j < 3)%nat ->
     m3 (Mat3_matmul_m A' B') i j = sum_n 3 (fun k => m3 A' i k * m3 B' k j)).
Proof.
  intros A B A' B'. exact (conj (Mat4_matmul_m_ok at2 A B) (Mat3_matmul_m_ok at2 A' B')).
Qed.
Theorem C18_sum_written_out : forall (A B : mat) i j,
  mmul 4 A B i j = A i 0%nat * B 0%nat j + A i 1%nat * B 1%nat j
                   + A i 2%nat * B 2%nat j + A i 3%nat * B 3%nat j.
Proof. exact (mmul4_unfolded at2). Qed.
(* A @ v: v is a row vector *)
Theorem C18_matvec : forall (A : V16 R) (x : V4 R) (A' : V9 R) (x' : V3 R),
  (forall j, (j < 4)%nat -> v4 (Mat4_matmul_v A x) j = sum_n 4 (fun k => v4 x k * m4 A k j)) /\
  (forall j, (j < 3)%nat -> v3 (Mat3_matmul_v A' x') j = sum_n 3 (fun k => v3 x' k * m3 A' k j)).
Proof.
  intros A x A' x'. exact (conj (Mat4_matmul_v_ok at2 A x) (Mat3_matmul_v_ok at2 A' x')).
Qed.
Theorem C18_matmul_assoc : forall (A B C : V16 R) (A' B' C' : V9 R),
  Mat4_matmul_m (Mat4_matmul_m A B) C = Mat4_matmul_m A (Mat4_matmul_m B C) /\
  Mat3_matmul_m (Mat3_matmul_m A' B') C' = Mat3_matmul_m A' (Mat3_matmul_m B' C').
Proof.
  intros A B C A' B' C'.
  exact (conj (Mat4_matmul_assoc at2 A B C) (Mat3_matmul_assoc at2 A' B' C')).
Qed.
(* the default matrix is the identity grid and a two-sided unit *)
Theorem C18_identity : forall (A : V16 R) (x : V4 R) (A' : V9 R) (x' : V3 R),
  (forall i j, (i < 4)%nat -> (j < 4)%nat -> m4 Mat4_new i j = if Nat.eqb i j then 1 else 0) /\
  (forall i j, (i < 3)%nat -> (j < 3)%nat -> m3 Mat3_new i j = if Nat.eqb i j then 1 else 0) /\
  Mat4_matmul_m Mat4_new A = A /\ Mat4_matmul_m A Mat4_new = A /\ Mat4_matmul_v Mat4_new x = x /\
  Mat3_matmul_m Mat3_new A' = A' /\ Mat3_matmul_m A' Mat3_new = A' /\
  Mat3_matmul_v Mat3_new x' = x'.
Proof.
  intros A x A' x'.
  exact (conj (Mat4_new_ok at2) (conj (Mat3_new_ok at2)
        (conj (Mat4_matmul_id_l at2 A) (conj (Mat4_matmul_id_r at2 A)
        (conj (Mat4_matmul_id_v at2 x) (conj (Mat3_matmul_id_l at2 A')
        (conj (Mat3_matmul_id_r at2 A') (Mat3_matmul_id_v at2 x')))))))).
Qed.
Theorem C18_matmul_vec_compose : forall (A B : V16 R) (x : V4 R) (A' B' : V9 R) (x' : V3 R),
  Mat4_matmul_v (Mat4_matmul_m A B) x = Mat4_matmul_v B (Mat4_matmul_v A x) /\
  Mat3_matmul_v (Mat3_matmul_m A' B') x' = Mat3_matmul_v B' (Mat3_matmul_v A' x').
Proof.
  intros A B x A' B' x'.
  exact (conj (Mat4_matmul_vec_compose at2 A B x) (Mat3_matmul_vec_compose at2 A' B' x')).
Qed.
Theorem C18_transpose : forall A : V16 R,
  (forall i j, (i < 4)%nat -> (j < 4)%nat -> m4 (Mat4_transpose A) i j = m4 A j i) /\
  Mat4_transpose (Mat4_transpose A) = A.
Proof. intros A. exact (conj (Mat4_transpose_ok at2 A) (Mat4_transpose_involutive at2 A)). Qed.
Print Assumptions C18_matmul.
Print Assumptions C18_matmul_assoc.
Print Assumptions C18_transpose.

(* ---- 4. the inverse ----------------------------------------------------- *)
(* det is the Laplace expansion of Math/Spec.v *)
Theorem C18_inverse : forall A : V16 R, det 4 (m4 A) <> 0 ->
  Mat4_matmul_m A (Mat4_invert A) = Mat4_new /\ Mat4_matmul_m (Mat4_invert A) A = Mat4_new.
Proof. intros A H. exact (conj (Mat4_invert_right at2 A H) (Mat4_invert_left at2 A H)). Qed.
Theorem C18_inverse_singular : forall A : V16 R, det 4 (m4 A) = 0 ->
  Mat4_invert A = A /\ Mat4_invert_w A = true.
Proof.
  intros A H. exact (conj (Mat4_invert_singular at2 A H) (proj2 (Mat4_invert_warns at2 A) H)).
Qed.
Theorem C18_inverse_warns_only_then : forall A : V16 R,
  Mat4_invert_w A = true -> det 4 (m4 A) = 0.
Proof. intros A. exact (proj1 (Mat4_invert_warns at2 A)). Qed.
Theorem C18_det2_written_out : forall A : mat,
  det 2 A = A 0%nat 0%nat * A 1%nat 1%nat - A 0%nat 1%nat * A 1%nat 0%nat.
Proof. exact (det2_unfolded at2). Qed.
Print Assumptions C18_inverse.
Print Assumptions C18_inverse_singular.

(* ---- 5. normalize, from_magnitude, limit -------------------------------- *)
Theorem C18_normalize_unit : forall (a : V2 R) (b : V3 R) (c : V4 R),
  (a <> (0, 0) -> norm 2 (v2 (Vec2_normalize a)) = 1) /\
  (b <> (0, 0, 0) -> norm 3 (v3 (Vec3_normalize b)) = 1) /\
  (c <> (0, 0, 0, 0) -> norm 4 (v4 (Vec4_normalize c)) = 1).
Proof.
  intros a b c. exact (conj (Vec2_normalize_unit at2 a) (conj (Vec3_normalize_unit at2 b)
                      (Vec4_normalize_unit at2 c))).
Qed.
Theorem C18_normalize_zero :
  Vec2_normalize (0, 0) = (0, 0) /\ Vec3_normalize (0, 0, 0) = (0, 0, 0) /\
  Vec4_normalize (0, 0, 0, 0) = (0, 0, 0, 0).
Proof.
  exact (conj (Vec2_normalize_zero at2) (conj (Vec3_normalize_zero at2) (Vec4_normalize_zero at2))).
Qed.
(* same direction: a positive multiple of v *)
Theorem C18_normalize_direction : forall (a : V2 R) (b : V3 R) (c : V4 R),
  (a <> (0, 0) -> exists k, 0 < k /\ forall i, (i < 2)%nat -> v2 (Vec2_normalize a) i = k * v2 a i) /\
  (b <> (0, 0, 0) -> exists k, 0 < k /\ forall i, (i < 3)%nat -> v3 (Vec3_normalize b) i = k * v3 b i) /\
  (c <> (0, 0, 0, 0) -> exists k, 0 < k /\ forall i, (i < 4)%nat -> v4 (Vec4_normalize c) i = k * v4 c i).
Proof.
  intros a b c. exact (conj (Vec2_normalize_positive_multiple at2 a)
                      (conj (Vec3_normalize_positive_multiple at2 b)
                            (Vec4_normalize_positive_multiple at2 c))).
Qed.
(* from_magnitude changes only the magnitude *)
Theorem C18_from_magnitude : forall (a : V2 R) (b : V3 R) (m : R),
  (a <> (0, 0) -> norm 2 (v2 (Vec2_from_magnitude a m)) = Rabs m /\
     forall i, (i < 2)%nat -> v2 (Vec2_from_magnitude a m) i = m / norm 2 (v2 a) * v2 a i) /\
  (b <> (0, 0, 0) -> norm 3 (v3 (Vec3_from_magnitude b m)) = Rabs m /\
     forall i, (i < 3)%nat -> v3 (Vec3_from_magnitude b m) i = m / norm 3 (v3 b) * v3 b i).
Proof.
  intros a b m.
  exact (conj (fun H => conj (Vec2_from_magnitude_norm at2 a m H)
                             (fun i Hi => Vec2_from_magnitude_dir at2 a m i H Hi))
              (fun H => conj (Vec3_from_magnitude_norm at2 b m H)
                             (fun i Hi => Vec3_from_magnitude_dir at2 b m i H Hi))).
Qed.
(* limit(m), m >= 0, never returns a vector longer than m and leaves short
   enough vectors unchanged *)
Theorem C18_limit : forall (a : V2 R) (b : V3 R) (m : R), 0 <= m ->
  norm 2 (v2 (Vec2_limit a m)) <= m /\ (norm 2 (v2 a) <= m -> Vec2_limit a m = a) /\
  norm 3 (v3 (Vec3_limit b m)) <= m /\ (norm 3 (v3 b) <= m -> Vec3_limit b m = b).
Proof.
  intros a b m Hm.
  exact (conj (Vec2_limit_le at2 a m Hm) (conj (Vec2_limit_short at2 a m Hm)
        (conj (Vec3_limit_le at2 b m Hm) (Vec3_limit_short at2 b m Hm)))).
Qed.
Print Assumptions C18_normalize_unit.
Print Assumptions C18_from_magnitude.
Print Assumptions C18_limit.

(* ---- 6. angles ----------------------------------------------------------- *)
(* from_polar m h = m (cos h, sin h); from_heading keeps |v| and sets the
   heading; rotate keeps |v| *)
Theorem C18_from_polar : forall m h : R,
  Vec2_from_polar m h = (m * cos h, m * sin h) /\ norm 2 (v2 (Vec2_from_polar m h)) = Rabs m.
Proof. intros m h. exact (conj (Vec2_from_polar_pair at2 m h) (Vec2_from_polar_norm at2 m h)). Qed.
Theorem C18_from_heading : forall (a : V2 R) (h : R),
  Vec2_from_heading a h = (norm 2 (v2 a) * cos h, norm 2 (v2 a) * sin h) /\
  norm 2 (v2 (Vec2_from_heading a h)) = norm 2 (v2 a).
Proof.
  intros a h. exact (conj (Vec2_from_heading_pair at2 a h) (Vec2_from_heading_norm at2 a h)).
Qed.
Theorem C18_heading : forall a : V2 R, Vec2_heading a = at2 (v2 a 1%nat) (v2 a 0%nat).
Proof. exact (Vec2_heading_ok at2). Qed.
Theorem C18_rotate_norm : forall (a : V2 R) (phi : R),
  norm 2 (v2 (Vec2_rotate a phi)) = norm 2 (v2 a).
Proof. exact (Vec2_rotate_norm at2). Qed.
(* hypothesis of THIS theorem (not an axiom): atan2 y x is a polar angle of
   (x, y):  x = |(x,y)| cos (atan2 y x),  y = |(x,y)| sin (atan2 y x) *)
Theorem C18_rotate : polar at2 -> forall (a : V2 R) (phi : R),
  Vec2_rotate a phi = (cos phi * v2 a 0%nat - sin phi * v2 a 1%nat,
                       sin phi * v2 a 0%nat + cos phi * v2 a 1%nat).
Proof. exact (Vec2_rotate_ok at2). Qed.
Print Assumptions C18_from_heading.
Print Assumptions C18_rotate.

(* ---- 7. the stated transforms -------------------------------------------- *)
Theorem C18_from_translation : forall (t : V3 R) (x y z : R),
  (forall i j, (i < 4)%nat -> (j < 4)%nat ->
     m4 (Mat4_from_translation t) i j
     = if Nat.eqb i j then 1 else if Nat.eqb i 3 then v3 t j else 0) /\
  Mat4_matmul_v (Mat4_from_translation t) (x, y, z, 1)
  = (x + v3 t 0%nat, y + v3 t 1%nat, z + v3 t 2%nat, 1).
Proof.
  intros t x y z.
  exact (conj (Mat4_from_translation_ok at2 t) (Mat4_from_translation_acts at2 t x y z)).
Qed.
Theorem C18_from_scale : forall (s : V3 R) (x y z : R),
  (forall i j, (i < 4)%nat -> (j < 4)%nat ->
     m4 (Mat4_from_scale s) i j
     = if Nat.eqb i j then (if Nat.ltb i 3 then v3 s i else 1) else 0) /\
  Mat4_matmul_v (Mat4_from_scale s) (x, y, z, 1)
  = (v3 s 0%nat * x, v3 s 1%nat * y, v3 s 2%nat * z, 1).
Proof.
  intros s x y z. exact (conj (Mat4_from_scale_ok at2 s) (Mat4_from_scale_acts at2 s x y z)).
Qed.
Theorem C18_translate : forall (M : V16 R) (t : V3 R),
  Mat4_translate M t = Mat4_matmul_m M (Mat4_from_translation t).
Proof. exact (Mat4_translate_is_product at2). Qed.
(* every corner (x in {l, r}, y in {b, t}, z in {-n, -f}) of the box goes to
   the corresponding corner (+-1, +-1, +-1, 1) *)
Theorem C18_orthogonal_projection : forall l r b t n f : R, l <> r -> b <> t -> n <> f ->
  forall (sx sy sz : bool) j, (j < 4)%nat ->
    vecmat 4 (corner sx sy sz l r b t n f) (m4 (Mat4_orthogonal_projection l r b t n f)) j
    = corner_image sx sy sz j.
Proof. exact (Mat4_orthogonal_projection_corners at2). Qed.
Theorem C18_orthogonal_projection_affine :
  forall l r b t n f x y z : R, l <> r -> b <> t -> n <> f ->
    Mat4_matmul_v (Mat4_orthogonal_projection l r b t n f) (x, y, z, 1)
    = (2 * (x - l) / (r - l) - 1, 2 * (y - b) / (t - b) - 1, 2 * (- z - n) / (f - n) - 1, 1).
Proof. exact (Mat4_orthogonal_projection_acts at2). Qed.
Print Assumptions C18_translate.
Print Assumptions C18_orthogonal_projection.

End C18.

(* ---- 8. swizzling (hand-written model Math/Swizzle.v, tied to the classes
   by the exhaustive comparison of every run) --------------------------------- *)
Theorem C18_swizzle : forall (A : Type) (letters s : list ascii) (v out : list A),
  swizzle letters s v = Some out ->
  List.length out = List.length s /\ (2 <= List.length s <= 4)%nat /\
  forall i c, nth_error s i = Some c ->
    exists k, nth_error letters k = Some c /\ nth_error out i = nth_error v k
              /\ nth_error out i <> None.
Proof. exact swizzle_spec. Qed.
Theorem C18_swizzle_error : forall (A : Type) (letters s : list ascii) (v : list A),
  (List.length letters <= List.length v)%nat ->
  (swizzle letters s v = None <->
   (~ (2 <= List.length s <= 4)%nat \/ exists c, In c s /\ ~ In c letters)).
Proof. exact swizzle_error. Qed.
Print Assumptions C18_swizzle.
Print Assumptions C18_swizzle_error.

(* the hypothesis of C18_rotate is not vacuous: the usual atan2, defined from
   atan by cases on the signs, satisfies it (uses the stdlib lemmas about
   atan, hence one more stdlib axiom: Classical_Prop.classic) *)
Theorem C18_polar_satisfiable : polar atan2_ref.
Proof. exact polar_satisfiable. Qed.
Print Assumptions C18_polar_satisfiable.

(* the evaluation used by the harness (Math/C18Model.v, over Q): a concrete
   observation of the real classes is accepted and satisfies the textbook
   reading; a wrong cross product, a wrong inverse and an over-long limit are
   rejected by [holds_b] *)
Example C18_evaluation_nonvacuous :
  C18_verdict {| c_meth := "Vec3.cross";
                 c_in := [q 1 1; q 2 1; q 3 1; q 4 1; q 5 1; q 6 1];
                 c_out := [q (-3) 1; q 6 1; q (-3) 1]; c_warn := false |} = 13%nat /\
  C18_verdict {| c_meth := "Mat4.__invert__";
                 c_in := [q 2 1; q 0 1; q 0 1; q 0 1; q 0 1; q 1 1; q 0 1; q 0 1;
                          q 0 1; q 0 1; q 1 1; q 0 1; q 1 1; q 2 1; q 3 1; q 1 1];
                 c_out := [q 1 2; q 0 1; q 0 1; q 0 1; q 0 1; q 1 1; q 0 1; q 0 1;
                           q 0 1; q 0 1; q 1 1; q 0 1; q (-1) 2; q (-2) 1; q (-3) 1; q 1 1];
                 c_warn := false |} = 13%nat.
Proof. vm_compute. auto. Qed.
Example C18_wrong_results_rejected :
  holds_b {| c_meth := "Vec3.cross";
             c_in := [q 1 1; q 2 1; q 3 1; q 4 1; q 5 1; q 6 1];
             c_out := [q (-3) 1; q (-6) 1; q (-3) 1]; c_warn := false |} = false /\
  holds_b {| c_meth := "Mat4.__invert__";
             c_in := [q 2 1; q 0 1; q 0 1; q 0 1; q 0 1; q 1 1; q 0 1; q 0 1;
                      q 0 1; q 0 1; q 1 1; q 0 1; q 1 1; q 2 1; q 3 1; q 1 1];
             c_out := [q 1 2; q 0 1; q 0 1; q 0 1; q 0 1; q 1 1; q 0 1; q 0 1;
                       q 0 1; q 0 1; q 1 1; q 0 1; q 1 2; q (-2) 1; q (-3) 1; q 1 1];
             c_warn := false |} = false /\
  (* Vec3(2, 2, 2).limit(3) returned unchanged: length 3.46 > 3 (defect D16) *)
  holds_b {| c_meth := "Vec3.limit"; c_in := [q 2 1; q 2 1; q 2 1; q 3 1];
             c_out := [q 2 1; q 2 1; q 2 1]; c_warn := false |} = false.
Proof. vm_compute. auto. Qed.

(* non-vacuity / examples *)
Example C18_swizzle_example :
  swizzle (list_of_string "xyz") (list_of_string "zxy") [10; 20; 30]%nat = Some [30; 10; 20]%nat
  /\ swizzle (list_of_string "xy") (list_of_string "xz") [10; 20]%nat = None
  /\ swizzle (list_of_string "xyzw") (list_of_string "xyzwx") [1; 2; 3; 4]%nat = None.
Proof. vm_compute. auto. Qed.
