(* C10 - Handlers are held weakly and never called after they are gone.
   Statement file: theorems only, each closed by [exact].

   PARTIAL in one respect, named here and in the evidence: that CPython frees
   an object (and runs its weak reference callbacks) at the moment its last
   strong reference goes is an assumption about the interpreter; the model
   turns it into "Drop h makes h die at once" (the harness checks it after
   every drop through a weak reference).  Reference cycles and other
   interpreters are outside the model.  A Drop of a handler that is a
   receiver on the call stack is a no-op (the interpreter keeps it alive). *)
From Coq Require Import ZArith List Bool.
From Desper Require Import Lib.Alist Events.Model Events.Spec Events.CaseProofs Events.Reading.
Import ListNotations.
Open Scope Z_scope.

Definition holds10 (c : C10_case) : Prop := holds10_case_b c = true.

(* Every log the model accepts (programs of add/remove/dispatch/enable/
   disable/clear/raise and Drop, run at top level and from inside callbacks,
   i.e. also between two callbacks of one dispatch; any iteration order of the
   listener snapshot) is accepted by the specification machine [sstep]:
   a freed handler leaves the registered set at once and is owed nothing by
   the dispatches and releases in progress; every call must be owed, so no
   call ever has a freed (or None) receiver; dispatches after the drop owe
   exactly the listeners of the remaining registered handlers.
   World components (ACreate / ARemoveC / AReplace): an on_add postponed while
   dispatching is disabled is a pending entry addressed to its component and
   holds it - the component stays alive (is not freed by a Drop or by leaving
   its World row) until that entry is delivered, and the delivery goes to it
   even when it is no longer registered. *)
Theorem C10_no_dead_receiver :
  forall c : C10_case, wf10_b c = true -> known10_b c = false -> accepts c = true -> holds10 c.
Proof. exact C10_accepts_holds. Qed.
Print Assumptions C10_no_dead_receiver.

(* Reading on the raw log: replaying only the Drop / call / return entries,
   no call has a receiver that was freed before. *)
Theorem C10_calls_have_live_receivers :
  forall p log, holdsq_b p log = true -> no_dead_call [] [] [] log = true.
Proof. exact holdsq_no_dead_call. Qed.
Print Assumptions C10_calls_have_live_receivers.

(* Reading: once freed, a handler is not registered (is_handler-wise) and a
   later dispatch owes it nothing. *)
Theorem C10_dropped_is_unregistered :
  forall p s h s', sstep p s (EAct (ADrop h)) = Some s' ->
    inb h (s_gone s) = false -> inb h (s_recv s) = false -> relay_holds h (s_pend s) = false ->
    inb h (s_reg s') = false /\ inb h (s_gone s') = true /\
    forall e, ~ exists m, In (h, m) (listeners p e (s_reg s')).
Proof. exact dropped_is_unregistered. Qed.
Print Assumptions C10_dropped_is_unregistered.

(* non-vacuity: the callback of handler 1 frees 2 and 3, which are later in
   the snapshot; the second dispatch reaches only the survivor *)
Definition ex_ok : C10_case :=
  {| c_classes := [({| cd_cls := 0; cd_bases := []; cd_names := [0]; cd_maps := [] |}, {| co_mro := [0]; co_tab := [(0, Some [(0, 0)])] |})];
     c_hcls := [(1, 0); (2, 0); (3, 0)]; c_eqs := [];
     c_scripts := [(1, [(0, [(ADrop 2); (ADrop 3); (ADrop 1)])]); (2, [(0, [(ADrop 1); (ADrop 3)])]);
                   (3, [(0, [(ADrop 1); (ADrop 2)])])];
     c_ops := [(AAdd 1); (AAdd 2); (AAdd 3); (ADispatch 0 0); (ADispatch 0 0); (ADrop 1); (ADrop 2); (ADrop 3);
               (ADispatch 0 0)];
     c_log := [(EAct (AAdd 1)); (EAct (AAdd 2)); (EAct (AAdd 3)); (EAct (ADispatch 0 0)); (ECall 1 0 0 0);
               (EAct (ADrop 2)); (EAct (ADrop 3)); (EAct (ADrop 1)); ERet; (EEnd 0); (EAct (ADispatch 0 0));
               (ECall 1 0 1 0); (EAct (ADrop 2)); (EAct (ADrop 3)); (EAct (ADrop 1)); ERet; (EEnd 1);
               (EAct (ADrop 1)); (EAct (ADrop 2)); (EAct (ADrop 3)); (EAct (ADispatch 0 0)); (EEnd 2)] |}.
Example C10_nonvacuous : wf10_b ex_ok = true /\ known10_b ex_ok = false /\ accepts ex_ok = true.
Proof. vm_compute. auto. Qed.

(* the log of the unrepaired dispatch (methods of the freed handlers called
   with self = None, logged as receiver -1) violates the property *)
Definition ex_none : C10_case :=
  {| c_classes := c_classes ex_ok; c_hcls := c_hcls ex_ok; c_eqs := []; c_scripts := c_scripts ex_ok;
     c_ops := c_ops ex_ok;
     c_log := [(EAct (AAdd 1)); (EAct (AAdd 2)); (EAct (AAdd 3)); (EAct (ADispatch 0 0)); (ECall 3 0 0 0);
               (EAct (ADrop 1)); (EAct (ADrop 2)); ERet; (ECall (-1) 0 0 0); ERet; (ECall (-1) 0 0 0); ERet;
               (EEnd 0); (EAct (ADispatch 0 0)); (ECall 3 0 1 0); (EAct (ADrop 1)); (EAct (ADrop 2)); ERet;
               (EEnd 1); (EAct (ADrop 1)); (EAct (ADrop 2)); (EAct (ADrop 3)); (EAct (ADispatch 0 0)); (EEnd 2)] |}.
Example C10_none_receiver_rejected :
  wf10_b ex_none = true /\ holds10_case_b ex_none = false /\ accepts ex_none = false.
Proof. vm_compute. auto. Qed.
