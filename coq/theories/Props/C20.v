(* C20 - Transform setters notify listeners with the value that was stored.
   Statement file: theorems only, each closed by [exact]. *)
From Coq Require Import ZArith List Bool.
From Desper Require Import Lib.Alist Events.C20Model Events.C20Proofs.
Import ListNotations.
Open Scope Z_scope.

(* Every trace the model of Transform2D / Transform3D accepts - any number of
   transforms and listeners, any sequence of constructions, registrations and
   assignments, any values (numbers in eighths; 2D rotations anywhere in Z) -
   satisfies the specification machine [spec_step]: after t.<p> = v a read of
   t.<p> returns v (the 2D rotation reduced modulo 360), every other property of
   every transform reads as before, and the callbacks observed during the
   assignment are, in some order, exactly one call of the matching on_<p>_change
   method per registered listener handling that event, each carrying the value
   the read returns (k_same: the listener itself, reading the property from
   inside the callback, already sees that value: the value was stored before
   it was announced); construction stores the arguments (or the defaults) the
   same way and notifies nobody; the vectors a constructor stores are new
   objects (not its argument objects, not shared with another transform: [o_id]
   after ONew); whether a setter keeps the assigned object or stores an equal
   new vector is left open. *)
Theorem C20_setter_notifies_stored :
  forall c : C20_case, wf_b c = true -> known_b c = false -> accepts c = true -> holds c.
Proof. intros c _ _. exact (accepts_holds c). Qed.
Print Assumptions C20_setter_notifies_stored.

(* Reading of the specification on the raw observation of one assignment. *)
Theorem C20_assignment_reading :
  forall ms sp t p v ob sp',
  spec_step ms sp (OSet t p v) ob = Some sp' ->
  exists d lis before after,
    alookup t (sp_tab sp) = Some (d, lis) /\ alookup t (sp_prev sp) = Some before /\
    alookup t (o_snap ob) = Some after /\
    get3 after p = norm d p v /\
    o_snap ob = aset t (set3 before p (get3 after p)) (sp_prev sp) /\ o_id ob = true /\
    length (o_calls ob) = length (filter (fun l => mask_of ms l p) lis) /\
    forall c, In c (o_calls ob) ->
      k_p c = p /\ k_v c = get3 after p /\ k_same c = true /\ In (k_l c) lis /\ mask_of ms (k_l c) p = true.
Proof. exact set_reading. Qed.
Print Assumptions C20_assignment_reading.

Theorem C20_rotation_2d_is_reduced :
  forall r, norm false PRot [r] = [r mod 2880] /\ 0 <= r mod 2880 < 2880.
Proof. exact norm_rot2d. Qed.
Print Assumptions C20_rotation_2d_is_reduced.

(* non-vacuity: a 2D transform constructed with rotation 370 and a 3D one with
   defaults; rotation 370 and -2.5 assigned (listeners told 10 and 357.5) *)
Definition ex_ok : C20_case :=
  {| c_masks := [(1, (true, true, false)); (2, (false, true, true))];
     c_trace := [
       (ONew 1 false None (Some [2960]) None, {| o_calls := []; o_snap := [(1, ([0; 0], [80], [8; 8]))]; o_id := true |});
       (ONew 2 true (Some [8; 16; 24]) None None,
        {| o_calls := []; o_snap := [(1, ([0; 0], [80], [8; 8])); (2, ([8; 16; 24], [0; 0; 0], [8; 8; 8]))]; o_id := true |});
       (OListen 1 1, {| o_calls := []; o_snap := [(1, ([0; 0], [80], [8; 8])); (2, ([8; 16; 24], [0; 0; 0], [8; 8; 8]))]; o_id := true |});
       (OListen 1 2, {| o_calls := []; o_snap := [(1, ([0; 0], [80], [8; 8])); (2, ([8; 16; 24], [0; 0; 0], [8; 8; 8]))]; o_id := true |});
       (OSet 1 PRot [2960],
        {| o_calls := [{| k_l := 1; k_p := PRot; k_v := [80]; k_same := true |};
                       {| k_l := 2; k_p := PRot; k_v := [80]; k_same := true |}];
           o_snap := [(1, ([0; 0], [80], [8; 8])); (2, ([8; 16; 24], [0; 0; 0], [8; 8; 8]))]; o_id := true |});
       (OSet 1 PRot [-20],
        {| o_calls := [{| k_l := 2; k_p := PRot; k_v := [2860]; k_same := true |};
                       {| k_l := 1; k_p := PRot; k_v := [2860]; k_same := true |}];
           o_snap := [(1, ([0; 0], [2860], [8; 8])); (2, ([8; 16; 24], [0; 0; 0], [8; 8; 8]))]; o_id := true |});
       (OSet 1 PPos [12; -4],
        {| o_calls := [{| k_l := 1; k_p := PPos; k_v := [12; -4]; k_same := true |}];
           o_snap := [(1, ([12; -4], [2860], [8; 8])); (2, ([8; 16; 24], [0; 0; 0], [8; 8; 8]))]; o_id := true |}) ] |}.
Example C20_nonvacuous : wf_b ex_ok = true /\ known_b ex_ok = false /\ accepts ex_ok = true.
Proof. vm_compute. auto. Qed.

(* the unrepaired setter (listener told 370 while the property reads 10) *)
Example C20_raw_rotation_rejected :
  holds_b {| c_masks := [(1, (true, true, false))];
             c_trace := [
       (ONew 1 false None None None, {| o_calls := []; o_snap := [(1, ([0; 0], [0], [8; 8]))]; o_id := true |});
       (OListen 1 1, {| o_calls := []; o_snap := [(1, ([0; 0], [0], [8; 8]))]; o_id := true |});
       (OSet 1 PRot [2960],
        {| o_calls := [{| k_l := 1; k_p := PRot; k_v := [2960]; k_same := false |}];
           o_snap := [(1, ([0; 0], [80], [8; 8]))]; o_id := true |}) ] |} = false.
Proof. vm_compute. reflexivity. Qed.

(* default values shared between two instances (observed by identity) violate the property *)
Example C20_shared_default_rejected :
  holds_b {| c_masks := [];
             c_trace := [
       (ONew 1 true None None None, {| o_calls := []; o_snap := [(1, ([0; 0; 0], [0; 0; 0], [8; 8; 8]))]; o_id := true |});
       (ONew 2 true None None None,
        {| o_calls := []; o_snap := [(1, ([0; 0; 0], [0; 0; 0], [8; 8; 8])); (2, ([0; 0; 0], [0; 0; 0], [8; 8; 8]))];
           o_id := false |}) ] |} = false.
Proof. vm_compute. reflexivity. Qed.
