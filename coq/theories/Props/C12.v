(* C12 - A handle loads its resource at most once between clears.
   Statement file: theorems only, each closed by [exact]. *)
From Coq Require Import ZArith List Bool.
From Desper Require Import Lib.Alist Tree.C12Model Tree.C12Proofs.
Import ListNotations.
Open Scope Z_scope.

(* Every trace of observations that the model of Handle, of the six access
   paths and of Loop.switch accepts satisfies the property: per handle, a
   loading access loads iff no access happened since the last clear (or
   ever), every access returns the object of that one load, get() never
   loads, cached predicts whether the next access loads, and a loop switch is
   (optional clear of the handle left) + (optional clear of the target) + an
   access of the target. No bound on trace length or number of handles. *)
Theorem C12_load_at_most_once :
  forall tr : trace, wf_b tr = true -> known_b tr = false ->
                     accepts tr = true -> holds tr.
Proof. intros tr _ _. exact (accepts_holds tr). Qed.
Print Assumptions C12_load_at_most_once.

(* reading of [holds] on raw observations (so that the boolean spec machine
   is not itself taken on trust): once a handle has been accessed, and as
   long as nothing clears it -- neither clear() nor a switch with the
   matching clear flag -- every observation of it reports the same load
   count: no further load, through whatever path *)
Theorem C12_loads_do_not_move_between_clears :
  forall tr t t' h n,
    spec_run t tr = Some t' -> no_clear h (sp_cur t) tr = true ->
    sget (sp_h t) h = (n, true) ->
    forall o ob, In (o, ob) tr -> touches h o = true -> o_loads ob = n.
Proof.
  intros tr t t' h n H1 H2 H3.
  exact (proj2 (loads_stable_when_loaded tr t t' h n H1 H2 H3)).
Qed.
Print Assumptions C12_loads_do_not_move_between_clears.

(* ... and the first loading access after a clear loads exactly once *)
Theorem C12_first_access_after_clear_loads :
  forall t h p ob t' n,
    spec_step t (OAccess h p) ob = Some t' -> loading p = true ->
    sget (sp_h t) h = (n, false) ->
    o_loads ob = n + 1 /\ sget (sp_h t') h = (n + 1, true).
Proof. exact first_access_loads. Qed.
Print Assumptions C12_first_access_after_clear_loads.

(* non-vacuity: a concrete trace meets the premises; a reloading
   implementation's trace and a switch that forgets to clear are rejected *)
Definition ex_ok : trace :=
  [ (OCached 1, {| o_loads := 0; o_flag := false |});
    (OAccess 1 PItem, {| o_loads := 1; o_flag := true |});
    (OAccess 1 PSAttr, {| o_loads := 1; o_flag := true |});
    (OSwitch 2 true false, {| o_loads := 1; o_flag := true |});
    (OSwitch 1 true true, {| o_loads := 2; o_flag := true |});
    (OCached 2, {| o_loads := 1; o_flag := false |});
    (OCached 1, {| o_loads := 2; o_flag := true |});
    (OClear 1, {| o_loads := 2; o_flag := true |});
    (OAccess 1 PGet, {| o_loads := 2; o_flag := true |});
    (OAccess 1 PCall, {| o_loads := 3; o_flag := true |}) ].
Example C12_nonvacuous : wf_b ex_ok = true /\ known_b ex_ok = false /\ accepts ex_ok = true.
Proof. vm_compute. auto. Qed.
Example C12_reload_rejected :
  holds_b [ (OAccess 1 PCall, {| o_loads := 1; o_flag := true |});
            (OAccess 1 PItem, {| o_loads := 2; o_flag := true |}) ] = false.
Proof. vm_compute. reflexivity. Qed.
Example C12_switch_without_clear_rejected :
  holds_b [ (OSwitch 1 false false, {| o_loads := 1; o_flag := true |});
            (OSwitch 1 false true, {| o_loads := 1; o_flag := true |}) ] = false.
Proof. vm_compute. reflexivity. Qed.
