(* C12 - A handle loads its resource at most once between clears.
   Statement file: theorems only, each closed by [exact]. *)
From Coq Require Import ZArith List Bool.
From Desper Require Import Lib.Alist Tree.C12Model Tree.C12Proofs.
Import ListNotations.
Open Scope Z_scope.

(* Every trace of observations that the model of Handle, of the six access
   paths and of Loop.switch accepts satisfies the property: per handle, a
   loading access loads iff no successful access happened since the last
   clear (or ever), every access returns the object of that one load, get()
   never loads, cached predicts whether the next access loads, a loop switch
   is (optional clear of the handle left) + (optional clear of the target) +
   an access of the target, and a load() that raises reaches the caller and
   leaves the handle unloaded (the next access loads again). No bound on
   trace length or number of handles; which loads raise is an input. *)
Theorem C12_load_at_most_once :
  forall tr : trace, wf_b tr = true -> known_b tr = false ->
                     accepts tr = true -> holds tr.
Proof. intros tr _ _. exact (accepts_holds tr). Qed.
Print Assumptions C12_load_at_most_once.

(* reading of [holds] on raw observations (so that the boolean spec machine
   is not itself taken on trust): once a handle has been loaded, and as long
   as nothing clears it -- neither clear() nor a switch with the matching
   clear flag -- every observation of it reports the same count of load
   attempts and no error: no further load, through whatever path *)
Theorem C12_loads_do_not_move_between_clears :
  forall tr t t' h n,
    spec_run t tr = Some t' -> no_clear h (sp_cur t) tr = true ->
    sget (sp_h t) h = (n, true) ->
    forall o ob, In (o, ob) tr -> touches h o = true -> o_loads ob = n /\ o_exc ob = false.
Proof.
  intros tr t t' h n H1 H2 H3.
  exact (proj2 (loads_stable_when_loaded tr t t' h n H1 H2 H3)).
Qed.
Print Assumptions C12_loads_do_not_move_between_clears.

(* ... and the first loading access after a clear (or after a failed load)
   makes exactly one load attempt; it raises iff load() does, and the handle
   is loaded afterwards iff it did not *)
Theorem C12_first_access_after_clear_loads :
  forall t h p fail ob t' n,
    spec_step t (OAccess h p fail) ob = Some t' -> loading p = true ->
    sget (sp_h t) h = (n, false) ->
    o_loads ob = n + 1 /\ o_exc ob = fail /\ sget (sp_h t') h = (n + 1, negb fail).
Proof. exact first_access_loads. Qed.
Print Assumptions C12_first_access_after_clear_loads.

(* non-vacuity: a concrete trace meets the premises; a reloading
   implementation's trace, a switch that forgets to clear and a handle left
   "cached" by a load that raised are rejected *)
Definition ok n := {| o_loads := n; o_flag := true; o_exc := false |}.
Definition ex_ok : trace :=
  [ (OCached 1, {| o_loads := 0; o_flag := false; o_exc := false |});
    (OAccess 1 PItem true, {| o_loads := 1; o_flag := true; o_exc := true |});
    (OCached 1, {| o_loads := 1; o_flag := false; o_exc := false |});
    (OAccess 1 PItem false, ok 2);
    (OAccess 1 PSAttr true, ok 2);
    (OSwitch 2 true false false, ok 1);
    (OSwitch 1 true true false, ok 3);
    (OCached 2, {| o_loads := 1; o_flag := false; o_exc := false |});
    (OCached 1, ok 3);
    (OClear 1, ok 3);
    (OAccess 1 PGet false, ok 3);
    (OAccess 1 PCall false, ok 4) ].
Example C12_nonvacuous : wf_b ex_ok = true /\ known_b ex_ok = false /\ accepts ex_ok = true.
Proof. vm_compute. auto. Qed.
Example C12_reload_rejected :
  holds_b [ (OAccess 1 PCall false, ok 1); (OAccess 1 PItem false, ok 2) ] = false.
Proof. vm_compute. reflexivity. Qed.
Example C12_switch_without_clear_rejected :
  holds_b [ (OSwitch 1 false false false, ok 1); (OSwitch 1 false true false, ok 1) ] = false.
Proof. vm_compute. reflexivity. Qed.
Example C12_cached_after_failed_load_rejected :
  holds_b [ (OAccess 1 PCall true, {| o_loads := 1; o_flag := true; o_exc := true |});
            (OCached 1, ok 1) ] = false.
Proof. vm_compute. reflexivity. Qed.
