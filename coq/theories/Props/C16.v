(* C16 - Directory population mirrors the file tree under the rules.
   Statement file: theorems only, each closed by [exact].

   C16 is partial in one respect only: glob.iglob, os.path and the file
   system are trusted (the model takes the path sequence glob returned in
   the run as input; wf_b checks in Coq that it is a permutation of the
   non-hidden part of the directory tree the harness created).

   [holds] says, per call of the populator on the same map:
   (1) ValueError exactly when some rule path exists and is not a directory,
       a missing rule path is skipped;
   (2) exactly one handle was built per regular file under a processed
       rule's directory whose extension the rule accepts, from that file's
       path and the rule's arguments, and the handles are new objects;
   (3) under every key (the file's path relative to the root, extension
       dropped with trim_extensions, for files only) the handles built for
       it in this call lie on top of what was there (nest_on_conflict) or
       replace its top (otherwise), and no other key changed - in
       particular every accepted file is reachable under its key through
       the handle built last for it, every directory on the way is a
       sub-map, and repeated population layers again;
   (4) the sub-maps that were there stay, and every new sub-map corresponds
       to a directory under (or leading to) a rule's directory;
   (5) every sub-map and handle records its containing map and its name.

   Across populations of the same map (other directory trees through root=,
   other populators) a name may change sides - a file in one tree, a
   directory in another - and the latest population wins (C11): a name that
   is now a directory on the way to an accepted file has lost its handles in
   every layer, whatever lay below a name that is now a file is gone, and
   for a name that is now a directory leading to no accepted file the
   property leaves open whether it became a sub-map.  Within one population
   a name is a file or a directory (wf_b).

   C16_population_mirrors_tree proves all of [holds] for every well-formed
   sequence of populations outside the two known findings - also when names
   change sides between populations.  The proof goes through a path-level
   view of the C11 store (which paths from the populated map lead to a map,
   and the column of handles under a key): uniqueness of paths, frame
   lemmas for every step of __setitem__ (the names on the way lose their
   handles in every layer; a sub-map under the final name is cut off with
   all below it) and for the new layer; per call, the keys of its files and
   the paths of its directories are disjoint (wf_b).  The earlier theorems
   are kept: C16_population_mirrors_tree_noclash (the same statement under
   the extra hypothesis that no name ever changes sides, proved by a simpler
   invariant) and C16_population_mirrors_tree_partial (clauses (1), (2), (5)). *)
From Coq Require Import ZArith List Bool String.
From Desper Require Import Lib.Alist Tree.C11Model Tree.C16Model Tree.C16Proofs Tree.C16Log Tree.C16Main
     Tree.C16Final Tree.C16GFinal.
Import ListNotations.
Open Scope Z_scope.

Theorem C16_population_mirrors_tree :
  forall c : C16_case, wf_b c = true -> known_b c = false -> accepts c = true -> holds c.
Proof. intros c Hwf Hk Hacc. exact (accepts_holds_general c Hwf Hk Hacc). Qed.
Print Assumptions C16_population_mirrors_tree.

Theorem C16_population_mirrors_tree_noclash :
  forall c : C16_case, wf_b c = true -> noclash_b c = true -> known_b c = false ->
                       accepts c = true -> holds c.
Proof. intros c Hwf Hn Hk Hacc. exact (accepts_holds_noclash c Hwf Hn Hk Hacc). Qed.
Print Assumptions C16_population_mirrors_tree_noclash.

Theorem C16_population_mirrors_tree_partial :
  forall c : C16_case, wf_b c = true -> known_b c = false -> accepts c = true ->
                       holds_core_b c = true.
Proof. intros c Hwf Hk Hacc. exact (accepts_core c Hwf Hk Hacc). Qed.
Print Assumptions C16_population_mirrors_tree_partial.

(* the proved part is a sub-conjunction of the property *)
Theorem C16_core_is_part_of_holds :
  forall c : C16_case, holds c -> holds_core_b c = true.
Proof. intros c H. exact (holds_from_core (c_names c) (c_calls c) o_empty 0 H). Qed.
Print Assumptions C16_core_is_part_of_holds.

(* on a well-formed input no step of the populator fails and the store
   invariant of C11 (back-links, handle xor map) is kept, entry by entry *)
Theorem C16_entry_never_fails :
  forall tbl root nest trim r n0 st e,
    PInv st -> LogOK n0 st -> p_exc st = XNone -> entry_key tbl root trim e <> None ->
    PInv (pop_entry tbl root nest trim r st e) /\
    LogOK n0 (pop_entry tbl root nest trim r st e) /\
    p_exc (pop_entry tbl root nest trim r st e) = XNone.
Proof. exact pop_entry_ok. Qed.
Print Assumptions C16_entry_never_fails.

(* ---- non-vacuity, sensitivity, known findings (observations of the real code) --- *)
Definition ex_ok : C16_case := CASE16 [("gfx"%string,0); ("a"%string,1); ("sub"%string,2); ("b"%string,3); ("b.txt"%string,4); ("a.png"%string,5); ("a.txt"%string,6)] [(CALL [""%string; "tmp"%string; "csx4zxt_x"%string; "r0"%string] [(R ["gfx"%string] [] 1); (R ["nowhere"%string] [] 2)] None (Some true) None None [(TDir [(E KDir [""%string; "tmp"%string; "csx4zxt_x"%string; "r0"%string; "gfx"%string]); (E KFile [""%string; "tmp"%string; "csx4zxt_x"%string; "r0"%string; "gfx"%string; "a.png"%string]); (E KFile [""%string; "tmp"%string; "csx4zxt_x"%string; "r0"%string; "gfx"%string; "a.txt"%string]); (E KDir [""%string; "tmp"%string; "csx4zxt_x"%string; "r0"%string; "gfx"%string; "sub"%string]); (E KFile [""%string; "tmp"%string; "csx4zxt_x"%string; "r0"%string; "gfx"%string; "sub"%string; "b.txt"%string])]); TMissing] [[(E KDir [""%string; "tmp"%string; "csx4zxt_x"%string; "r0"%string; "gfx"%string; ""%string]); (E KFile [""%string; "tmp"%string; "csx4zxt_x"%string; "r0"%string; "gfx"%string; "a.png"%string]); (E KDir [""%string; "tmp"%string; "csx4zxt_x"%string; "r0"%string; "gfx"%string; "sub"%string]); (E KFile [""%string; "tmp"%string; "csx4zxt_x"%string; "r0"%string; "gfx"%string; "sub"%string; "b.txt"%string]); (E KFile [""%string; "tmp"%string; "csx4zxt_x"%string; "r0"%string; "gfx"%string; "a.txt"%string])]; []] XNone [(0, ([""%string; "tmp"%string; "csx4zxt_x"%string; "r0"%string; "gfx"%string; "a.png"%string], 1)); (1, ([""%string; "tmp"%string; "csx4zxt_x"%string; "r0"%string; "gfx"%string; "sub"%string; "b.txt"%string], 1)); (2, ([""%string; "tmp"%string; "csx4zxt_x"%string; "r0"%string; "gfx"%string; "a.txt"%string], 1))] (ONode [[]] [(0,(ONode [[(1,2)]; [(1,0)]] [(2,(ONode [[(3,1)]] [] true))] true))] true)); (CALL [""%string; "tmp"%string; "csx4zxt_x"%string; "r0"%string] [(R ["gfx"%string; "sub"%string] [".txt"%string] 3)] None None (Some false) None [(TDir [(E KDir [""%string; "tmp"%string; "csx4zxt_x"%string; "r0"%string; "gfx"%string; "sub"%string]); (E KFile [""%string; "tmp"%string; "csx4zxt_x"%string; "r0"%string; "gfx"%string; "sub"%string; "b.txt"%string])])] [[(E KDir [""%string; "tmp"%string; "csx4zxt_x"%string; "r0"%string; "gfx"%string; "sub"%string; ""%string]); (E KFile [""%string; "tmp"%string; "csx4zxt_x"%string; "r0"%string; "gfx"%string; "sub"%string; "b.txt"%string])]] XNone [(3, ([""%string; "tmp"%string; "csx4zxt_x"%string; "r0"%string; "gfx"%string; "sub"%string; "b.txt"%string], 3))] (ONode [[]] [(0,(ONode [[(1,2)]; [(1,0)]] [(2,(ONode [[(3,1); (4,3)]] [] true))] true))] true))].
Example C16_nonvacuous :
  wf_b ex_ok = true /\ known_b ex_ok = false /\ accepts ex_ok = true /\ holds_b ex_ok = true.
Proof. vm_compute. auto. Qed.

(* observed with fix e2407d5 reverted: NameError instead of ValueError *)
Example C16_wrong_exception_rejected :
  let c := CASE16 [] [(CALL [""%string; "tmp"%string; "cdsuc7g9w"%string; "r0"%string] [(R ["gfx"%string; "a.png"%string] [] 1)] None None None None [TNotDir] [[]] XOther [] (ONode [[]] [] true))] in
  wf_b c = true /\ known_b c = false /\ accepts c = false /\ holds_b c = false.
Proof. vm_compute. auto. Qed.

(* observed with directory names trimmed as well *)
Example C16_trimmed_directory_rejected :
  let c := CASE16 [("gfx"%string,0); ("d"%string,1); ("d.x"%string,2); ("b"%string,3); ("b.txt"%string,4)] [(CALL [""%string; "tmp"%string; "ct0px31j9"%string; "r0"%string] [(R ["gfx"%string] [] 1)] None (Some true) None None [(TDir [(E KDir [""%string; "tmp"%string; "ct0px31j9"%string; "r0"%string; "gfx"%string]); (E KDir [""%string; "tmp"%string; "ct0px31j9"%string; "r0"%string; "gfx"%string; "d.x"%string]); (E KFile [""%string; "tmp"%string; "ct0px31j9"%string; "r0"%string; "gfx"%string; "d.x"%string; "b.txt"%string])])] [[(E KDir [""%string; "tmp"%string; "ct0px31j9"%string; "r0"%string; "gfx"%string; ""%string]); (E KDir [""%string; "tmp"%string; "ct0px31j9"%string; "r0"%string; "gfx"%string; "d.x"%string]); (E KFile [""%string; "tmp"%string; "ct0px31j9"%string; "r0"%string; "gfx"%string; "d.x"%string; "b.txt"%string])]] XNone [(0, ([""%string; "tmp"%string; "ct0px31j9"%string; "r0"%string; "gfx"%string; "d.x"%string; "b.txt"%string], 1))] (ONode [[]] [(0,(ONode [[]] [(1,(ONode [[]] [] true)); (2,(ONode [[(3,0)]] [] true))] true))] true))] in
  wf_b c = true /\ known_b c = false /\ accepts c = false /\ holds_b c = false.
Proof. vm_compute. auto. Qed.

(* K7: a file whose name begins with '.' is not in the map (glob skips it) *)
Definition k7_witness : C16_case := CASE16 [("gfx"%string,0); ("a.png"%string,1); ("a"%string,2); (".hidden"%string,3)] [(CALL [""%string; "tmp"%string; "cu0ga7cz5"%string; "r0"%string] [(R ["gfx"%string] [] 1)] None None None None [(TDir [(E KDir [""%string; "tmp"%string; "cu0ga7cz5"%string; "r0"%string; "gfx"%string]); (E KFile [""%string; "tmp"%string; "cu0ga7cz5"%string; "r0"%string; "gfx"%string; "a.png"%string]); (E KFile [""%string; "tmp"%string; "cu0ga7cz5"%string; "r0"%string; "gfx"%string; ".hidden"%string])])] [[(E KDir [""%string; "tmp"%string; "cu0ga7cz5"%string; "r0"%string; "gfx"%string; ""%string]); (E KFile [""%string; "tmp"%string; "cu0ga7cz5"%string; "r0"%string; "gfx"%string; "a.png"%string])]] XNone [(0, ([""%string; "tmp"%string; "cu0ga7cz5"%string; "r0"%string; "gfx"%string; "a.png"%string], 1))] (ONode [[]] [(0,(ONode [[(1,0)]] [] true))] true))].
Theorem C16_K7_dotfiles_refuted :
  exists c, wf_b c = true /\ known_b c = true /\ accepts c = true /\ holds_b c = false.
Proof. exists k7_witness. vm_compute. auto. Qed.

(* K8: with nest_on_conflict=False a handle that is visible from a lower
   layer is not replaced, the new handle is put on top of it *)
Definition k8_witness : C16_case := CASE16 [("gfx"%string,0); ("a.png"%string,1); ("b.txt"%string,2); ("a"%string,3); ("b"%string,4)] [(CALL [""%string; "tmp"%string; "cvztitiho"%string; "r0"%string] [(R ["gfx"%string] [] 1); (R ["gfx"%string] [".png"%string] 2)] (Some true) None None None [(TDir [(E KDir [""%string; "tmp"%string; "cvztitiho"%string; "r0"%string; "gfx"%string]); (E KFile [""%string; "tmp"%string; "cvztitiho"%string; "r0"%string; "gfx"%string; "a.png"%string]); (E KFile [""%string; "tmp"%string; "cvztitiho"%string; "r0"%string; "gfx"%string; "b.txt"%string])]); (TDir [(E KDir [""%string; "tmp"%string; "cvztitiho"%string; "r0"%string; "gfx"%string]); (E KFile [""%string; "tmp"%string; "cvztitiho"%string; "r0"%string; "gfx"%string; "a.png"%string]); (E KFile [""%string; "tmp"%string; "cvztitiho"%string; "r0"%string; "gfx"%string; "b.txt"%string])])] [[(E KDir [""%string; "tmp"%string; "cvztitiho"%string; "r0"%string; "gfx"%string; ""%string]); (E KFile [""%string; "tmp"%string; "cvztitiho"%string; "r0"%string; "gfx"%string; "a.png"%string]); (E KFile [""%string; "tmp"%string; "cvztitiho"%string; "r0"%string; "gfx"%string; "b.txt"%string])]; [(E KDir [""%string; "tmp"%string; "cvztitiho"%string; "r0"%string; "gfx"%string; ""%string]); (E KFile [""%string; "tmp"%string; "cvztitiho"%string; "r0"%string; "gfx"%string; "a.png"%string]); (E KFile [""%string; "tmp"%string; "cvztitiho"%string; "r0"%string; "gfx"%string; "b.txt"%string])]] XNone [(0, ([""%string; "tmp"%string; "cvztitiho"%string; "r0"%string; "gfx"%string; "a.png"%string], 1)); (1, ([""%string; "tmp"%string; "cvztitiho"%string; "r0"%string; "gfx"%string; "b.txt"%string], 1)); (2, ([""%string; "tmp"%string; "cvztitiho"%string; "r0"%string; "gfx"%string; "a.png"%string], 2))] (ONode [[]] [(0,(ONode [[(1,2)]; [(1,0); (2,1)]] [] true))] true)); (CALL [""%string; "tmp"%string; "cvztitiho"%string; "r0"%string] [(R ["gfx"%string] [] 3)] (Some false) None None None [(TDir [(E KDir [""%string; "tmp"%string; "cvztitiho"%string; "r0"%string; "gfx"%string]); (E KFile [""%string; "tmp"%string; "cvztitiho"%string; "r0"%string; "gfx"%string; "a.png"%string]); (E KFile [""%string; "tmp"%string; "cvztitiho"%string; "r0"%string; "gfx"%string; "b.txt"%string])])] [[(E KDir [""%string; "tmp"%string; "cvztitiho"%string; "r0"%string; "gfx"%string; ""%string]); (E KFile [""%string; "tmp"%string; "cvztitiho"%string; "r0"%string; "gfx"%string; "a.png"%string]); (E KFile [""%string; "tmp"%string; "cvztitiho"%string; "r0"%string; "gfx"%string; "b.txt"%string])]] XNone [(3, ([""%string; "tmp"%string; "cvztitiho"%string; "r0"%string; "gfx"%string; "a.png"%string], 3)); (4, ([""%string; "tmp"%string; "cvztitiho"%string; "r0"%string; "gfx"%string; "b.txt"%string], 3))] (ONode [[]] [(0,(ONode [[(1,3); (2,4)]; [(1,0); (2,1)]] [] true))] true))].
Theorem C16_K8_unreplaced_lower_layer_refuted :
  exists c, wf_b c = true /\ known_b c = true /\ accepts c = true /\ holds_b c = false.
Proof. exists k8_witness. vm_compute. auto. Qed.
