(* C11 - Resource paths, shadowing and back-links stay consistent.
   Statement file: theorems only, each closed by [exact]. *)
From Coq Require Import ZArith List Bool.
From Desper Require Import Lib.Alist Tree.C11Model Tree.C11Lemmas Tree.C11Inv Tree.C11Proofs
     Tree.C11Keys Tree.C11KeysProofs.
Import ListNotations.
Open Scope Z_scope.

(* Every history of m[key] = value / clear() / new handle layer, on any
   number of maps, with keys of any depth, values being handles or maps
   (empty, populated, layered), each object inserted at most once, that the
   model of ResourceMap accepts satisfies the property: after every
   operation
   - every record of the dump shows exactly the latest assignments: what a
     name visibly denotes (handle of the first layer that has it, else
     sub-map) is what was assigned to it last - by this operation, an
     earlier one, or implicitly as an intermediate key part -, a name is
     never both, nothing assigned is missing and nothing replaced survives
     (a map assignment removes the name from every layer);
   - every sub-map and every handle of every layer records the containing
     map as parent and its name as key, implicitly created maps included;
   - m[p], m[p1][p2]..[pn], get(p, D), get(p, D)() and get(p) answer as the
     table of latest assignments says: the same resource, D / None exactly
     when [] raises KeyError;
   - after clear() the map has no sub-map and no entry in any layer and
     every former direct child (of every layer) records no parent, no key.
   No bound on the number of operations, objects, layers or key depth. *)
Theorem C11_tree_consistent :
  forall c : C11_case, wf_b c = true -> known_b c = false -> accepts c = true -> holds c.
Proof. intros c Hwf _ Hacc. exact (accepts_holds c Hwf Hacc). Qed.
Print Assumptions C11_tree_consistent.

(* The same invariant read along paths, for every store the model reaches
   by any accepted well-formed history, every map m and every path. *)

(* m.get(p, D) returns D exactly when m[p] raises KeyError, and otherwise
   m.get(p, D)() is m[p] *)
Theorem C11_get_agrees_with_getitem :
  forall s m pre last d,
    (py_get s m pre last RDefault = RDefault <-> py_getitem s m pre last = RKeyError) /\
    match py_getitem s m pre last with
    | RKeyError => py_get s m pre last d = d
    | r => call_handle (py_get s m pre last d) = r
    end.
Proof.
  intros s m pre last d.
  exact (conj (get_default_iff_keyerror s m pre last) (get_vs_getitem s m pre last d)).
Qed.
Print Assumptions C11_get_agrees_with_getitem.

(* m['k1/../kn/last'] and m['k1']..['kn']['last'] denote the same resource;
   they differ only when some ki is a handle: then the composed key raises
   KeyError and the chain stops at the loaded resource *)
Theorem C11_chain_agrees_with_composed_key :
  forall s, reachable s -> forall pre m last,
    py_chain s m pre last = py_getitem s m pre last \/
    (py_chain s m pre last = RNotMap /\ py_getitem s m pre last = RKeyError).
Proof.
  intros s HR. destruct (reachable_inv s HR) as [used HI].
  exact (chain_vs_getitem used s HI).
Qed.
Print Assumptions C11_chain_agrees_with_composed_key.

(* whatever a path reaches records the map containing it and its name *)
Theorem C11_backlinks_on_every_path :
  forall s, reachable s -> forall m pre last t,
    walk s m pre = Some t ->
    (forall c, py_get s m pre last RDefault = RMapR c ->
               m_parent (sm s c) = Some t /\ m_key (sm s c) = Some last) /\
    (forall h, py_get s m pre last RDefault = RHandleR h ->
               sh s h = HR (Some t) (Some last)).
Proof.
  intros s HR m pre last t HW. destruct (reachable_inv s HR) as [used HI].
  destruct (backlinks_along_paths used s HI m pre last t RDefault HW) as [A B].
  split.
  - intros c Hc. apply A; [exact Hc|discriminate].
  - intros h Hh. apply B; [exact Hh|discriminate].
Qed.
Print Assumptions C11_backlinks_on_every_path.

(* climbing .parent as many times as the path is long comes back to the map
   the path started from (what resource_dict_transformer relies on) *)
Theorem C11_parent_chain_returns :
  forall s, reachable s -> forall pre m t,
    walk s m pre = Some t -> climb s t (length pre) = Some m.
Proof.
  intros s HR. destruct (reachable_inv s HR) as [used HI]. exact (climb_back used s HI).
Qed.
Print Assumptions C11_parent_chain_returns.

(* after clear() no path finds anything in the map *)
Theorem C11_clear_leaves_nothing :
  forall s, reachable s -> forall m pre last,
    py_getitem (py_clear s m) m pre last = RKeyError /\
    forall d, py_get (py_clear s m) m pre last d = d.
Proof.
  intros s HR m pre last. destruct (reachable_inv s HR) as [used HI].
  exact (clear_nothing_reachable used s m pre last HI).
Qed.
Print Assumptions C11_clear_leaves_nothing.

(* in the table of latest assignments the name assigned denotes the value *)
Theorem C11_latest_assignment_wins :
  forall sp m pre last v,
    let '(sp1, t) := sp_set_walk sp m pre in
    look (sp_exec sp (OSet m pre last v)) t last = Some v.
Proof. exact latest_assignment_wins. Qed.
Print Assumptions C11_latest_assignment_wins.

(* ---- non-vacuity and sensitivity (observations of the real code) ------------- *)
(* m['a/b']=h0; new layer on m['a']; m['a']['b']=h1; m['a/b']=M1; m['a'].clear() *)
Definition ex_ok : C11_case :=
[((OSet 0 [0] 1 (RH 0)), OBS [(0, MR None None [(0,(-1))] [[]]); (1, MR None None [] [[]]); ((-1), MR (Some 0) (Some 0) [] [[(1,0)]])] [(0, HR (Some (-1)) (Some 1))] [(Q 0 QItem [0] 1, (RValR 0)); (Q 0 QChain [0] 1, (RValR 0)); (Q 0 QGetCall [0] 1, (RValR 0)); (Q 0 QGet [0] 2, RDefault)]); ((OPush (-1)), OBS [(0, MR None None [(0,(-1))] [[]]); (1, MR None None [] [[]]); ((-1), MR (Some 0) (Some 0) [] [[]; [(1,0)]])] [(0, HR (Some (-1)) (Some 1))] []); ((OSet (-1) [] 1 (RH 1)), OBS [(0, MR None None [(0,(-1))] [[]]); (1, MR None None [] [[]]); ((-1), MR (Some 0) (Some 0) [] [[(1,1)]; [(1,0)]])] [(0, HR (Some (-1)) (Some 1)); (1, HR (Some (-1)) (Some 1))] [(Q 0 QGet [0] 1, (RHandleR 1))]); ((OSet 0 [0] 1 (RM 1)), OBS [(0, MR None None [(0,(-1))] [[]]); (1, MR (Some (-1)) (Some 1) [] [[]]); ((-1), MR (Some 0) (Some 0) [(1,1)] [[]; []])] [(0, HR (Some (-1)) (Some 1)); (1, HR (Some (-1)) (Some 1))] [(Q 0 QGetNone [0] 1, (RMapR 1)); (Q 0 QItem [0; 1] 2, RKeyError)]); ((OClear (-1)), OBS [(0, MR None None [(0,(-1))] [[]]); (1, MR None None [] [[]]); ((-1), MR (Some 0) (Some 0) [] [[]])] [(0, HR (Some (-1)) (Some 1)); (1, HR (Some (-1)) (Some 1))] [(Q 0 QGet [0] 1, RDefault); (Q 0 QItem [] 0, (RMapR (-1)))])].
Example C11_nonvacuous :
  wf_b ex_ok = true /\ known_b ex_ok = false /\ accepts ex_ok = true /\ holds_b ex_ok = true.
Proof. vm_compute. auto. Qed.

(* observed with fix aa84aed reverted: the implicit map 'a' has no parent *)
Example C11_unlinked_intermediate_rejected :
  let c := [((OSet 0 [0] 1 (RH 0)), OBS [(0, MR None None [(0,(-1))] [[]]); ((-1), MR None None [] [[(1,0)]])] [(0, HR (Some (-1)) (Some 1))] [])] in
  accepts c = false /\ holds_b c = false.
Proof. vm_compute. auto. Qed.

(* observed with fix 859aad5 reverted: a map assigned over a layered handle,
   the shadowed handle resurfaces *)
Example C11_resurfacing_handle_rejected :
  let c := [((OSet 0 [] 0 (RH 0)), OBS [(0, MR None None [] [[(0,0)]]); (1, MR None None [] [[]])] [(0, HR (Some 0) (Some 0))] []); ((OPush 0), OBS [(0, MR None None [] [[]; [(0,0)]]); (1, MR None None [] [[]])] [(0, HR (Some 0) (Some 0))] []); ((OSet 0 [] 0 (RH 1)), OBS [(0, MR None None [] [[(0,1)]; [(0,0)]]); (1, MR None None [] [[]])] [(0, HR (Some 0) (Some 0)); (1, HR (Some 0) (Some 0))] []); ((OSet 0 [] 0 (RM 1)), OBS [(0, MR None None [(0,1)] [[]; [(0,0)]]); (1, MR (Some 0) (Some 0) [] [[]])] [(0, HR (Some 0) (Some 0)); (1, HR (Some 0) (Some 0))] [(Q 0 QGet [] 0, (RHandleR 0))])] in
  wf_b c = true /\ accepts c = false /\ holds_b c = false.
Proof. vm_compute. auto. Qed.

(* observed with fix d218016 reverted: clear() leaves the shadowed layer *)
Example C11_partial_clear_rejected :
  let c := [((OSet 0 [] 0 (RH 0)), OBS [(0, MR None None [] [[(0,0)]])] [(0, HR (Some 0) (Some 0))] []); ((OPush 0), OBS [(0, MR None None [] [[]; [(0,0)]])] [(0, HR (Some 0) (Some 0))] []); ((OSet 0 [] 0 (RH 1)), OBS [(0, MR None None [] [[(0,1)]; [(0,0)]])] [(0, HR (Some 0) (Some 0)); (1, HR (Some 0) (Some 0))] []); ((OClear 0), OBS [(0, MR None None [] [[]; [(0,0)]])] [(0, HR (Some 0) (Some 0)); (1, HR None None)] [(Q 0 QGet [] 0, (RHandleR 0))])] in
  wf_b c = true /\ accepts c = false /\ holds_b c = false.
Proof. vm_compute. auto. Qed.

(* ---- keys as written: str.split(self.split_char) -------------------------------- *)
(* A key is the list of its characters (names and separators); an operation
   on map m splits it on m's separator - the split_char of that map (class
   attribute of a subclass, or instance attribute; '/' for the maps created
   implicitly), empty parts being the empty name.  The theorem for the
   operations the keys denote: *)
Theorem C11_tree_consistent_keys :
  forall c : C11_rcase, rwf_b c = true -> rknown_b c = false -> raccepts c = true -> rholds c.
Proof. intros c Hwf _ Hacc. exact (raccepts_rholds c Hwf Hacc). Qed.
Print Assumptions C11_tree_consistent_keys.

(* joining names with a separator and splitting again gives the names *)
Theorem C11_split_join :
  forall sep ns, ns <> [] -> Forall (fun n => n <> sep) ns ->
                 split sep (join sep ns) = map (fun n => [n]) ns.
Proof. exact split_join. Qed.
Print Assumptions C11_split_join.

(* a subclass with split_char '.', an instance with ':' and an empty part *)
Definition ex_sep : C11_rcase := RCASE [(0,(-2)); (1,(-3))] [((ROSet 0 [0; (-2); 1] (RH 0)), ROBS [(0, MR None None [(0,(-1))] [[]]); (1, MR None None [] [[]]); ((-1), MR (Some 0) (Some 0) [] [[(1,0)]])] [(0, HR (Some (-1)) (Some 1))] [(RQ 0 QItem [0; (-2); 1], (RValR 0)); (RQ 0 QGet [0; (-2); 1], (RHandleR 0)); (RQ (-1) QItem [1], (RValR 0))]); ((ROSet 1 [2; (-3); (-3); 3] (RH 1)), ROBS [(0, MR None None [(0,(-1))] [[]]); (1, MR None None [(2,(-2))] [[]]); ((-1), MR (Some 0) (Some 0) [] [[(1,0)]]); ((-2), MR (Some 1) (Some 2) [(4,(-3))] [[]]); ((-3), MR (Some (-2)) (Some 4) [] [[(3,1)]])] [(0, HR (Some (-1)) (Some 1)); (1, HR (Some (-3)) (Some 3))] [(RQ 1 QItem [2; (-3); (-3); 3], (RValR 1)); (RQ 1 QGetCall [2; (-3); (-3); 3], (RValR 1))])].
Example C11_separators_nonvacuous :
  rwf_b ex_sep = true /\ raccepts ex_sep = true /\ rholds_b ex_sep = true.
Proof. vm_compute. auto. Qed.

(* observed with __getitem__ splitting on ResourceMap.split_char: [] raises
   KeyError where get finds the resource *)
Example C11_class_separator_rejected :
  let c := RCASE [(0,(-2)); (1,(-3))] [((ROSet 0 [0; (-2); 1] (RH 0)), ROBS [(0, MR None None [(0,(-1))] [[]]); (1, MR None None [] [[]]); ((-1), MR (Some 0) (Some 0) [] [[(1,0)]])] [(0, HR (Some (-1)) (Some 1))] [(RQ 0 QItem [0; (-2); 1], RKeyError); (RQ 0 QGet [0; (-2); 1], (RHandleR 0)); (RQ (-1) QItem [1], (RValR 0))]); ((ROSet 1 [2; (-3); (-3); 3] (RH 1)), ROBS [(0, MR None None [(0,(-1))] [[]]); (1, MR None None [(2,(-2))] [[]]); ((-1), MR (Some 0) (Some 0) [] [[(1,0)]]); ((-2), MR (Some 1) (Some 2) [(4,(-3))] [[]]); ((-3), MR (Some (-2)) (Some 4) [] [[(3,1)]])] [(0, HR (Some (-1)) (Some 1)); (1, HR (Some (-3)) (Some 3))] [(RQ 1 QItem [2; (-3); (-3); 3], RKeyError); (RQ 1 QGetCall [2; (-3); (-3); 3], (RValR 1))])] in
  rwf_b c = true /\ raccepts c = false /\ rholds_b c = false.
Proof. vm_compute. auto. Qed.
