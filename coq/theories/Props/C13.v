(* C13 - world switching delivers in/out events to the worlds that run.
   Statement file: theorems only, each closed by [exact]. *)
From Coq Require Import ZArith List Bool.
From Desper Require Import Lib.Alist Loop.Model Loop.ModelFacts Loop.C13Model Loop.C13Proofs.
Import ListNotations.
Open Scope Z_scope.

(* For every case (any number of handles, any sequence of loop.switch /
   start() operations, any frame scripts issued from a processor, an event
   callback or a coroutine at any processor position, any events poked at
   other worlds) that contains no switch() call with clear_next, nor with
   clear_current towards the loop's current handle (known finding K5), and
   whose observed logs the model of desper/loop.py accepts, the checker of
   Loop/C13Model.v accepts the logs:
   - a switch request (switch() or a bare SwitchWorld) abandons the frame: no
     further processor is called, and the world processed by the next
     iteration is the instance the target handle holds;
   - through switch(), on_switch_out(from, to) is delivered exactly once, in
     [from], before anything else; on_switch_in(from, to) exactly once, in the
     instance the loop runs next, after everything that instance had pending
     (its own on_world_load if it was just loaded, events sent to it while it
     was left); no other delivery happens;
   - the world left delivers nothing until the loop enters it again, and then
     everything it was sent, in order;
   - a handle cleared by clear_current / clear_next yields an instance with a
     new serial (load() runs again), a handle not cleared is not reloaded. *)
Theorem C13_switch_events :
  forall c : C13_case, wf_b c = true -> known13_b c = false ->
                       accepts c = true -> holds13 c.
Proof. intros c W K A. exact (accepts_holds13 c W K A). Qed.
Print Assumptions C13_switch_events.

(* what the checker accepts for a switch() request, on raw entries: the
   entries it announces contain on_switch_out(from, to) delivered in [from] and
   END with on_switch_in(from, to) delivered in the instance that is current
   afterwards, whose handle is the target *)
Theorem C13_accepted_switch_ends_with_switch_in :
  forall h cc cn b b' l, spec_switch h cc cn b = Some (b', l) ->
  exists to pre,
    l = pre ++ [EEv (b_curw b') (VIn (b_curw b) to)] /\
    In (EEv (b_curw b) (VOut (b_curw b) to)) pre /\ b_curh b' = h.
Proof. intros h cc cn b b' l H. exact (spec_switch_shape h cc cn b b' l H). Qed.
Print Assumptions C13_accepted_switch_ends_with_switch_in.

(* every load and every delivery in an accepted log was announced *)
Theorem C13_nothing_unannounced :
  forall b, b_exp b = [] ->
    (forall h w, step13 b (ELoad h w) = None) /\ (forall w e, step13 b (EEv w e) = None).
Proof. intros b H. unfold step13. rewrite H. split; reflexivity. Qed.

Definition fr t pk a := {| f_t := t; f_pokes := pk; f_pos := 0%nat; f_org := OProc; f_act := a |}.
Definition top0 : op * list entry :=
  (OTop 0 false false, [ELoad 0 1; EEv 1 (VLoad 0 1); ETopDone 1 0]).

(* non-vacuity: switch to an unloaded handle with clear_current, an event
   poked at the world held by the target, switch back to the cleared handle
   (fresh instance 3), self-switch *)
Definition ex_ok : C13_case :=
  {| c_nps := [1%nat; 1%nat];
     c_ops :=
       [ top0;
         (OStart [fr 0 [] (ASwitch 1 true false true);
                  fr 8 [(0, 1); (1, 2)] ANormal;
                  fr 9 [] (ASwitch 0 false false true);
                  fr 10 [(1, 3)] (ASwitch 0 false false false);
                  fr 11 [] (ASwitch 1 false false true)] EndQuit,
          [EClock 0 1 0; EProc 1 0%nat 0; EAct OProc (ASwitch 1 true false true);
           ELoad 1 2; EEv 1 (VOut 1 2); EEv 2 (VLoad 1 2); EEv 2 (VIn 1 2);
           EClock 8 2 1; EProc 2 0%nat 8; EPoke 1 2 2; EEv 2 (VPoke 2);
           EClock 9 2 1; EProc 2 0%nat 1; EAct OProc (ASwitch 0 false false true);
           ELoad 0 3; EEv 2 (VOut 2 3); EEv 3 (VLoad 0 3); EEv 3 (VIn 2 3);
           EClock 10 3 0; EProc 3 0%nat 1; EPoke 1 3 2;
           EAct OProc (ASwitch 0 false false false); EEv 3 (VOut 3 3); EEv 3 (VIn 3 3);
           EClock 11 3 0; EProc 3 0%nat 1; EAct OProc (ASwitch 1 false false true);
           EEv 3 (VOut 3 2); EEv 2 (VPoke 3); EEv 2 (VIn 3 2);
           EClockEnd EndQuit 2 1; EEnd (Returned false) 2 1]) ] |}.
Example C13_nonvacuous :
  wf_b ex_ok = true /\ known13_b ex_ok = false /\ accepts ex_ok = true /\ holds13_b ex_ok = true.
Proof. vm_compute. auto. Qed.

(* known finding K5: switch(h, clear_next=True) - the real code (and the
   model) queue on_switch_in on instance 2, which the loop discards; instance
   3 runs and never hears it; the target is loaded twice *)
Definition k5_witness : C13_case :=
  {| c_nps := [1%nat; 1%nat];
     c_ops :=
       [ top0;
         (OStart [fr 0 [] (ASwitch 1 false true true); fr 8 [] ANormal] EndQuit,
          [EClock 0 1 0; EProc 1 0%nat 0; EAct OProc (ASwitch 1 false true true);
           ELoad 1 2; EEv 1 (VOut 1 2); ELoad 1 3; EEv 3 (VLoad 1 3);
           EClock 8 3 1; EProc 3 0%nat 8; EClockEnd EndQuit 3 1; EEnd (Returned false) 3 1]) ] |}.
Theorem C13_clear_next_refuted :
  exists c, wf_b c = true /\ known13_b c = true /\ accepts c = true /\ holds13_b c = false.
Proof. exists k5_witness. vm_compute. auto. Qed.

(* the second form of K5: clear_current when the target is the current handle *)
Definition k5_witness_self : C13_case :=
  {| c_nps := [1%nat];
     c_ops :=
       [ top0;
         (OStart [fr 0 [] (ASwitch 0 true false false); fr 8 [] ANormal] EndQuit,
          [EClock 0 1 0; EProc 1 0%nat 0; EAct OProc (ASwitch 0 true false false);
           EEv 1 (VOut 1 1); ELoad 0 2; EEv 2 (VLoad 0 2);
           EClock 8 2 0; EProc 2 0%nat 8; EClockEnd EndQuit 2 0; EEnd (Returned false) 2 0]) ] |}.
Theorem C13_clear_current_self_refuted :
  exists c, wf_b c = true /\ known13_b c = true /\ accepts c = true /\ holds13_b c = false.
Proof. exists k5_witness_self. vm_compute. auto. Qed.

(* logs of implementations that break the property are rejected by the
   checker.  (a) the world left is not muted: an event poked at it is
   delivered while another world runs *)
Definition sw1 := fr 0 [] (ASwitch 1 false false true).
Definition sw1_log := [EClock 0 1 0; EProc 1 0%nat 0; EAct OProc (ASwitch 1 false false true);
                       ELoad 1 2; EEv 1 (VOut 1 2); EEv 2 (VLoad 1 2); EEv 2 (VIn 1 2)].
Example C13_left_world_not_muted_rejected :
  holds13_b {| c_nps := [1%nat; 1%nat];
               c_ops := [ top0;
                 (OStart [sw1; fr 8 [(0, 1)] ANormal] EndQuit,
                  sw1_log ++ [EClock 8 2 1; EProc 2 0%nat 8; EPoke 0 1 1; EEv 1 (VPoke 1);
                              EClockEnd EndQuit 2 1; EEnd (Returned false) 2 1]) ] |} = false.
Proof. vm_compute. reflexivity. Qed.
(* (b) on_switch_in delivered before the target's own on_world_load *)
Example C13_switch_in_before_load_events_rejected :
  holds13_b {| c_nps := [1%nat; 1%nat];
               c_ops := [ top0;
                 (OStart [sw1] EndQuit,
                  [EClock 0 1 0; EProc 1 0%nat 0; EAct OProc (ASwitch 1 false false true);
                   ELoad 1 2; EEv 1 (VOut 1 2); EEv 2 (VIn 1 2); EEv 2 (VLoad 1 2);
                   EClockEnd EndQuit 2 1; EEnd (Returned false) 2 1]) ] |} = false.
Proof. vm_compute. reflexivity. Qed.
(* (c) the wrong world is enabled: the entered instance stays silent *)
Example C13_entered_world_silent_rejected :
  holds13_b {| c_nps := [1%nat; 1%nat];
               c_ops := [ top0;
                 (OStart [sw1] EndQuit,
                  [EClock 0 1 0; EProc 1 0%nat 0; EAct OProc (ASwitch 1 false false true);
                   ELoad 1 2; EEv 1 (VOut 1 2);
                   EClockEnd EndQuit 2 1; EEnd (Returned false) 2 1]) ] |} = false.
Proof. vm_compute. reflexivity. Qed.
(* (d) the frame is not abandoned: a later processor still runs *)
Example C13_frame_not_abandoned_rejected :
  holds13_b {| c_nps := [2%nat; 1%nat];
               c_ops := [ top0;
                 (OStart [sw1] EndQuit,
                  [EClock 0 1 0; EProc 1 0%nat 0; EAct OProc (ASwitch 1 false false true);
                   ELoad 1 2; EEv 1 (VOut 1 2); EEv 2 (VLoad 1 2); EEv 2 (VIn 1 2);
                   EProc 1 1%nat 0;
                   EClockEnd EndQuit 2 1; EEnd (Returned false) 2 1]) ] |} = false.
Proof. vm_compute. reflexivity. Qed.
(* (e) a handle cleared by clear_current is not reloaded: the old instance comes back *)
Example C13_cleared_handle_not_fresh_rejected :
  holds13_b {| c_nps := [1%nat; 1%nat];
               c_ops := [ top0;
                 (OStart [fr 0 [] (ARaiseSW 1 true false); fr 1 [] (ARaiseSW 0 false false)] EndQuit,
                  [EClock 0 1 0; EProc 1 0%nat 0; EAct OProc (ARaiseSW 1 true false);
                   ELoad 1 2; EEv 2 (VLoad 1 2);
                   EClock 1 2 1; EProc 2 0%nat 1; EAct OProc (ARaiseSW 0 false false);
                   EClockEnd EndQuit 1 0; EEnd (Returned false) 1 0]) ] |} = false.
Proof. vm_compute. reflexivity. Qed.
