(* C13 - world switching delivers in/out events to the worlds that run.
   Statement file: theorems only, each closed by [exact].
   Second generation of the Loop family: the listener callbacks
   (on_world_load, on_switch_in, on_switch_out, on_quit) can themselves raise
   Quit, call quit_loop / switch, raise SwitchWorld or another exception, at
   any nesting depth (Loop/RBus.v, RModel.v, R13Model.v, R13Proofs.v). *)
From Coq Require Import ZArith List Bool.
From Desper Require Import Lib.Alist Loop.RBus Loop.RModel Loop.RFacts Loop.R13Model
     Loop.R13Proofs.
Import ListNotations.
Open Scope Z_scope.

(* For every case (any number of handles, any sequence of loop.switch /
   start() operations, any frame scripts issued from a processor, an event
   callback or a coroutine at any processor position, any events poked at
   other worlds, any one-shot reactions of the load-time / switch-time / quit
   callbacks, nested to any depth, including switch requests made by the
   callbacks of a world while the loop is entering it) that contains no
   switch() call with clear_next, nor with clear_current towards the loop's
   current handle (known finding K5), and whose observed logs the model of desper/loop.py accepts, the checker of
   Loop/R13Model.v accepts the logs:
   - a switch request (switch() or a bare SwitchWorld, from a script or from
     any callback) abandons the frame: no further processor is called, and the
     world processed by the next iteration is the instance the LAST target
     handle holds: a request made while the loop is entering a world makes it
     go on to the new target, each intermediate world getting its
     on_switch_in / on_switch_out as below;
   - through switch(), on_switch_out(from, to) is delivered exactly once, in
     [from], at once; on_switch_in(from, to) is held by the target and is
     delivered in the instance the loop enters, after everything that
     instance had pending; nothing else is delivered;
   - the world left delivers nothing until the loop enters it again, and then
     everything it was sent, in order; a callback that raises during that
     release stops it, what was not delivered stays held for the next time
     the world is entered (nothing is lost, nothing is delivered twice);
   - a handle cleared by clear_current / clear_next yields an instance with a
     new serial, a handle not cleared is not reloaded. *)
Theorem C13_switch_events :
  forall c : C13_case, wf_b c = true -> known13_b c = false ->
                       accepts c = true -> holds13 c.
Proof. intros c W K A. exact (accepts_holds13 c W K A). Qed.
Print Assumptions C13_switch_events.

(* every load, delivery and callback action in an accepted log was announced *)
Theorem C13_nothing_unannounced :
  forall b, b_exp b = [] ->
    (forall h w, step13 b (ELoad h w) = None) /\ (forall w e, step13 b (EEv w e) = None) /\
    (forall k i a w h, step13 b (EAct (OCallback k i) a w h) = None).
Proof.
  intros b H. unfold step13. rewrite H. repeat split; try reflexivity.
  intros k i a w h. cbn [is_callback negb]. now rewrite andb_false_r.
Qed.

Definition fr t pk a := {| f_t := t; f_pokes := pk; f_pos := 0%nat; f_org := OProc; f_act := a |}.
Definition top0 : op * list entry :=
  (OTop 0 false false [], [ELoad 0 1; EEv 1 (VLoad 0 1); ETopDone 1 0]).

(* non-vacuity: an on_world_load callback of the entered world raises Quit
   while the loop is entering it: on_switch_in(1,2) stays held by world 2 and
   is delivered when world 2 is entered again, before the new on_switch_in *)
Definition ex_ok : C13_case :=
  {| c_nps := [1%nat; 1%nat]; c_ncs := [1%nat; 1%nat];
     c_ops :=
       [ top0;
         (OStart [fr 0 [] (ASwitch 1 false false true); fr 8 [] ANormal] EndQuit [(KLoad, AQuit)],
          [EClock 0 1 0; EProc 1 0%nat 0; EAct OProc (ASwitch 1 false false true) 1 0;
           ELoad 1 2; EEv 1 (VOut 1 2); EEv 2 (VLoad 1 2);
           EAct (OCallback KLoad true) AQuit 2 1; EEnd (Returned false) 2 1]);
         (OStart [fr 16 [] ANormal; fr 17 [] (ASwitch 0 false false true);
                  fr 18 [] (ASwitch 1 false false true); fr 19 [] ANormal] EndQuit [],
          [EClock 16 2 1; EProc 2 0%nat 0; ECoro 2 0%nat;
           EClock 17 2 1; EProc 2 0%nat 1; EAct OProc (ASwitch 0 false false true) 2 1;
           EEv 2 (VOut 2 1); EEv 1 (VIn 2 1);
           EClock 18 1 0; EProc 1 0%nat 1; EAct OProc (ASwitch 1 false false true) 1 0;
           EEv 1 (VOut 1 2); EEv 2 (VIn 1 2); EEv 2 (VIn 1 2);
           EClock 19 2 1; EProc 2 0%nat 1; ECoro 2 0%nat; EClockEnd EndQuit 2 1; EEnd (Returned false) 2 1]) ] |}.
Example C13_nonvacuous :
  wf_b ex_ok = true /\ known13_b ex_ok = false /\ accepts ex_ok = true /\ holds13_b ex_ok = true.
Proof. vm_compute. auto. Qed.

(* a switch requested by the on_switch_out callback supersedes the script's
   request (the first switch() never completes) and is honoured by the loop *)
Definition ex_nested : C13_case :=
  {| c_nps := [1%nat; 1%nat; 1%nat]; c_ncs := [1%nat; 1%nat; 1%nat];
     c_ops :=
       [ top0;
         (OStart [fr 0 [] (ASwitch 1 false false true); fr 8 [] ANormal] EndQuit
                 [(KOut, ASwitch 2 false false true)],
          [EClock 0 1 0; EProc 1 0%nat 0; EAct OProc (ASwitch 1 false false true) 1 0;
           ELoad 1 2; EEv 1 (VOut 1 2);
           EAct (OCallback KOut false) (ASwitch 2 false false true) 1 0;
           ELoad 2 3; EEv 1 (VOut 1 3); EEv 3 (VLoad 2 3); EEv 3 (VIn 1 3);
           EClock 8 3 2; EProc 3 0%nat 8; ECoro 3 0%nat; EClockEnd EndQuit 3 2; EEnd (Returned false) 3 2]) ] |}.
Example C13_nested_nonvacuous :
  wf_b ex_nested = true /\ known13_b ex_nested = false /\ accepts ex_nested = true /\
  holds13_b ex_nested = true.
Proof. vm_compute. auto. Qed.

(* known finding K5: switch(h, clear_next=True) - on_switch_in is queued on
   instance 2, which the loop discards; instance 3 runs and never hears it *)
Definition k5_witness : C13_case :=
  {| c_nps := [1%nat; 1%nat]; c_ncs := [1%nat; 1%nat];
     c_ops :=
       [ top0;
         (OStart [fr 0 [] (ASwitch 1 false true true); fr 8 [] ANormal] EndQuit [],
          [EClock 0 1 0; EProc 1 0%nat 0; EAct OProc (ASwitch 1 false true true) 1 0;
           ELoad 1 2; EEv 1 (VOut 1 2); ELoad 1 3; EEv 3 (VLoad 1 3);
           EClock 8 3 1; EProc 3 0%nat 8; ECoro 3 0%nat; EClockEnd EndQuit 3 1; EEnd (Returned false) 3 1]) ] |}.
Theorem C13_clear_next_refuted :
  exists c, wf_b c = true /\ known13_b c = true /\ accepts c = true /\ holds13_b c = false.
Proof. exists k5_witness. vm_compute. auto. Qed.

(* the second form of K5: clear_current when the target is the current handle *)
Definition k5_witness_self : C13_case :=
  {| c_nps := [1%nat]; c_ncs := [1%nat];
     c_ops :=
       [ top0;
         (OStart [fr 0 [] (ASwitch 0 true false false); fr 8 [] ANormal] EndQuit [],
          [EClock 0 1 0; EProc 1 0%nat 0; EAct OProc (ASwitch 0 true false false) 1 0;
           EEv 1 (VOut 1 1); ELoad 0 2; EEv 2 (VLoad 0 2);
           EClock 8 2 0; EProc 2 0%nat 8; ECoro 2 0%nat; EClockEnd EndQuit 2 0; EEnd (Returned false) 2 0]) ] |}.
Theorem C13_clear_current_self_refuted :
  exists c, wf_b c = true /\ known13_b c = true /\ accepts c = true /\ holds13_b c = false.
Proof. exists k5_witness_self. vm_compute. auto. Qed.

(* the former known finding K10 (repaired in /repo by ce4190f): on_switch_in of
   world 2 calls switch(handle 2): world 2 gets on_switch_out(2,3) and is
   muted, world 3 is loaded, entered and gets its on_world_load and
   on_switch_in(2,3); the next iteration processes world 3 *)
Definition chain_case : C13_case :=
  {| c_nps := [1%nat; 1%nat; 1%nat]; c_ncs := [1%nat; 1%nat; 1%nat];
     c_ops :=
       [ top0;
         (OStart [fr 0 [] (ASwitch 1 false false true); fr 8 [] ANormal] EndQuit
                 [(KIn, ASwitch 2 false false false)],
          [EClock 0 1 0; EProc 1 0%nat 0; EAct OProc (ASwitch 1 false false true) 1 0;
           ELoad 1 2; EEv 1 (VOut 1 2); EEv 2 (VLoad 1 2); EEv 2 (VIn 1 2);
           EAct (OCallback KIn true) (ASwitch 2 false false false) 2 1;
           ELoad 2 3; EEv 2 (VOut 2 3); EEv 3 (VLoad 2 3); EEv 3 (VIn 2 3);
           EClock 8 3 2; EProc 3 0%nat 8; ECoro 3 0%nat; EClockEnd EndQuit 3 2; EEnd (Returned false) 3 2]) ] |}.
Example C13_switch_chain_holds :
  wf_b chain_case = true /\ known13_b chain_case = false /\ accepts chain_case = true /\
  holds13_b chain_case = true.
Proof. vm_compute. auto. Qed.
(* what the unrepaired loop did: the request escapes start() as SwitchWorld *)
Example C13_switch_request_escapes_rejected :
  holds13_b {| c_nps := [1%nat; 1%nat; 1%nat]; c_ncs := [1%nat; 1%nat; 1%nat];
               c_ops := [ top0;
                 (OStart [fr 0 [] (ASwitch 1 false false true); fr 8 [] ANormal] EndQuit
                         [(KIn, ARaiseSW 2 false false)],
                  [EClock 0 1 0; EProc 1 0%nat 0; EAct OProc (ASwitch 1 false false true) 1 0;
                   ELoad 1 2; EEv 1 (VOut 1 2); EEv 2 (VLoad 1 2); EEv 2 (VIn 1 2);
                   EAct (OCallback KIn true) (ARaiseSW 2 false false) 2 1;
                   EEnd RaisedSwitch 2 1]) ] |} = false.
Proof. vm_compute. reflexivity. Qed.

(* logs of implementations that break the property are rejected by the
   checker.  (a) the world left is not muted *)
Definition sw1 := fr 0 [] (ASwitch 1 false false true).
Definition sw1_log := [EClock 0 1 0; EProc 1 0%nat 0; EAct OProc (ASwitch 1 false false true) 1 0;
                       ELoad 1 2; EEv 1 (VOut 1 2); EEv 2 (VLoad 1 2); EEv 2 (VIn 1 2)].
Example C13_left_world_not_muted_rejected :
  holds13_b {| c_nps := [1%nat; 1%nat]; c_ncs := [1%nat; 1%nat];
               c_ops := [ top0;
                 (OStart [sw1; fr 8 [(0, 1)] ANormal] EndQuit [],
                  sw1_log ++ [EClock 8 2 1; EProc 2 0%nat 8; EPoke 0 1 1; EEv 1 (VPoke 1);
                              EClockEnd EndQuit 2 1; EEnd (Returned false) 2 1]) ] |} = false.
Proof. vm_compute. reflexivity. Qed.
(* (b) on_switch_in delivered before the target's own on_world_load *)
Example C13_switch_in_before_load_events_rejected :
  holds13_b {| c_nps := [1%nat; 1%nat]; c_ncs := [1%nat; 1%nat];
               c_ops := [ top0;
                 (OStart [sw1] EndQuit [],
                  [EClock 0 1 0; EProc 1 0%nat 0; EAct OProc (ASwitch 1 false false true) 1 0;
                   ELoad 1 2; EEv 1 (VOut 1 2); EEv 2 (VIn 1 2); EEv 2 (VLoad 1 2);
                   EClockEnd EndQuit 2 1; EEnd (Returned false) 2 1]) ] |} = false.
Proof. vm_compute. reflexivity. Qed.
(* (c) the wrong world is enabled: the entered instance stays silent *)
Example C13_entered_world_silent_rejected :
  holds13_b {| c_nps := [1%nat; 1%nat]; c_ncs := [1%nat; 1%nat];
               c_ops := [ top0;
                 (OStart [sw1] EndQuit [],
                  [EClock 0 1 0; EProc 1 0%nat 0; EAct OProc (ASwitch 1 false false true) 1 0;
                   ELoad 1 2; EEv 1 (VOut 1 2);
                   EClockEnd EndQuit 2 1; EEnd (Returned false) 2 1]) ] |} = false.
Proof. vm_compute. reflexivity. Qed.
(* (d) the frame is not abandoned: a later processor still runs *)
Example C13_frame_not_abandoned_rejected :
  holds13_b {| c_nps := [2%nat; 1%nat]; c_ncs := [1%nat; 1%nat];
               c_ops := [ top0;
                 (OStart [sw1] EndQuit [],
                  sw1_log ++ [EProc 1 1%nat 0;
                              EClockEnd EndQuit 2 1; EEnd (Returned false) 2 1]) ] |} = false.
Proof. vm_compute. reflexivity. Qed.
(* (e) a handle cleared by clear_current is not reloaded *)
Example C13_cleared_handle_not_fresh_rejected :
  holds13_b {| c_nps := [1%nat; 1%nat]; c_ncs := [1%nat; 1%nat];
               c_ops := [ top0;
                 (OStart [fr 0 [] (ARaiseSW 1 true false); fr 1 [] (ARaiseSW 0 false false)]
                         EndQuit [],
                  [EClock 0 1 0; EProc 1 0%nat 0; EAct OProc (ARaiseSW 1 true false) 1 0;
                   ELoad 1 2; EEv 2 (VLoad 1 2);
                   EClock 1 2 1; EProc 2 0%nat 1; EAct OProc (ARaiseSW 0 false false) 2 1;
                   EClockEnd EndQuit 1 0; EEnd (Returned false) 1 0]) ] |} = false.
Proof. vm_compute. reflexivity. Qed.
(* (f) the old dispatch_enabled setter (events delivered before a raising
   callback are delivered again at the next enable): on_world_load of world 2
   comes a second time when world 2 is entered again *)
Example C13_redelivery_after_raising_callback_rejected :
  holds13_b {| c_nps := [1%nat; 1%nat]; c_ncs := [1%nat; 1%nat];
               c_ops := [ top0;
                 (OStart [sw1] EndQuit [(KIn, AQuit)],
                  sw1_log ++ [EAct (OCallback KIn true) AQuit 2 1; EEnd (Returned false) 2 1]);
                 (OStart [fr 16 [] (ASwitch 0 false false true);
                          fr 17 [] (ASwitch 1 false false true)] EndQuit [],
                  [EClock 16 2 1; EProc 2 0%nat 0; EAct OProc (ASwitch 0 false false true) 2 1;
                   EEv 2 (VOut 2 1); EEv 1 (VIn 2 1);
                   EClock 17 1 0; EProc 1 0%nat 1; EAct OProc (ASwitch 1 false false true) 1 0;
                   EEv 1 (VOut 1 2); EEv 2 (VLoad 1 2); EEv 2 (VIn 1 2); EEv 2 (VIn 1 2);
                   EClockEnd EndQuit 2 1; EEnd (Returned false) 2 1]) ] |} = false.
Proof. vm_compute. reflexivity. Qed.
(* (g) the frame is abandoned at coroutine granularity: coroutine 0 of world 1
   requests the switch, coroutine 1 behind it must not run any more *)
Definition co0 := {| f_t := 0; f_pokes := []; f_pos := 0%nat; f_org := OCoro;
                     f_act := ASwitch 1 false false true |}.
Example C13_coroutine_switch_holds :
  let c := {| c_nps := [1%nat; 1%nat]; c_ncs := [2%nat; 1%nat];
              c_ops := [ top0;
                (OStart [co0] EndQuit [],
                 [EClock 0 1 0; EProc 1 0%nat 0; ECoro 1 0%nat;
                  EAct OCoro (ASwitch 1 false false true) 1 0;
                  ELoad 1 2; EEv 1 (VOut 1 2); EEv 2 (VLoad 1 2); EEv 2 (VIn 1 2);
                  EClockEnd EndQuit 2 1; EEnd (Returned false) 2 1]) ] |} in
  wf_b c = true /\ accepts c = true /\ holds13_b c = true.
Proof. vm_compute. auto. Qed.
Example C13_coroutines_behind_the_switch_still_run_rejected :
  holds13_b {| c_nps := [1%nat; 1%nat]; c_ncs := [2%nat; 1%nat];
               c_ops := [ top0;
                 (OStart [co0] EndQuit [],
                  [EClock 0 1 0; EProc 1 0%nat 0; ECoro 1 0%nat;
                   EAct OCoro (ASwitch 1 false false true) 1 0;
                   ELoad 1 2; EEv 1 (VOut 1 2); ECoro 1 1%nat; EEv 2 (VLoad 1 2); EEv 2 (VIn 1 2);
                   EClockEnd EndQuit 2 1; EEnd (Returned false) 2 1]) ] |} = false.
Proof. vm_compute. reflexivity. Qed.
