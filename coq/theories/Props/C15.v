(* C15 - A loaded world contains exactly what its description says.
   Statement file: theorems only, each closed by [exact]. *)
From Coq Require Import ZArith List Bool.
From Desper Require Import Lib.Alist Loader.Value Loader.C15Model Loader.C15Lemmas Loader.C15Proofs.
Import ListNotations.
Open Scope Z_scope.

(* For every well-formed description, namespace and resource tree - any
   number of processors, entities, components, args, kwargs, arbitrary JSON
   argument values - a load that the model of WorldHandle.load / the three
   dict transformers / populate_world_from_dict / World accepts satisfies the
   one-pass reading of the description ([spec_ok]): exactly the listed
   constructor calls in order, each argument being [subst_spec] of the
   described one; processors = the two default ones then the listed ones;
   every non-empty listed entity present once with exactly its components,
   under the given id; dispatching disabled; after enabling, per handler
   component on_add(entity, world) once then on_world_load(handle, world)
   once and nothing else.  The load may abort only when some argument is of
   an open form (begins with a marker, is not of the exact form). *)
Theorem C15_load_is_spec :
  forall c : C15_case, wf_b c = true -> known_b c = false -> accepts c = true -> holds c.
Proof. exact accepts_holds. Qed.
Print Assumptions C15_load_is_spec.

(* The same with the observation eliminated: the three-pass pipeline's own
   result satisfies the one-pass specification. *)
Theorem C15_pipeline_meets_spec :
  forall E ds, wf_b (Case E ds (model E ds)) = true -> known_b (Case E ds (model E ds)) = false ->
               holds_b (Case E ds (model E ds)) = true.
Proof. exact model_holds. Qed.
Print Assumptions C15_pipeline_meets_spec.

(* ---- what [holds] means on raw observations ---------------------------------- *)
(* the j-th described dict (processors first, then the components entity by
   entity) is the j-th constructor call; its i-th positional argument is
   exactly what [subst_spec] prescribes, and there are no further arguments *)
Theorem C15_positional_argument :
  forall c w j d i a v,
    holds c -> c_obs c = OOk w -> nth_error (all_dicts (c_desc c)) j = Some d ->
    nth_error (optl (d_args d)) i = Some a -> subst_spec (c_env c) a = Exactly v ->
    exists k, nth_error (o_constr w) j = Some k /\ nth_error (k_args k) i = Some v
              /\ length (k_args k) = length (optl (d_args d)).
Proof. exact holds_arg. Qed.
Print Assumptions C15_positional_argument.

Theorem C15_keyword_argument :
  forall c w j d i key a v,
    holds c -> c_obs c = OOk w -> nth_error (all_dicts (c_desc c)) j = Some d ->
    nth_error (optl (d_kwargs d)) i = Some (key, a) -> subst_spec (c_env c) a = Exactly v ->
    exists k, nth_error (o_constr w) j = Some k /\ nth_error (k_kwargs k) i = Some (key, v)
              /\ length (k_kwargs k) = length (optl (d_kwargs d)).
Proof. exact holds_kwarg. Qed.
Print Assumptions C15_keyword_argument.

Theorem C15_no_extra_objects :
  forall c w, holds c -> c_obs c = OOk w ->
    length (o_constr w) = length (all_dicts (c_desc c)).
Proof. exact holds_counts. Qed.

(* processors = defaults then the listed instances in order; dispatching
   disabled; entity ids pairwise distinct *)
Theorem C15_world_shape :
  forall c w, holds c -> c_obs c = OOk w ->
    o_procs w = -1 :: -2 :: zseq 0 (length (proc_dicts (c_desc c))) /\ o_enabled w = false /\
    NoDup (map fst (o_ents w)).
Proof. exact holds_world. Qed.
Print Assumptions C15_world_shape.

(* the entities are the listed non-empty ones, in order, under the given ids
   ([spec_ents] succeeds), and the callbacks of each component instance are
   exactly on_add (if handled) then on_world_load (if handled) *)
Theorem C15_callbacks :
  forall c w, holds c -> c_obs c = OOk w ->
    exists table,
      spec_ents (c_env c) (optl (w_ents (c_desc c)))
                (Z.of_nat (length (proc_dicts (c_desc c)))) (o_ents w) = Some table /\
      (forall x, In x table -> cbs_of (fst x) (o_cbs w) = expected_cbs x) /\
      (forall cb0, In cb0 (o_cbs w) -> exists x, In x table /\ fst x = cb_inst cb0).
Proof. exact holds_callbacks. Qed.
Print Assumptions C15_callbacks.

(* [subst_spec] on the literal forms: "${" body "}", "$res{" body "}",
   "$handle{" body "}" with a non-empty body free of '}' and newline;
   strings that do not begin with a marker; non-strings *)
Theorem C15_form_object :
  forall E b e, clean_body b -> slookup b (c_ns E) = Some e ->
    subst_spec E (JStr (m_obj ++ b ++ [125])) = Exactly (n_val e).
Proof. exact form_object. Qed.

Theorem C15_form_resource :
  forall E b h r, clean_body b -> slookup (dots_to_slashes b) (c_tree E) = Some (NHandle h r) ->
    subst_spec E (JStr (m_res ++ b ++ [125])) = Exactly (JRef KRes r) /\
    subst_spec E (JStr (m_handle ++ b ++ [125])) = Exactly (JRef KHandle h).
Proof. exact form_resource. Qed.

Theorem C15_form_plain :
  forall E s, starts_with m_obj s = false -> starts_with m_res s = false ->
              starts_with m_handle s = false -> subst_spec E (JStr s) = Exactly (JStr s).
Proof. exact form_plain. Qed.

Theorem C15_form_nonstring :
  forall E a, (forall s, a <> JStr s) -> subst_spec E a = Exactly a.
Proof. exact form_nonstring. Qed.
Print Assumptions C15_form_resource.

(* the regex model on the exact forms: the match exists and its group is the body *)
Theorem C15_match_exact :
  forall m b, clean_body b -> match_prefix m (m ++ b ++ [125]) = Some b.
Proof. exact match_exact. Qed.

(* ---- non-vacuity and sensitivity --------------------------------------------------- *)
(* a real load of /repo (processor with an argument; entity "hero" with a
   handler component built from ${vns.o0}, $res{r1}, a look-alike, a nested
   list and k1=$handle{r1}; a second entity with an automatic id) *)
Definition ex_ok : C15_case :=
  (Case (Env [([118; 110; 115], NS (JRef KNoCopy 0) CNone); ([118; 110; 115; 46; 67; 48], NS (JRef
    KObj 1) (CComp true true)); ([118; 110; 115; 46; 80; 48], NS (JRef KObj 2) CProc); ([118;
    110; 115; 46; 111; 48], NS (JRef KObj 3) CNone)] [([114; 49], NHandle 0 100)] 2) (DS (Some
    [(DD [118; 110; 115; 46; 80; 48] (Some [(JNum 1)]) None)]) (Some [(ED (Some (JStr [104; 101;
    114; 111])) (Some [(DD [118; 110; 115; 46; 67; 48] (Some [(JStr [36; 123; 118; 110; 115; 46;
    111; 48; 125]); (JStr [36; 114; 101; 115; 123; 114; 49; 125]); (JStr [120; 36; 123; 118;
    110; 115; 46; 111; 48; 125]); (JList [(JStr [36; 123; 118; 110; 115; 46; 111; 48; 125])])])
    (Some [(4, (JStr [36; 104; 97; 110; 100; 108; 101; 123; 114; 49; 125]))]))])); (ED None
    (Some [(DD [118; 110; 115; 46; 67; 48] None None)]))])) (OOk (WO [(K 2 [(JNum 1)] []); (K 1
    [(JRef KObj 3); (JRef KRes 100); (JStr [120; 36; 123; 118; 110; 115; 46; 111; 48; 125]);
    (JList [(JStr [36; 123; 118; 110; 115; 46; 111; 48; 125])])] [(4, (JRef KHandle 0))]); (K 1
    [] [])] [(-1); (-2); 0] [((JStr [104; 101; 114; 111]), [1]); ((JNum 1), [2])] false [(CB 1 0
    (JStr [104; 101; 114; 111]) true); (CB 2 0 (JNum 1) true); (CB 1 1 JNull true); (CB 2 1
    JNull true)]))).
Example C15_nonvacuous : wf_b ex_ok = true /\ known_b ex_ok = false /\ accepts ex_ok = true.
Proof. vm_compute. auto. Qed.

(* the same description loaded by a copy of desper that uses .search instead
   of .match: the look-alike "x${vns.o0}" was substituted *)
Definition ex_search : C15_case :=
  (Case (Env [([118; 110; 115], NS (JRef KNoCopy 0) CNone); ([118; 110; 115; 46; 67; 48], NS (JRef
    KObj 1) (CComp true true)); ([118; 110; 115; 46; 80; 48], NS (JRef KObj 2) CProc); ([118;
    110; 115; 46; 111; 48], NS (JRef KObj 3) CNone)] [([114; 49], NHandle 0 100)] 2) (DS (Some
    [(DD [118; 110; 115; 46; 80; 48] (Some [(JNum 1)]) None)]) (Some [(ED (Some (JStr [104; 101;
    114; 111])) (Some [(DD [118; 110; 115; 46; 67; 48] (Some [(JStr [36; 123; 118; 110; 115; 46;
    111; 48; 125]); (JStr [36; 114; 101; 115; 123; 114; 49; 125]); (JStr [120; 36; 123; 118;
    110; 115; 46; 111; 48; 125]); (JList [(JStr [36; 123; 118; 110; 115; 46; 111; 48; 125])])])
    (Some [(4, (JStr [36; 104; 97; 110; 100; 108; 101; 123; 114; 49; 125]))]))])); (ED None
    (Some [(DD [118; 110; 115; 46; 67; 48] None None)]))])) (OOk (WO [(K 2 [(JNum 1)] []); (K 1
    [(JRef KObj 3); (JRef KRes 100); (JRef KObj 3); (JList [(JStr [36; 123; 118; 110; 115; 46;
    111; 48; 125])])] [(4, (JRef KHandle 0))]); (K 1 [] [])] [(-1); (-2); 0] [((JStr [104; 101;
    114; 111]), [1]); ((JNum 1), [2])] false [(CB 1 0 (JStr [104; 101; 114; 111]) true); (CB 2 0
    (JNum 1) true); (CB 1 1 JNull true); (CB 2 1 JNull true)]))).
Example C15_search_rejected :
  wf_b ex_search = true /\ known_b ex_search = false /\ holds_b ex_search = false /\ accepts ex_search = false.
Proof. vm_compute. auto. Qed.

(* K6: "${vns}" names a module; copy.deepcopy at the start of the next
   transformer pass raises TypeError and the load is aborted.  The model
   mirrors the defect, the property does not hold. *)
Definition ex_k6 : C15_case :=
  (Case (Env [([118; 110; 115], NS (JRef KNoCopy 0) CNone); ([118; 110; 115; 46; 67; 48], NS (JRef
    KObj 1) (CComp true true)); ([118; 110; 115; 46; 80; 48], NS (JRef KObj 2) CProc); ([118;
    110; 115; 46; 111; 48], NS (JRef KObj 3) CNone)] [([114; 49], NHandle 0 100)] 1) (DS None
    (Some [(ED None (Some [(DD [118; 110; 115; 46; 67; 48] (Some [(JStr [36; 123; 118; 110; 115;
    125])]) None)]))])) OErr).
Theorem C15_K6_deepcopy_refuted :
  exists c, wf_b c = true /\ known_b c = true /\ accepts c = true /\ holds_b c = false.
Proof. exists ex_k6. vm_compute. auto. Qed.
