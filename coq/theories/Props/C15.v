(* C15 - A loaded world contains exactly what its description says.
   Statement file: theorems only, each closed by [exact]. *)
From Coq Require Import ZArith List Bool.
From Desper Require Import Lib.Alist Loader.Value Loader.C15Model Loader.C15Lemmas Loader.C15Proofs.
Import ListNotations.
Open Scope Z_scope.

(* The case says how the world is loaded ([c_load]):
     LFile d            WorldFromFileHandle(file)()
     LHandle steps      a WorldHandle whose transform functions are [steps] (default
                        processors, WorldFromFileTransformer with ANY list of dict
                        transformers, user functions calling populate_world_from_dict,
                        marking user functions), called
     LDirect en steps   populate_world_from_dict called directly, once per step, on a
                        World whose dispatching is [en]
   For every way of loading, every well-formed description(s), namespace and resource
   tree - any number of processors, entities, components, args, kwargs, arbitrary
   argument values - a load that the model (the transform functions in order, the dict
   transformer passes with their deepcopy, populate_world_from_dict, World) accepts
   satisfies the declarative reading ([spec_ok]): exactly the listed constructor calls
   in order, each argument being [expected] of the described one (file with the default
   transformers: the one-pass [subst_spec]; custom list: exactly these passes in this
   order; dictionary: the argument itself); processors in the order the steps add them
   (file handle: the two default ones, then the listed ones); every non-empty listed
   entity present once with exactly its components, under the given id; dispatching
   disabled after a handle's load (untouched by a direct call); user transform functions
   called in order with (handle, world); per handler component on_add(entity, world)
   once, then - handle only - on_world_load(handle, world) once, and nothing else.
   A load may abort only when some argument is of an open form.
   A handle is loaded one or more times (h(), h.clear(), h() again, h.load()):
   EVERY load returns a World instance not seen before and satisfies the whole
   specification again - new instances, ids from 1, callbacks and marks once per
   loaded world; "$res{..}" names the one resource its handle holds, "$handle{..}"
   the same handle, in every load.  Between the loads the files may be rewritten: each
   load is judged against its own description.  A load whose description makes user
   code raise (a constructor that refuses), or names a ${..} / $res{..} that does not
   exist, MUST raise; it leaves the handle uncached and the next load is judged on its
   own. *)
Theorem C15_load_is_spec :
  forall c : C15_case, wf_b c = true -> known_b c = false -> accepts c = true -> holds c.
Proof. exact accepts_holds. Qed.
Print Assumptions C15_load_is_spec.

(* The same with the observation eliminated: the pipeline's own result satisfies the
   specification, for every way of loading. *)
Theorem C15_pipeline_meets_spec :
  forall E k, wf_k E k = true -> known_k E k = false -> holds1 E k (model E k) = true.
Proof. exact model_holds. Qed.
Print Assumptions C15_pipeline_meets_spec.

(* every load of the case: the n-th load returned a World instance no earlier load
   returned (or raised and left the handle uncached) and satisfies the specification
   ([holds1]) for the description that was in the files at ITS time *)
Theorem C15_every_load :
  forall c n k i o, holds c -> nth_error (c_loads c) n = Some (k, (i, o)) ->
    i = Z.of_nat n /\ holds1 (c_env c) k o = true.
Proof. exact holds_every_load. Qed.
Print Assumptions C15_every_load.

(* ---- what [holds1] means on the raw observations of one load ------------------- *)
(* the j-th described dict (in construction order over all steps) is the j-th
   constructor call; its i-th positional argument is exactly what [expected]
   prescribes, and there are no further arguments *)
Theorem C15_positional_argument :
  forall E k w j h d i a v,
    holds1 E k (OOk w) = true -> nth_error (all_hdicts (steps_of k)) j = Some (h, d) ->
    nth_error (optl (d_args d)) i = Some a -> expected E h a = Exactly v ->
    exists kc, nth_error (o_constr w) j = Some kc /\ nth_error (k_args kc) i = Some v
               /\ length (k_args kc) = length (optl (d_args d)).
Proof. exact holds_arg. Qed.
Print Assumptions C15_positional_argument.

Theorem C15_keyword_argument :
  forall E k w j h d i key a v,
    holds1 E k (OOk w) = true -> nth_error (all_hdicts (steps_of k)) j = Some (h, d) ->
    nth_error (optl (d_kwargs d)) i = Some (key, a) -> expected E h a = Exactly v ->
    exists kc, nth_error (o_constr w) j = Some kc /\ nth_error (k_kwargs kc) i = Some (key, v)
               /\ length (k_kwargs kc) = length (optl (d_kwargs d)).
Proof. exact holds_kwarg. Qed.
Print Assumptions C15_keyword_argument.

Theorem C15_no_extra_objects :
  forall E k w, holds1 E k (OOk w) = true ->
    length (o_constr w) = length (all_hdicts (steps_of k)).
Proof. exact holds_counts. Qed.

(* processors in the order the steps add them; dispatching; the user transform
   functions were each called once, in order, with (handle, world); ids distinct *)
Theorem C15_world_shape :
  forall E k w, holds1 E k (OOk w) = true ->
    o_procs w = exp_procs (steps_of k) 0 /\
    o_enabled w = init_enabled k /\
    o_marks w = exp_marks (steps_of k) /\
    NoDup (map fst (o_ents w)).
Proof. exact holds_world. Qed.
Print Assumptions C15_world_shape.

(* the entities are the listed non-empty ones of all steps, in order, under the
   given ids ([spec_items] succeeds), and the callbacks of each component instance
   are exactly on_add (if handled) then - handle only - on_world_load (if handled) *)
Theorem C15_callbacks :
  forall E k w, holds1 E k (OOk w) = true ->
    exists table,
      spec_items E (flat_map step_items (steps_of k)) 0 (o_ents w) = Some table /\
      (forall x, In x table ->
         cbs_of (fst x) (o_cbs w) = expected_cbs (via_handle k) x) /\
      (forall cb0, In cb0 (o_cbs w) -> exists x, In x table /\ fst x = cb_inst cb0).
Proof. exact holds_callbacks. Qed.
Print Assumptions C15_callbacks.

(* ---- error paths -------------------------------------------------------------------------- *)
(* a world that was returned contains no instance whose constructor would have
   raised, and none of its described arguments names something that does not exist *)
Theorem C15_no_raising_constructor :
  forall E k w, holds1 E k (OOk w) = true -> existsb raises_constr (o_constr w) = false.
Proof. exact holds_no_raise. Qed.

Theorem C15_dangling_reference_aborts :
  forall E k w j h d i a,
    holds1 E k (OOk w) = true -> nth_error (all_hdicts (steps_of k)) j = Some (h, d) ->
    nth_error (optl (d_args d)) i = Some a -> expected E h a <> MustFail.
Proof. exact holds_no_dangling. Qed.

(* a load that raised has a cause in its description: an open-form argument, a
   reference that names nothing, or a constructor that refuses its first argument *)
Theorem C15_abort_has_cause :
  forall E k, holds1 E k OErr = true -> has_open E (steps_of k) = true.
Proof. exact abort_has_cause. Qed.
Print Assumptions C15_dangling_reference_aborts.

(* ---- the three ways of loading ------------------------------------------------------ *)
(* JSON file through WorldFromFileHandle: the one-pass substitution, the default
   processors first, dispatching disabled *)
Theorem C15_file_argument :
  forall E ds w j d i a v,
    holds1 E (LFile ds) (OOk w) = true -> nth_error (all_dicts ds) j = Some d ->
    nth_error (optl (d_args d)) i = Some a -> subst_spec E a = Exactly v ->
    exists kc, nth_error (o_constr w) j = Some kc /\ nth_error (k_args kc) i = Some v
               /\ length (k_args kc) = length (optl (d_args d)).
Proof. exact file_arg. Qed.

Theorem C15_file_keyword_argument :
  forall E ds w j d i key a v,
    holds1 E (LFile ds) (OOk w) = true -> nth_error (all_dicts ds) j = Some d ->
    nth_error (optl (d_kwargs d)) i = Some (key, a) -> subst_spec E a = Exactly v ->
    exists kc, nth_error (o_constr w) j = Some kc /\ nth_error (k_kwargs kc) i = Some (key, v)
               /\ length (k_kwargs kc) = length (optl (d_kwargs d)).
Proof. exact file_kwarg. Qed.

Theorem C15_file_world :
  forall E ds w, holds1 E (LFile ds) (OOk w) = true ->
    o_procs w = -1 :: -2 :: zseq 0 (length (proc_dicts ds)) /\ o_enabled w = false /\
    NoDup (map fst (o_ents w)).
Proof. exact file_world. Qed.
Print Assumptions C15_file_world.

(* dictionary handed to populate_world_from_dict: no argument is substituted,
   whatever it looks like *)
Theorem C15_dictionary_argument_untouched :
  forall E a, expected E HDict a = Exactly a.
Proof. exact dict_expected. Qed.

(* WorldFromFileTransformer with a custom list of dict transformers: exactly
   these passes, in this order, each read declaratively ([spec_pass]); for the
   default list this is the one-pass reading *)
Theorem C15_custom_passes_in_order :
  forall E ps a, ns_wf E = true -> expected E (HFile ps) a = spec_fold E ps (Exactly a).
Proof. exact custom_expected. Qed.

Theorem C15_default_passes_one_pass :
  forall E a, ns_wf E = true -> spec_fold E default_passes (Exactly a) = subst_spec E a.
Proof. exact fold_default_one_pass. Qed.
Print Assumptions C15_default_passes_one_pass.

(* [subst_spec] on the literal forms: "${" body "}", "$res{" body "}",
   "$handle{" body "}" with a non-empty body free of '}' and newline;
   strings that do not begin with a marker; non-strings *)
Theorem C15_form_object :
  forall E b e, clean_body b -> slookup b (c_ns E) = Some e ->
    subst_spec E (JStr (m_obj ++ b ++ [125])) = Exactly (n_val e).
Proof. exact form_object. Qed.

Theorem C15_form_resource :
  forall E b h r, clean_body b -> slookup (dots_to_slashes b) (c_tree E) = Some (NHandle h r) ->
    subst_spec E (JStr (m_res ++ b ++ [125])) = Exactly (JRef KRes r) /\
    subst_spec E (JStr (m_handle ++ b ++ [125])) = Exactly (JRef KHandle h).
Proof. exact form_resource. Qed.

Theorem C15_form_plain :
  forall E s, starts_with m_obj s = false -> starts_with m_res s = false ->
              starts_with m_handle s = false -> subst_spec E (JStr s) = Exactly (JStr s).
Proof. exact form_plain. Qed.

Theorem C15_form_nonstring :
  forall E a, (forall s, a <> JStr s) -> subst_spec E a = Exactly a.
Proof. exact form_nonstring. Qed.
Print Assumptions C15_form_resource.

(* the regex model on the exact forms: the match exists and its group is the body *)
Theorem C15_match_exact :
  forall m b, clean_body b -> match_prefix m (m ++ b ++ [125]) = Some b.
Proof. exact match_exact. Qed.

(* ---- non-vacuity and sensitivity --------------------------------------------------- *)
(* three real loads of /repo: h(), h.clear(); h(), h.load() (processor with an argument; entity "hero" with a
   handler component built from ${vns.o0}, $res{r1}, a look-alike, a nested
   list and k1=$handle{r1}; a second entity with an automatic id) *)
Definition ex_ok : C15_case :=
  (Case (Env [([118; 110; 115], NS (JRef KNoCopy 0) CNone); ([118; 110; 115; 46; 67; 48], NS (JRef
    KObj 1) (CComp true true)); ([118; 110; 115; 46; 80; 48], NS (JRef KObj 2) CProc); ([118;
    110; 115; 46; 111; 48], NS (JRef KObj 3) CNone); ([118; 110; 115; 46; 80; 49], NS (JRef KObj
    4) CProc)] [([114; 49], NHandle 0 100)] 2) [((LFile (DS (Some [(DD [118; 110; 115; 46; 80;
    48] (Some [(JNum 1)]) None)]) (Some [(ED (Some (JStr [104; 101; 114; 111])) (Some [(DD [118;
    110; 115; 46; 67; 48] (Some [(JStr [36; 123; 118; 110; 115; 46; 111; 48; 125]); (JStr [36;
    114; 101; 115; 123; 114; 49; 125]); (JStr [120; 36; 123; 118; 110; 115; 46; 111; 48; 125]);
    (JList [(JStr [36; 123; 118; 110; 115; 46; 111; 48; 125])])]) (Some [(4, (JStr [36; 104; 97;
    110; 100; 108; 101; 123; 114; 49; 125]))]))])); (ED None (Some [(DD [118; 110; 115; 46; 67;
    48] None None)]))]))), (0, (OOk (WO [(K 2 [(JNum 1)] []); (K 1 [(JRef KObj 3); (JRef KRes
    100); (JStr [120; 36; 123; 118; 110; 115; 46; 111; 48; 125]); (JList [(JStr [36; 123; 118;
    110; 115; 46; 111; 48; 125])])] [(4, (JRef KHandle 0))]); (K 1 [] [])] [(-1); (-2); 0]
    [((JStr [104; 101; 114; 111]), [1]); ((JNum 1), [2])] false [(CB 1 0 (JStr [104; 101; 114;
    111]) true); (CB 2 0 (JNum 1) true); (CB 1 1 JNull true); (CB 2 1 JNull true)] []))));
    ((LFile (DS (Some [(DD [118; 110; 115; 46; 80; 48] (Some [(JNum 1)]) None)]) (Some [(ED
    (Some (JStr [104; 101; 114; 111])) (Some [(DD [118; 110; 115; 46; 67; 48] (Some [(JStr [36;
    123; 118; 110; 115; 46; 111; 48; 125]); (JStr [36; 114; 101; 115; 123; 114; 49; 125]); (JStr
    [120; 36; 123; 118; 110; 115; 46; 111; 48; 125]); (JList [(JStr [36; 123; 118; 110; 115; 46;
    111; 48; 125])])]) (Some [(4, (JStr [36; 104; 97; 110; 100; 108; 101; 123; 114; 49;
    125]))]))])); (ED None (Some [(DD [118; 110; 115; 46; 67; 48] None None)]))]))), (1, (OOk
    (WO [(K 2 [(JNum 1)] []); (K 1 [(JRef KObj 3); (JRef KRes 100); (JStr [120; 36; 123; 118;
    110; 115; 46; 111; 48; 125]); (JList [(JStr [36; 123; 118; 110; 115; 46; 111; 48; 125])])]
    [(4, (JRef KHandle 0))]); (K 1 [] [])] [(-1); (-2); 0] [((JStr [104; 101; 114; 111]), [1]);
    ((JNum 1), [2])] false [(CB 1 0 (JStr [104; 101; 114; 111]) true); (CB 2 0 (JNum 1) true);
    (CB 1 1 JNull true); (CB 2 1 JNull true)] [])))); ((LFile (DS (Some [(DD [118; 110; 115; 46;
    80; 48] (Some [(JNum 1)]) None)]) (Some [(ED (Some (JStr [104; 101; 114; 111])) (Some [(DD
    [118; 110; 115; 46; 67; 48] (Some [(JStr [36; 123; 118; 110; 115; 46; 111; 48; 125]); (JStr
    [36; 114; 101; 115; 123; 114; 49; 125]); (JStr [120; 36; 123; 118; 110; 115; 46; 111; 48;
    125]); (JList [(JStr [36; 123; 118; 110; 115; 46; 111; 48; 125])])]) (Some [(4, (JStr [36;
    104; 97; 110; 100; 108; 101; 123; 114; 49; 125]))]))])); (ED None (Some [(DD [118; 110; 115;
    46; 67; 48] None None)]))]))), (2, (OOk (WO [(K 2 [(JNum 1)] []); (K 1 [(JRef KObj 3); (JRef
    KRes 100); (JStr [120; 36; 123; 118; 110; 115; 46; 111; 48; 125]); (JList [(JStr [36; 123;
    118; 110; 115; 46; 111; 48; 125])])] [(4, (JRef KHandle 0))]); (K 1 [] [])] [(-1); (-2); 0]
    [((JStr [104; 101; 114; 111]), [1]); ((JNum 1), [2])] false [(CB 1 0 (JStr [104; 101; 114;
    111]) true); (CB 2 0 (JNum 1) true); (CB 1 1 JNull true); (CB 2 1 JNull true)] []))))]).
Example C15_nonvacuous : wf_b ex_ok = true /\ known_b ex_ok = false /\ accepts ex_ok = true.
Proof. vm_compute. auto. Qed.

(* a real load by a plain WorldHandle: marking function, a user function that
   calls populate_world_from_dict (marker-looking string and a real object as
   arguments), default processors, a WorldFromFileTransformer with the passes
   [resource; type] (so "${vns.o0}" stays a string), marking function *)
Definition ex_handle : C15_case :=
  (Case (Env [([118; 110; 115], NS (JRef KNoCopy 0) CNone); ([118; 110; 115; 46; 67; 48], NS (JRef
    KObj 1) (CComp true true)); ([118; 110; 115; 46; 80; 48], NS (JRef KObj 2) CProc); ([118;
    110; 115; 46; 111; 48], NS (JRef KObj 3) CNone); ([118; 110; 115; 46; 80; 49], NS (JRef KObj
    4) CProc)] [([114; 49], NHandle 0 100)] 1) [((LHandle [(SMark 0); (SDict (DS (Some [(DD
    [118; 110; 115; 46; 80; 49] None None)]) (Some [(ED (Some (JNum 7)) (Some [(DD [118; 110;
    115; 46; 67; 48] (Some [(JStr [36; 123; 118; 110; 115; 46; 111; 48; 125]); (JRef KObj 3)])
    None)]))]))); SDefault; (SFile [PRes; PType] (DS (Some [(DD [118; 110; 115; 46; 80; 48] None
    None)]) (Some [(ED None (Some [(DD [118; 110; 115; 46; 67; 48] (Some [(JStr [36; 123; 118;
    110; 115; 46; 111; 48; 125]); (JStr [36; 114; 101; 115; 123; 114; 49; 125])]) None)]))])));
    (SMark 1)]), (0, (OOk (WO [(K 4 [] []); (K 1 [(JStr [36; 123; 118; 110; 115; 46; 111; 48;
    125]); (JRef KObj 3)] []); (K 2 [] []); (K 1 [(JStr [36; 123; 118; 110; 115; 46; 111; 48;
    125]); (JRef KRes 100)] [])] [0; (-1); (-2); 2] [((JNum 7), [1]); ((JNum 1), [3])] false
    [(CB 1 0 (JNum 7) true); (CB 3 0 (JNum 1) true); (CB 1 1 JNull true); (CB 3 1 JNull true)]
    [(0, true); (1, true)])))); ((LHandle [(SMark 0); (SDict (DS (Some [(DD [118; 110; 115; 46;
    80; 49] None None)]) (Some [(ED (Some (JNum 7)) (Some [(DD [118; 110; 115; 46; 67; 48] (Some
    [(JStr [36; 123; 118; 110; 115; 46; 111; 48; 125]); (JRef KObj 3)]) None)]))]))); SDefault;
    (SFile [PRes; PType] (DS (Some [(DD [118; 110; 115; 46; 80; 48] None None)]) (Some [(ED None
    (Some [(DD [118; 110; 115; 46; 67; 48] (Some [(JStr [36; 123; 118; 110; 115; 46; 111; 48;
    125]); (JStr [36; 114; 101; 115; 123; 114; 49; 125])]) None)]))]))); (SMark 1)]), (1, (OOk
    (WO [(K 4 [] []); (K 1 [(JStr [36; 123; 118; 110; 115; 46; 111; 48; 125]); (JRef KObj 3)]
    []); (K 2 [] []); (K 1 [(JStr [36; 123; 118; 110; 115; 46; 111; 48; 125]); (JRef KRes 100)]
    [])] [0; (-1); (-2); 2] [((JNum 7), [1]); ((JNum 1), [3])] false [(CB 1 0 (JNum 7) true);
    (CB 3 0 (JNum 1) true); (CB 1 1 JNull true); (CB 3 1 JNull true)] [(0, true); (1,
    true)]))))]).
Example C15_nonvacuous_handle :
  wf_b ex_handle = true /\ known_b ex_handle = false /\ accepts ex_handle = true.
Proof. vm_compute. auto. Qed.

(* populate_world_from_dict called twice on an enabled World *)
Definition ex_direct : C15_case :=
  (Case (Env [([118; 110; 115], NS (JRef KNoCopy 0) CNone); ([118; 110; 115; 46; 67; 48], NS (JRef
    KObj 1) (CComp true true)); ([118; 110; 115; 46; 80; 48], NS (JRef KObj 2) CProc); ([118;
    110; 115; 46; 111; 48], NS (JRef KObj 3) CNone); ([118; 110; 115; 46; 80; 49], NS (JRef KObj
    4) CProc)] [([114; 49], NHandle 0 100)] 1) [((LDirect true [(SDict (DS None (Some [(ED (Some
    (JStr [97])) (Some [(DD [118; 110; 115; 46; 67; 48] (Some [(JStr [36; 114; 101; 115; 123;
    114; 49; 125])]) None)]))]))); (SDict (DS (Some [(DD [118; 110; 115; 46; 80; 48] None (Some
    [(4, (JStr [36; 123; 118; 110; 115; 46; 111; 48; 125]))]))]) (Some [(ED None (Some [(DD
    [118; 110; 115; 46; 67; 48] (Some [(JRef KObj 3)]) None)]))])))]), (0, (OOk (WO [(K 1 [(JStr
    [36; 114; 101; 115; 123; 114; 49; 125])] []); (K 2 [] [(4, (JStr [36; 123; 118; 110; 115;
    46; 111; 48; 125]))]); (K 1 [(JRef KObj 3)] [])] [1] [((JStr [97]), [0]); ((JNum 1), [2])]
    true [(CB 0 0 (JStr [97]) true); (CB 2 0 (JNum 1) true)] []))))]).
Example C15_nonvacuous_direct :
  wf_b ex_direct = true /\ known_b ex_direct = false /\ accepts ex_direct = true.
Proof. vm_compute. auto. Qed.

(* the same description as ex_ok loaded by a copy of desper that uses .search
   instead of .match: the look-alike "x${vns.o0}" was substituted *)
Definition ex_search : C15_case :=
  (Case (Env [([118; 110; 115], NS (JRef KNoCopy 0) CNone); ([118; 110; 115; 46; 67; 48], NS (JRef
    KObj 1) (CComp true true)); ([118; 110; 115; 46; 80; 48], NS (JRef KObj 2) CProc); ([118;
    110; 115; 46; 111; 48], NS (JRef KObj 3) CNone); ([118; 110; 115; 46; 80; 49], NS (JRef KObj
    4) CProc)] [([114; 49], NHandle 0 100)] 2) [((LFile (DS (Some [(DD [118; 110; 115; 46; 80;
    48] (Some [(JNum 1)]) None)]) (Some [(ED (Some (JStr [104; 101; 114; 111])) (Some [(DD [118;
    110; 115; 46; 67; 48] (Some [(JStr [36; 123; 118; 110; 115; 46; 111; 48; 125]); (JStr [36;
    114; 101; 115; 123; 114; 49; 125]); (JStr [120; 36; 123; 118; 110; 115; 46; 111; 48; 125]);
    (JList [(JStr [36; 123; 118; 110; 115; 46; 111; 48; 125])])]) (Some [(4, (JStr [36; 104; 97;
    110; 100; 108; 101; 123; 114; 49; 125]))]))])); (ED None (Some [(DD [118; 110; 115; 46; 67;
    48] None None)]))]))), (0, (OOk (WO [(K 2 [(JNum 1)] []); (K 1 [(JRef KObj 3); (JRef KRes
    100); (JRef KObj 3); (JList [(JStr [36; 123; 118; 110; 115; 46; 111; 48; 125])])] [(4, (JRef
    KHandle 0))]); (K 1 [] [])] [(-1); (-2); 0] [((JStr [104; 101; 114; 111]), [1]); ((JNum 1),
    [2])] false [(CB 1 0 (JStr [104; 101; 114; 111]) true); (CB 2 0 (JNum 1) true); (CB 1 1
    JNull true); (CB 2 1 JNull true)] []))))]).
Example C15_search_rejected :
  wf_b ex_search = true /\ known_b ex_search = false /\ holds_b ex_search = false /\ accepts ex_search = false.
Proof. vm_compute. auto. Qed.

(* the same description loaded twice (h(), h.clear(), h()) by a copy of desper
   whose load() consumes its transform functions: the second world is empty *)
Definition ex_second_load : C15_case :=
  (Case (Env [([118; 110; 115], NS (JRef KNoCopy 0) CNone); ([118; 110; 115; 46; 67; 48], NS (JRef
    KObj 1) (CComp true true)); ([118; 110; 115; 46; 80; 48], NS (JRef KObj 2) CProc); ([118;
    110; 115; 46; 111; 48], NS (JRef KObj 3) CNone); ([118; 110; 115; 46; 80; 49], NS (JRef KObj
    4) CProc)] [([114; 49], NHandle 0 100)] 2) [((LFile (DS (Some [(DD [118; 110; 115; 46; 80;
    48] (Some [(JNum 1)]) None)]) (Some [(ED (Some (JStr [104; 101; 114; 111])) (Some [(DD [118;
    110; 115; 46; 67; 48] (Some [(JStr [36; 123; 118; 110; 115; 46; 111; 48; 125]); (JStr [36;
    114; 101; 115; 123; 114; 49; 125]); (JStr [120; 36; 123; 118; 110; 115; 46; 111; 48; 125]);
    (JList [(JStr [36; 123; 118; 110; 115; 46; 111; 48; 125])])]) (Some [(4, (JStr [36; 104; 97;
    110; 100; 108; 101; 123; 114; 49; 125]))]))])); (ED None (Some [(DD [118; 110; 115; 46; 67;
    48] None None)]))]))), (0, (OOk (WO [(K 2 [(JNum 1)] []); (K 1 [(JRef KObj 3); (JRef KRes
    100); (JStr [120; 36; 123; 118; 110; 115; 46; 111; 48; 125]); (JList [(JStr [36; 123; 118;
    110; 115; 46; 111; 48; 125])])] [(4, (JRef KHandle 0))]); (K 1 [] [])] [(-1); (-2); 0]
    [((JStr [104; 101; 114; 111]), [1]); ((JNum 1), [2])] false [(CB 1 0 (JStr [104; 101; 114;
    111]) true); (CB 2 0 (JNum 1) true); (CB 1 1 JNull true); (CB 2 1 JNull true)] []))));
    ((LFile (DS (Some [(DD [118; 110; 115; 46; 80; 48] (Some [(JNum 1)]) None)]) (Some [(ED
    (Some (JStr [104; 101; 114; 111])) (Some [(DD [118; 110; 115; 46; 67; 48] (Some [(JStr [36;
    123; 118; 110; 115; 46; 111; 48; 125]); (JStr [36; 114; 101; 115; 123; 114; 49; 125]); (JStr
    [120; 36; 123; 118; 110; 115; 46; 111; 48; 125]); (JList [(JStr [36; 123; 118; 110; 115; 46;
    111; 48; 125])])]) (Some [(4, (JStr [36; 104; 97; 110; 100; 108; 101; 123; 114; 49;
    125]))]))])); (ED None (Some [(DD [118; 110; 115; 46; 67; 48] None None)]))]))), (1, (OOk
    (WO [] [] [] false [] []))))]).
Example C15_empty_second_load_rejected :
  wf_b ex_second_load = true /\ known_b ex_second_load = false /\
  holds_b ex_second_load = false /\ accepts ex_second_load = false.
Proof. vm_compute. auto. Qed.

(* four real loads of one file handle of /repo, the file rewritten in between: a
   constructor that refuses ("!raise"), a name that does not exist, the corrected
   file, the original file.  The first two raise and leave the handle uncached *)
Definition ex_rewritten : C15_case :=
  (Case (Env [([118; 110; 115], NS (JRef KNoCopy 0) CNone); ([118; 110; 115; 46; 67; 48], NS (JRef
    KObj 1) (CComp true true)); ([118; 110; 115; 46; 80; 48], NS (JRef KObj 2) CProc); ([118;
    110; 115; 46; 111; 48], NS (JRef KObj 3) CNone); ([118; 110; 115; 46; 80; 49], NS (JRef KObj
    4) CProc)] [([114; 49], NHandle 0 100)] 1) [((LFile (DS None (Some [(ED None (Some [(DD
    [118; 110; 115; 46; 67; 48] (Some [(JStr [33; 114; 97; 105; 115; 101]); (JNum 1)])
    None)]))]))), (0, OErr)); ((LFile (DS (Some [(DD [118; 110; 115; 46; 80; 49] None (Some [(4,
    (JStr [36; 123; 118; 110; 115; 46; 110; 111; 112; 101; 125]))]))]) None)), (1, OErr));
    ((LFile (DS (Some [(DD [118; 110; 115; 46; 80; 49] None (Some [(4, (JStr [36; 123; 118; 110;
    115; 46; 111; 48; 125]))]))]) (Some [(ED (Some (JNum 3)) (Some [(DD [118; 110; 115; 46; 67;
    48] (Some [(JStr [114; 97; 105; 115; 101]); (JStr [36; 114; 101; 115; 123; 114; 49; 125])])
    None)]))]))), (2, (OOk (WO [(K 4 [] [(4, (JRef KObj 3))]); (K 1 [(JStr [114; 97; 105; 115;
    101]); (JRef KRes 100)] [])] [(-1); (-2); 0] [((JNum 3), [1])] false [(CB 1 0 (JNum 3)
    true); (CB 1 1 JNull true)] [])))); ((LFile (DS (Some [(DD [118; 110; 115; 46; 80; 48] (Some
    [(JNum 1)]) None)]) (Some [(ED (Some (JStr [104; 101; 114; 111])) (Some [(DD [118; 110; 115;
    46; 67; 48] (Some [(JStr [36; 123; 118; 110; 115; 46; 111; 48; 125]); (JStr [36; 114; 101;
    115; 123; 114; 49; 125]); (JStr [120; 36; 123; 118; 110; 115; 46; 111; 48; 125]); (JList
    [(JStr [36; 123; 118; 110; 115; 46; 111; 48; 125])])]) (Some [(4, (JStr [36; 104; 97; 110;
    100; 108; 101; 123; 114; 49; 125]))]))])); (ED None (Some [(DD [118; 110; 115; 46; 67; 48]
    None None)]))]))), (3, (OOk (WO [(K 2 [(JNum 1)] []); (K 1 [(JRef KObj 3); (JRef KRes 100);
    (JStr [120; 36; 123; 118; 110; 115; 46; 111; 48; 125]); (JList [(JStr [36; 123; 118; 110;
    115; 46; 111; 48; 125])])] [(4, (JRef KHandle 0))]); (K 1 [] [])] [(-1); (-2); 0] [((JStr
    [104; 101; 114; 111]), [1]); ((JNum 1), [2])] false [(CB 1 0 (JStr [104; 101; 114; 111])
    true); (CB 2 0 (JNum 1) true); (CB 1 1 JNull true); (CB 2 1 JNull true)] []))))]).
Example C15_nonvacuous_rewritten :
  wf_b ex_rewritten = true /\ known_b ex_rewritten = false /\ accepts ex_rewritten = true.
Proof. vm_compute. auto. Qed.

(* the same four loads by a copy of desper whose WorldFromFileTransformer keeps the
   text of the file it read first *)
Definition ex_stale_file : C15_case :=
  (Case (Env [([118; 110; 115], NS (JRef KNoCopy 0) CNone); ([118; 110; 115; 46; 67; 48], NS (JRef
    KObj 1) (CComp true true)); ([118; 110; 115; 46; 80; 48], NS (JRef KObj 2) CProc); ([118;
    110; 115; 46; 111; 48], NS (JRef KObj 3) CNone); ([118; 110; 115; 46; 80; 49], NS (JRef KObj
    4) CProc)] [([114; 49], NHandle 0 100)] 1) [((LFile (DS None (Some [(ED None (Some [(DD
    [118; 110; 115; 46; 67; 48] (Some [(JStr [33; 114; 97; 105; 115; 101]); (JNum 1)])
    None)]))]))), (0, OErr)); ((LFile (DS (Some [(DD [118; 110; 115; 46; 80; 49] None (Some [(4,
    (JStr [36; 123; 118; 110; 115; 46; 110; 111; 112; 101; 125]))]))]) None)), (1, OErr));
    ((LFile (DS (Some [(DD [118; 110; 115; 46; 80; 49] None (Some [(4, (JStr [36; 123; 118; 110;
    115; 46; 111; 48; 125]))]))]) (Some [(ED (Some (JNum 3)) (Some [(DD [118; 110; 115; 46; 67;
    48] (Some [(JStr [114; 97; 105; 115; 101]); (JStr [36; 114; 101; 115; 123; 114; 49; 125])])
    None)]))]))), (2, OErr)); ((LFile (DS (Some [(DD [118; 110; 115; 46; 80; 48] (Some [(JNum
    1)]) None)]) (Some [(ED (Some (JStr [104; 101; 114; 111])) (Some [(DD [118; 110; 115; 46;
    67; 48] (Some [(JStr [36; 123; 118; 110; 115; 46; 111; 48; 125]); (JStr [36; 114; 101; 115;
    123; 114; 49; 125]); (JStr [120; 36; 123; 118; 110; 115; 46; 111; 48; 125]); (JList [(JStr
    [36; 123; 118; 110; 115; 46; 111; 48; 125])])]) (Some [(4, (JStr [36; 104; 97; 110; 100;
    108; 101; 123; 114; 49; 125]))]))])); (ED None (Some [(DD [118; 110; 115; 46; 67; 48] None
    None)]))]))), (3, OErr))]).
Example C15_stale_file_rejected :
  wf_b ex_stale_file = true /\ known_b ex_stale_file = false /\
  holds_b ex_stale_file = false /\ accepts ex_stale_file = false.
Proof. vm_compute. auto. Qed.

(* K6: "${vns}" names a module; copy.deepcopy at the start of the next
   transformer pass raises TypeError and the load is aborted.  The model
   mirrors the defect, the property does not hold. *)
Definition ex_k6 : C15_case :=
  (Case (Env [([118; 110; 115], NS (JRef KNoCopy 0) CNone); ([118; 110; 115; 46; 67; 48], NS (JRef
    KObj 1) (CComp true true)); ([118; 110; 115; 46; 80; 48], NS (JRef KObj 2) CProc); ([118;
    110; 115; 46; 111; 48], NS (JRef KObj 3) CNone); ([118; 110; 115; 46; 80; 49], NS (JRef KObj
    4) CProc)] [([114; 49], NHandle 0 100)] 1) [((LFile (DS None (Some [(ED None (Some [(DD
    [118; 110; 115; 46; 67; 48] (Some [(JStr [36; 123; 118; 110; 115; 125])]) None)]))]))), (0,
    OErr))]).
Theorem C15_K6_deepcopy_refuted :
  exists c, wf_b c = true /\ known_b c = true /\ accepts c = true /\ holds_b c = false.
Proof. exists ex_k6. vm_compute. auto. Qed.
