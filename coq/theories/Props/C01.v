(* C01 - World queries always agree on who owns which component.
   Statement file (theorems are added below once QProofs.v is complete). *)
From Coq Require Import ZArith List Bool.
From Desper Require Import World.QLib World.QHier World.QModel.
Import ListNotations.
Open Scope Z_scope.

Example C01_placeholder_model_compiles : accepts {| c_H := []; c_trace := [] |} = true.
Proof. vm_compute. reflexivity. Qed.
