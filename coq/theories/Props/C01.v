(* C01 - World queries always agree on who owns which component.
   Statement file: theorems only, each closed by [exact]. *)
From Coq Require Import ZArith List Bool Permutation.
From Desper Require Import World.QLib World.QHier World.QHierProofs World.QModel
                           World.QProofs World.QReadings.
Import ListNotations.
Open Scope Z_scope.

(* For EVERY class hierarchy (any DAG in creation order), EVERY finite trace of
   World operations (create with automatic or explicit ids, add / replace,
   remove, immediate and deferred delete, process, clear, enable/disable,
   processors) in the input domain [wf_b] and EVERY prefix of it: if the
   observations are those of the model of desper/logic/world.py
   ([accepts]: the two tables _entities / _components, _dead_entities, the id
   generator and the six subclass walks, statement by statement), then every
   query observed after every operation tells the story of the history
   summary [spec] (attached components, entities awaiting deletion):
   get / get_component / get_components / has_component / entities /
   entity_exists agree with it, and an automatic id never names an entity
   that owns components.  [holds01 c] is [spec_run ... sel_all ... = true]:
   the specification machine runs over the whole trace and checks the
   queries after every entry, i.e. after every prefix.  No bound on the
   length of the trace, the number of entities, components or classes. *)
Theorem C01_world_queries_agree :
  forall c : C01_case, wf_b c = true -> known_b c = false -> accepts c = true -> holds01 c.
Proof. exact accepts_holds01. Qed.
Print Assumptions C01_world_queries_agree.

(* After every prefix of such a trace the history summary exists and is a
   functional attachment relation: an instance sits in at most one slot, a
   slot (entity, exact type) holds at most one component, entities awaiting
   deletion own components. *)
Theorem C01_every_prefix_has_a_story :
  forall (c : C01_case) p rest,
    wf_b c = true -> accepts c = true -> c_trace c = p ++ rest ->
    exists t, spec_after (c_H c) spec_init p = Some t /\ story t.
Proof. exact every_prefix_story. Qed.
Print Assumptions C01_every_prefix_has_a_story.

(* What the clauses checked by [holds01] say on raw observations. *)

(* get(T): exactly one (entity, component) pair for every attached component
   whose type is T or a direct or indirect subclass of T *)
Theorem C01_get_lists_each_matching_component_once :
  forall H, hier_wf H -> forall t, story t -> forall T r,
    spec_query H t (QGet T r) = true ->
    NoDup r /\ forall e c, In (e, c) r <-> exists u, In (e, u, c) (att t) /\ sub H u T.
Proof. exact reading_get. Qed.

Theorem C01_get_components_lists_the_components_of_the_entity :
  forall H t, story t -> forall e r,
    spec_query H t (QGetComponents e r) = true ->
    NoDup r /\ forall c, In c r <-> exists u, In (e, u, c) (att t).
Proof. exact reading_get_components. Qed.

Theorem C01_has_component_iff_a_subtype_is_attached :
  forall H, hier_wf H -> forall t e T r,
    spec_query H t (QHas e T r) = true ->
    (r = true <-> exists u c, In (e, u, c) (att t) /\ sub H u T).
Proof. exact reading_has_component. Qed.

Theorem C01_get_component_returns_an_attached_subtype_exact_first :
  forall H, hier_wf H -> forall t e T r,
    spec_query H t (QGetComponent e T r) = true ->
    match r with
    | None => forall u c, In (e, u, c) (att t) -> ~ sub H u T
    | Some c => (exists u, In (e, u, c) (att t) /\ sub H u T) /\
                (forall c', In (e, T, c') (att t) -> c' = c)
    end.
Proof. exact reading_get_component. Qed.

Theorem C01_entities_are_the_owners_not_awaiting_deletion :
  forall H t r,
    spec_query H t (QEntities r) = true ->
    NoDup r /\ forall e, In e r <-> (exists u c, In (e, u, c) (att t)) /\ ~ In e (pend t).
Proof. exact reading_entities. Qed.

Theorem C01_entity_exists_is_membership :
  forall H t e r,
    spec_query H t (QExists e r) = true ->
    (r = true <-> (exists u c, In (e, u, c) (att t)) /\ ~ In e (pend t)).
Proof. exact reading_entity_exists. Qed.

Theorem C01_automatic_id_owns_nothing :
  forall H t cs rid t',
    spec_step H t (OCreate None cs) (RId rid) = Some t' ->
    forall u c, ~ In (rid, u, c) (att t).
Proof. exact reading_auto_id. Qed.

(* the loops of the model never stop for lack of fuel *)
Theorem C01_id_draw_terminates :
  forall s, draw_id (S (length (ents s))) (next_id s) (ents s) <> None.
Proof. exact draw_id_fuel. Qed.

(* ---- non-vacuity ------------------------------------------------------------- *)
(* classes A, B(A), C(A), D(B, C) *)
Definition ex_H : hier := [[]; [0%nat]; [0%nat]; [1%nat; 2%nat]].
Definition ex_ok : C01_case := {| c_H := ex_H; c_trace := [
  (OCreate None [(3%nat, 10)], RId 1,
     [QGet 0%nat [(1, 10)]; QHas 1 1%nat true; QGetComponent 1 2%nat (Some 10); QEntities [1]]);
  (OAdd 1 1%nat 11, RUnit,
     [QGet 0%nat [(1, 11); (1, 10)]; QGetComponents 1 [11; 10]; QGetComponent 1 0%nat (Some 11)]);
  (OAdd 1 1%nat 14, RUnit, [QGet 1%nat [(1, 10); (1, 14)]; QGetComponents 1 [10; 14]]);
  (OCreate (Some 2) [(0%nat, 12)], RId 2, [QGet 0%nat [(2, 12); (1, 14); (1, 10)]]);
  (OCreate None [(0%nat, 13)], RId 3, [QEntities [1; 2; 3]]);
  (ODelete 1 false, RUnit, [QEntities [3; 2]; QExists 1 false; QGetComponents 1 [10; 14]]);
  (ORemove 1 0%nat, RObj (Some 10), [QGetComponents 1 [14]]);
  (OProcess, RUnit, [QGet 0%nat [(2, 12); (3, 13)]; QGetComponents 1 []; QExists 1 false]);
  (OClear, RUnit, [QEntities []; QGet 0%nat []]);
  (OCreate None [], RId 1, [QEntities []])
  ] |}.
Example C01_nonvacuous : wf_b ex_ok = true /\ known_b ex_ok = false /\ accepts ex_ok = true.
Proof. vm_compute. auto. Qed.

(* D1 (repaired by f0383e7): after a replacement get(A) forgot the entity *)
Example C01_replacement_forgotten_by_get_rejected :
  holds01_b {| c_H := [[]]; c_trace := [
    (OCreate None [(0%nat, 10)], RId 1, []);
    (OAdd 1 0%nat 11, RUnit, [QGetComponent 1 0%nat (Some 11); QGet 0%nat []]) ] |} = false.
Proof. vm_compute. reflexivity. Qed.

(* D2 (repaired by c5a2257): an automatic id naming an existing entity *)
Example C01_automatic_id_of_existing_entity_rejected :
  holds01_b {| c_H := [[]; []]; c_trace := [
    (OCreate (Some 1) [(0%nat, 10)], RId 1, []);
    (OCreate None [(1%nat, 11)], RId 1, []) ] |} = false.
Proof. vm_compute. reflexivity. Qed.

(* entity_exists ignoring the pending deletion *)
Example C01_pending_entity_reported_existing_rejected :
  holds01_b {| c_H := [[]]; c_trace := [
    (OCreate None [(0%nat, 10)], RId 1, []);
    (ODelete 1 false, RUnit, [QExists 1 true]) ] |} = false.
Proof. vm_compute. reflexivity. Qed.
