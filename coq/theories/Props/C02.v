(* C02 - Component lifecycle callbacks fire exactly once per attach/detach.
   Statement file: theorems only, each closed by [exact]. *)
From Coq Require Import ZArith List Bool Permutation.
From Desper Require Import Lib.Alist World.LLib World.LModel World.LC05 World.LC02 World.LC02Proofs.
Import ListNotations.
Open Scope Z_scope.

(* Every history (any length, any classes, instances detached and re-attached,
   any enabled/disabled toggle pattern, also across clear()) whose observations
   the model of World + EventDispatcher accepts, and that contains none of the
   call patterns K1-K3, satisfies the property machine of World/LC02.v. *)
Theorem C02_lifecycle_exactly_once :
  forall c : C02_case, wf_b c = true -> known_b c = false -> accepts c = true -> holds c.
Proof. intros c _. exact (accepts_holds2 c). Qed.
Print Assumptions C02_lifecycle_exactly_once.

(* Readings of [holds] on raw observations.  [notifs p s o ob] are the calls
   owed by the attach/detach events of operation o (instance, callback, real
   owner, this world); [owed] the postponed calls, one group per operation. *)

(* exactly once over a whole history: the calls owed by all attach/detach
   events = the on_add/on_remove calls observed + what is still postponed
   (also across enabling assignments that a callback interrupted by raising) *)
Theorem C02_nothing_lost_nothing_twice : forall p tr s' owed',
  run2 p (s5_init, []) tr = Some (s', owed') ->
  Permutation (total_notifs p s5_init tr) (total_calls tr ++ concat owed').
Proof. intros p tr s' owed' H. exact (conservation p tr s5_init [] s' owed' H). Qed.
Print Assumptions C02_nothing_lost_nothing_twice.

(* enabled: the calls lie inside the operation; disabled: none, they are postponed *)
Theorem C02_inside_the_operation : forall p s owed o ob s' owed',
  step2 p (s, owed) o ob = Some (s', owed') -> o <> SetEnabled true -> o <> Clear ->
  (en s = true -> Permutation (filter is_lc (o_log ob)) (notifs p s o ob) /\ owed' = owed) /\
  (en s = false -> filter is_lc (o_log ob) = [] /\ owed' = owed ++ [notifs p s o ob]).
Proof. exact inside_operation. Qed.
Print Assumptions C02_inside_the_operation.

(* re-enabling delivers everything postponed, operation after operation *)
Theorem C02_release_in_operation_order : forall p s owed ob s' owed',
  step2 p (s, owed) (SetEnabled true) ob = Some (s', owed') -> en s = false ->
  (o_exc ob =? 3) = false -> (o_exc ob =? 4) = false ->
  owed' = [] /\ exists chunks, filter is_lc (o_log ob) = concat chunks /\
                Forall2 (@Permutation cb) chunks (owed ++ [[]]).
Proof. exact release_in_order. Qed.
Print Assumptions C02_release_in_operation_order.

(* ... and when a delivered callback raises (the enabling assignment raises,
   exception kind 3): the calls made end with the raising one, were taken in
   operation order, and everything not called is still owed, to the next
   enabling assignment *)
Theorem C02_release_interrupted : forall p s owed ob s' owed',
  step2 p (s, owed) (SetEnabled true) ob = Some (s', owed') -> (o_exc ob =? 3) = true ->
  owed_raise raises (if en s then owed else owed ++ [[]]) (filter is_lc (o_log ob)) = Some owed' /\
  Permutation (concat owed) (filter is_lc (o_log ob) ++ concat owed').
Proof. exact release_interrupted. Qed.
Print Assumptions C02_release_interrupted.

(* ... and when a delivered callback disables dispatching again (outcome kind 4;
   the nested assignment is the next operation of the history): the release
   stops after that call, everything not called is still owed IN ORDER, ahead
   of whatever is postponed afterwards *)
Theorem C02_release_stopped : forall p s owed ob s' owed',
  step2 p (s, owed) (SetEnabled true) ob = Some (s', owed') -> (o_exc ob =? 4) = true ->
  owed_raise disables (if en s then owed else owed ++ [[]]) (filter is_lc (o_log ob)) = Some owed' /\
  Permutation (concat owed) (filter is_lc (o_log ob) ++ concat owed').
Proof. exact release_stopped. Qed.
Print Assumptions C02_release_stopped.

(* a component is a registered listener exactly while it sits in a slot *)
Theorem C02_registered_iff_attached : forall p s owed o ob s' owed' i r,
  step2 p (s, owed) o ob = Some (s', owed') -> In (QIsH i r) (o_qs ob) ->
  (r = true <-> k_h (kind_of p i) = true /\ attached p (att s') i).
Proof. exact registered_iff_attached. Qed.
Print Assumptions C02_registered_iff_attached.

Definition wit_K1 : C02_case :=
  {| c_p := {| p_cls := [(1, 1); (2, 1)]; p_kinds := [(1, {| k_h := true; k_add := true; k_rem := true; k_probe := true |})] |}; c_tr := [((SetEnabled false), (mkobs None 0 [] [] [])); ((Create (Some 1) [1]), (mkobs (Some 1) 0 [] [] [])); (Clear, (mkobs None 0 [] [] [(QIsH 2 false)])); ((SetEnabled true), (mkobs None 0 [] [] [(QIsH 1 false); (QIsH 2 false)]))] |}.
Definition wit_K2a : C02_case :=
  {| c_p := {| p_cls := [(1, 1); (2, 1)]; p_kinds := [(1, {| k_h := true; k_add := true; k_rem := true; k_probe := true |})] |}; c_tr := [((Create (Some 1) [1]), (mkobs (Some 1) 0 [] [(mkcb CAdd 1 1 true)] [])); ((Create (Some 1) [2]), (mkobs (Some 1) 0 [] [(mkcb CAdd 2 1 true)] [])); ((Probe 1), (mkobs None 0 [] [(mkcb CProbe 2 1 true); (mkcb CProbe 1 1 true)] [(QIsH 1 true); (QIsH 2 true)]))] |}.
Definition wit_K2b : C02_case :=
  {| c_p := {| p_cls := [(1, 1); (2, 1)]; p_kinds := [(1, {| k_h := true; k_add := true; k_rem := true; k_probe := true |})] |}; c_tr := [((Create None [1; 2]), (mkobs (Some 1) 0 [] [(mkcb CAdd 1 1 true); (mkcb CAdd 2 1 true)] [])); ((Probe 1), (mkobs None 0 [] [(mkcb CProbe 2 1 true); (mkcb CProbe 1 1 true)] [(QIsH 1 true); (QIsH 2 true)]))] |}.
Definition wit_K3 : C02_case :=
  {| c_p := {| p_cls := [(1, 1)]; p_kinds := [(1, {| k_h := true; k_add := true; k_rem := true; k_probe := true |})] |}; c_tr := [((Create (Some 1) [1]), (mkobs (Some 1) 0 [] [(mkcb CAdd 1 1 true)] [])); ((Add 2 1), (mkobs None 0 [] [(mkcb CAdd 1 2 true)] [])); ((Remove 1 1), (mkobs (Some 1) 0 [] [(mkcb CRem 1 1 true)] [(QIsH 1 false)])); ((Probe 1), (mkobs None 0 [] [] [(QIsH 1 false)]))] |}.

(* known findings: the model mirrors the code, the property fails there *)
Theorem C02_K1_clear_while_disabled_refuted :
  exists c, wf_b c = true /\ accepts c = true /\ holds_b c = false.
Proof. exists wit_K1. vm_compute. auto. Qed.
Theorem C02_K2_create_over_occupied_slot_refuted :
  exists c, wf_b c = true /\ accepts c = true /\ holds_b c = false.
Proof. exists wit_K2a. vm_compute. auto. Qed.
Theorem C02_K2_same_type_twice_refuted :
  exists c, wf_b c = true /\ accepts c = true /\ holds_b c = false.
Proof. exists wit_K2b. vm_compute. auto. Qed.
Theorem C02_K3_shared_instance_refuted :
  exists c, wf_b c = true /\ accepts c = true /\ holds_b c = false.
Proof. exists wit_K3. vm_compute. auto. Qed.
Example C02_known_patterns_recognised :
  known_b wit_K1 = true /\ known_b wit_K2a = true /\ known_b wit_K2b = true /\ known_b wit_K3 = true.
Proof. vm_compute. auto. Qed.

(* non-vacuity: attach while disabled, replace, remove, clear and reuse *)
Definition ex_p : params :=
  {| p_cls := [(1, 1); (2, 1); (3, 2)];
     p_kinds := [(1, {| k_h := true; k_add := true; k_rem := true; k_probe := true |});
                 (2, {| k_h := true; k_add := true; k_rem := false; k_probe := false |})] |}.
Definition ex_ok : C02_case :=
  {| c_p := ex_p; c_tr :=
    [ (Create None [1; 3], mkobs (Some 1) 0 [] [mkcb CAdd 3 1 true; mkcb CAdd 1 1 true] [QIsH 1 true]);
      (SetEnabled false, mkobs None 0 [] [] []);
      (Add 1 2, mkobs None 0 [] [] [QIsH 1 false; QIsH 2 true]);
      (Remove 1 2, mkobs (Some 3) 0 [] [] [QIsH 3 false]);
      (Delete 1 false, mkobs None 0 [] [] []);
      (Process, mkobs None 0 [] [mkcb CProc 0 0 true] [QIsH 2 false]);
      (SetEnabled true, mkobs None 0 [] [mkcb CRem 1 1 true; mkcb CAdd 2 1 true; mkcb CRem 2 1 true] []);
      (Clear, mkobs None 0 [] [] []);
      (SetEnabled false, mkobs None 0 [] [] []);
      (Create (Some 4) [1], mkobs (Some 4) 0 [] [] [QIsH 1 true]);
      (SetEnabled true, mkobs None 0 [] [mkcb CAdd 1 4 true] []);
      (Probe 7, mkobs None 0 [] [mkcb CProbe 1 7 true] []) ] |}.
Example C02_nonvacuous : wf_b ex_ok = true /\ known_b ex_ok = false /\ accepts ex_ok = true.
Proof. vm_compute. auto. Qed.

(* violations are rejected by the property *)
Example C02_double_delivery_rejected :
  holds_b {| c_p := ex_p; c_tr :=
    [ (Create (Some 4) [1], mkobs (Some 4) 0 [] [mkcb CAdd 1 4 true; mkcb CAdd 1 4 true] []) ] |} = false.
Proof. vm_compute. reflexivity. Qed.
Example C02_wrong_owner_rejected :
  holds_b {| c_p := ex_p; c_tr :=
    [ (Create (Some 4) [1], mkobs (Some 4) 0 [] [mkcb CAdd 1 5 true] []) ] |} = false.
Proof. vm_compute. reflexivity. Qed.
Example C02_postponed_then_lost_rejected :
  holds_b {| c_p := ex_p; c_tr :=
    [ (SetEnabled false, mkobs None 0 [] [] []);
      (Create (Some 4) [1], mkobs (Some 4) 0 [] [] []);
      (SetEnabled true, mkobs None 0 [] [] []) ] |} = false.
Proof. vm_compute. reflexivity. Qed.
Example C02_release_out_of_order_rejected :
  holds_b {| c_p := ex_p; c_tr :=
    [ (SetEnabled false, mkobs None 0 [] [] []);
      (Create (Some 4) [1], mkobs (Some 4) 0 [] [] []);
      (Remove 4 1, mkobs (Some 1) 0 [] [] []);
      (SetEnabled true, mkobs None 0 [] [mkcb CRem 1 4 true; mkcb CAdd 1 4 true] []) ] |} = false.
Proof. vm_compute. reflexivity. Qed.
Example C02_still_listening_after_delete_rejected :
  holds_b {| c_p := ex_p; c_tr :=
    [ (Create (Some 4) [1], mkobs (Some 4) 0 [] [mkcb CAdd 1 4 true] []);
      (Delete 4 true, mkobs None 0 [] [mkcb CRem 1 4 true] [QIsH 1 true]) ] |} = false.
Proof. vm_compute. reflexivity. Qed.

(* a raising callback during the release: instance 1001 (class 1) raises when
   its postponed on_add is delivered; the notification postponed after it
   stays pending and is delivered by the next enabling assignment *)
Definition exx_p : params :=
  {| p_cls := [(1001, 1); (2, 1)];
     p_kinds := [(1, {| k_h := true; k_add := true; k_rem := true; k_probe := false |})] |}.
Definition exx_prefix : trace :=
  [ (SetEnabled false, mkobs None 0 [] [] []);
    (Create (Some 1) [1001], mkobs (Some 1) 0 [] [] []);
    (Create (Some 2) [2], mkobs (Some 2) 0 [] [] []);
    (SetEnabled true, mkobs None 3 [] [mkcb CAdd 1001 1 true] [QIsH 2 true]) ].
Example C02_raising_release_accepted :
  let c := {| c_p := exx_p; c_tr := exx_prefix ++
    [ (Remove 1 1, mkobs (Some 1001) 0 [] [mkcb CRem 1001 1 true] []);
      (SetEnabled true, mkobs None 0 [] [mkcb CAdd 2 2 true] []) ] |} in
  wf_b c = true /\ known_b c = false /\ accepts c = true.
Proof. vm_compute. auto. Qed.
Example C02_lost_after_raise_rejected :
  holds_b {| c_p := exx_p; c_tr := exx_prefix ++
    [ (SetEnabled true, mkobs None 0 [] [] []) ] |} = false.
Proof. vm_compute. reflexivity. Qed.

(* a callback that disables dispatching during the release: instance 2001 stops
   it; what is postponed afterwards (on_remove of 2) comes after what was left
   (on_add of 2), at the next enabling assignment *)
Definition exd_p : params :=
  {| p_cls := [(2001, 1); (2, 1)];
     p_kinds := [(1, {| k_h := true; k_add := true; k_rem := true; k_probe := false |})] |}.
Definition exd_prefix : trace :=
  [ (SetEnabled false, mkobs None 0 [] [] []);
    (Create (Some 1) [2001], mkobs (Some 1) 0 [] [] []);
    (Create (Some 2) [2], mkobs (Some 2) 0 [] [] []);
    (SetEnabled true, mkobs None 4 [] [mkcb CAdd 2001 1 true] []);
    (SetEnabled false, mkobs None 0 [] [] [QIsH 2 true]);
    (Delete 2 true, mkobs None 0 [] [] [QIsH 2 false]) ].
Example C02_stopped_release_accepted :
  let c := {| c_p := exd_p; c_tr := exd_prefix ++
    [ (SetEnabled true, mkobs None 0 [] [mkcb CAdd 2 2 true; mkcb CRem 2 2 true] []) ] |} in
  wf_b c = true /\ known_b c = false /\ accepts c = true.
Proof. vm_compute. auto. Qed.
Example C02_reordered_after_stop_rejected :
  holds_b {| c_p := exd_p; c_tr := exd_prefix ++
    [ (SetEnabled true, mkobs None 0 [] [mkcb CRem 2 2 true; mkcb CAdd 2 2 true] []) ] |} = false.
Proof. vm_compute. reflexivity. Qed.
