(* C17 - A static resource map is a faithful, immutable mirror.
   Statement file: theorems only, each closed by [exact]. *)
From Coq Require Import ZArith List Bool String.
From Desper Require Import Tree.C17Model Tree.C17Proofs.
Import ListNotations.
Open Scope Z_scope.

(* For every resource tree (any shape and depth, layered handles, names
   that are identifiers, non-identifiers, private __x names, dunder names;
   not the names of the snapshot's own members) and every list of probes:
   if the model of get_static_map / StaticResourceMap accepts what was
   observed, then
   - the snapshot was built;
   - its structure mirrors the map's, map by map: _handle_names are exactly
     the names of the visible handles, the handle attributes are exactly the
     visible handles (first layer that has the name wins), the remaining
     attributes are exactly the sub-maps, each mirrored in turn - so names
     absent from the map are absent from the snapshot;
   - walking any probed path part by part with attribute access, with [] or
     with get gives on the snapshot what the same walk gave on the map at
     snapshot time: the same loaded resource, the same handle object, a
     nested container, absent alike;
   - every attempted setattr / delattr on any node raised, and the whole
     snapshot was observed unchanged afterwards. *)
Theorem C17_static_mirror :
  forall c : C17_case, wf_b c = true -> known_b c = false -> accepts c = true -> holds c.
Proof. intros c Hwf _ Hacc. exact (accepts_holds c Hwf Hacc). Qed.
Print Assumptions C17_static_mirror.

(* A case is a SEQUENCE of snapshots of one live map: between two snapshots
   the live map is modified at any depth (through the root with composed
   keys, directly on sub-maps, clear, layer insertion), and every snapshot
   is probed right after it is taken and again after later modifications.
   [holds] says the above for EACH snapshot with respect to the tree as it
   was when THAT snapshot was taken: a later snapshot mirrors the modified
   tree (nothing stale), an earlier one keeps mirroring the old tree
   (nothing shared with the live map).  Per snapshot: *)
Theorem C17_each_snapshot_mirrors :
  forall s : C17_snap, snap_wf_b s = true -> snap_accepts s = true -> snap_holds s.
Proof. exact snap_accepts_holds. Qed.
Print Assumptions C17_each_snapshot_mirrors.

(* get_static_map never fails, whatever the names (the repaired slot filter:
   a name that the class body would mangle is kept out of __slots__, and
   one such name is enough for the class to get a __dict__) *)
Theorem C17_snapshot_always_built : forall t : rtree, build t <> None.
Proof. exact build_total. Qed.
Print Assumptions C17_snapshot_always_built.

(* for EVERY path (not only the probed ones), in each of the three access
   modes, the walk on the snapshot equals the walk on the tree *)
Theorem C17_mirror_along_every_path :
  forall (md : mode) (p : list string) (t : rtree) (sn : snode),
    build t = Some sn -> snap_path md sn p = tree_path md t p.
Proof. exact path_mirror. Qed.
Print Assumptions C17_mirror_along_every_path.

(* the structure of the built snapshot mirrors the tree *)
Theorem C17_structure_mirrors :
  forall (t : rtree) (o sn : snode),
    wf_tree t = true -> build t = Some sn -> sn_match o sn = true -> mirrors t o = true.
Proof. exact match_mirrors. Qed.
Print Assumptions C17_structure_mirrors.

(* ---- non-vacuity and sensitivity (observations of the real code) --------------- *)
Definition ex_ok : C17_case :=
[CASE (Node [[("a"%string,0); ("a.png"%string,1)]; [("a"%string,2)]] [("__secret"%string,(Node [[("x1"%string,3)]] []))]) true (SNode ["a"%string; "a.png"%string] [("a"%string,0); ("a.png"%string,1)] [("__secret"%string,(SNode ["x1"%string] [("x1"%string,3)] []))]) [(PPath MAttr ["a"%string], OPath (RVal 0) (RVal 0)); (PPath MItem ["a.png"%string], OPath (RVal 1) (RVal 1)); (PPath MGet ["__secret"%string; "x1"%string], OPath (RHandle 3) (RHandle 3)); (PPath MItem ["__secret"%string; "x1"%string], OPath (RVal 3) (RVal 3)); (PPath MAttr ["nope"%string], OPath RAbsent RAbsent); (PPath MAttr ["a"%string; "x1"%string], OPath RNotMap RNotMap); (PSet ["__secret"%string] "x1"%string, OMut true (SNode ["a"%string; "a.png"%string] [("a"%string,0); ("a.png"%string,1)] [("__secret"%string,(SNode ["x1"%string] [("x1"%string,3)] []))])); (PDel [] "a.png"%string, OMut true (SNode ["a"%string; "a.png"%string] [("a"%string,0); ("a.png"%string,1)] [("__secret"%string,(SNode ["x1"%string] [("x1"%string,3)] []))]))]].
Example C17_nonvacuous :
  wf_b ex_ok = true /\ known_b ex_ok = false /\ accepts ex_ok = true /\ holds_b ex_ok = true.
Proof. vm_compute. auto. Qed.

(* observed with fix 7956d59 reverted: no snapshot for a map whose only
   name is private *)
Example C17_unbuilt_snapshot_rejected :
  let c := [CASE (Node [[("__secret"%string,0)]] []) false (SNode [] [] []) []] in
  wf_b c = true /\ accepts c = false /\ holds_b c = false.
Proof. vm_compute. auto. Qed.

(* observed with a generated class that allows setattr when it has a __dict__ *)
Example C17_mutable_snapshot_rejected :
  let c := [CASE (Node [[("a.png"%string,0)]] []) true (SNode ["a.png"%string] [("a.png"%string,0)] []) [(PSet [] "zz"%string, OMut false (SNode ["a.png"%string] [("a.png"%string,0); ("zz"%string,(-1))] [])); (PPath MGet ["zz"%string], OPath RBad RAbsent)]] in
  wf_b c = true /\ accepts c = false /\ holds_b c = false.
Proof. vm_compute. auto. Qed.

(* two snapshots with the live map modified in between (deep assignment
   through the root, then clear of the root); the first snapshot is probed
   again afterwards *)
Definition ex_seq : C17_case := [(CASE (Node [[("a"%string,0)]] [("sub"%string,(Node [[("x1"%string,1)]] []))]) true (SNode ["a"%string] [("a"%string,0)] [("sub"%string,(SNode ["x1"%string] [("x1"%string,1)] []))]) [(PPath MItem ["sub"%string; "x1"%string], OPath (RVal 1) (RVal 1)); (PPath MAttr ["sub"%string; "new"%string], OPath RAbsent RAbsent); (PPath MItem ["sub"%string; "new"%string], OPath RAbsent RAbsent); (PPath MGet ["sub"%string; "x1"%string], OPath (RHandle 1) (RHandle 1)); (PSet ["sub"%string] "x1"%string, OMut true (SNode ["a"%string] [("a"%string,0)] [("sub"%string,(SNode ["x1"%string] [("x1"%string,1)] []))]))]); (CASE (Node [[]] []) true (SNode [] [] []) [(PPath MAttr ["sub"%string; "new"%string], OPath RAbsent RAbsent)])].
Example C17_sequence_nonvacuous :
  wf_b ex_seq = true /\ accepts ex_seq = true /\ holds_b ex_seq = true.
Proof. vm_compute. auto. Qed.

(* observed with a ResourceMap that caches its static map and drops the
   cache only on the map that was assigned to: the second snapshot still
   mirrors the old sub-map *)
Example C17_stale_snapshot_rejected :
  let c := [(CASE (Node [[]] [("sub"%string,(Node [[("x1"%string,0)]] []))]) true (SNode [] [] [("sub"%string,(SNode ["x1"%string] [("x1"%string,0)] []))]) []); (CASE (Node [[]] [("sub"%string,(Node [[("x1"%string,0); ("new"%string,1)]] []))]) true (SNode [] [] [("sub"%string,(SNode ["x1"%string] [("x1"%string,0)] []))]) [(PPath MAttr ["sub"%string; "new"%string], OPath RAbsent (RVal 1))])] in
  wf_b c = true /\ accepts c = false /\ holds_b c = false.
Proof. vm_compute. auto. Qed.
