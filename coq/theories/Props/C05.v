(* C05 - Deferred entity deletion is applied at the next process(), safely.
   Statement file: theorems only, each closed by [exact]. *)
From Coq Require Import ZArith List Bool Permutation.
From Desper Require Import Lib.Alist World.LLib World.LModel World.LC05 World.LC05Proofs
                           World.LRModel World.LR05 World.LR05Proofs.
Import ListNotations.
Open Scope Z_scope.

(* Every history whose observations the model of World accepts satisfies the
   property.  A case is either (Old) a history of atomic operations - callbacks
   that only log, any classes, Clear and Probe included - judged by the machine
   of World/LC05.v, or (Re) a history whose on_add / on_remove callbacks run
   scripts of World operations (delete_entity immediate / deferred,
   remove_component, add_component, create_entity, on any entity, nested to any
   depth the log shows, also while process() drains the marks and while
   postponed notifications are released), judged by the log-driven machine of
   World/LR05.v.  In both: the two-step visibility of delete_entity, removal
   and notification at the start of the next process() before the processor,
   process() raising only on a mark put on an entity that owned nothing - whatever
   was done to a marked entity in between, by the caller or by a callback - and
   every failing frame consuming the mark that caused it.  No bound on the
   length of the history, of a log, of the nesting, on entities or classes. *)
Theorem C05_deferred_delete :
  forall c : C05x_case, xwf_b c = true -> xknown_b c = false -> xaccepts c = true -> xholds c.
Proof. intros c _ _. exact (xaccepts_xholds c). Qed.
Print Assumptions C05_deferred_delete.

(* the two halves separately *)
Theorem C05_deferred_delete_atomic :
  forall c : C05_case, wf_b c = true -> known_b c = false -> accepts c = true -> holds c.
Proof. intros c _ _. exact (accepts_holds c). Qed.
Print Assumptions C05_deferred_delete_atomic.
Theorem C05_deferred_delete_reentrant :
  forall c : LR_case, rwf_b c = true -> raccepts c = true -> rholds_b c = true.
Proof. intros c _. exact (raccepts_rholds c). Qed.
Print Assumptions C05_deferred_delete_reentrant.

(* Readings of [holds] on raw observations (s, s' are states of the property
   machine, which only records who owns what and which entities are marked). *)

(* right after delete_entity(e) of an entity owning components: entity_exists(e)
   is False, e is not in entities, get_components(e) is unchanged *)
Theorem C05_hidden_at_once : forall p s e ob s',
  step5 p s (Delete e false) ob = Some s' ->
  towns (att s) e = true -> zmem e (bad s) = false ->
  (forall r, In (QExists e r) (o_qs ob) -> r = false) /\
  (forall l, In (QEntities l) (o_qs ob) -> ~ In e l) /\
  (forall l, In (QComps e l) (o_qs ob) -> Permutation l (map snd (trow (att s) e))).
Proof. exact deferred_delete_hides. Qed.
Print Assumptions C05_hidden_at_once.

(* ... and has_component / get_component / get(T) answer exactly as before the
   delete_entity: the components remain queryable until the frame applies it *)
Theorem C05_components_stay_queryable : forall p s e ob s',
  step5 p s (Delete e false) ob = Some s' ->
  att s' = att s /\
  (forall e' ty r, In (QHas e' ty r) (o_qs ob) ->
     r = match tget (att s) e' ty with Some _ => true | None => false end) /\
  (forall e' ty r, In (QGetC e' ty r) (o_qs ob) -> r = tget (att s) e' ty) /\
  (forall ty l, In (QGet ty l) (o_qs ob) -> Permutation l (tall (att s) ty)).
Proof. exact deferred_delete_keeps_components. Qed.
Print Assumptions C05_components_stay_queryable.

(* a frame without an error-path mark returns normally; its log is the on_remove
   calls of the marked entities' components, then the processor; afterwards no
   mark is left and no marked entity owns anything (its id is free again) *)
Theorem C05_process_total : forall p s ob s',
  step5 p s Process ob = Some s' -> bad s = [] ->
  o_exc ob = 0 /\ pend s' = [] /\ bad s' = [] /\
  (forall e, In e (pend s) -> towns (att s') e = false) /\
  exists cs, snd (apply_deletes p (en s) (att s) (pend s)) = cs /\
    Permutation (firstn (length cs) (o_log ob)) cs /\
    Permutation (skipn (length cs) (o_log ob)) (if prc s then [call CProc 0 0] else []).
Proof. exact process_total. Qed.
Print Assumptions C05_process_total.

(* a frame that raises is a KeyError naming an entity marked while it owned
   nothing, and that mark is consumed: failures cannot repeat for ever *)
Theorem C05_failure_consumed : forall p s ob s',
  step5 p s Process ob = Some s' -> o_exc ob <> 0 ->
  o_exc ob = 1 /\ exists f, o_ret ob = Some f /\ In f (bad s) /\
  (length (bad s') < length (bad s))%nat.
Proof. exact process_failure_consumed. Qed.
Print Assumptions C05_failure_consumed.

(* ... and such marks only come from delete_entity(e) on an entity owning nothing *)
Theorem C05_marks_only_from_error_path : forall p s o ob s',
  step5 p s o ob = Some s' ->
  (forall e, o = Delete e false -> towns (att s) e = true) ->
  forall x, In x (bad s') -> In x (bad s).
Proof. exact bad_only_from_delete. Qed.
Print Assumptions C05_marks_only_from_error_path.

(* non-vacuity: delete, replace the only handler component before the frame,
   error-path delete of entity 9, failing frame, clean frame, id reused *)
Definition ex_p : params :=
  {| p_cls := [(1, 1); (2, 1); (3, 2)];
     p_kinds := [(1, {| k_h := true; k_add := true; k_rem := true; k_probe := true |});
                 (2, {| k_h := false; k_add := false; k_rem := false; k_probe := false |})] |}.
Definition ex_ok : C05_case :=
  {| c_p := ex_p; c_tr :=
    [ (Create (Some 5) [1; 3], mkobs (Some 5) 0 [] [mkcb CAdd 1 5 true] [QExists 5 true; QComps 5 [3; 1]]);
      (Delete 5 false, mkobs None 0 [] [] [QExists 5 false; QEntities []; QComps 5 [1; 3]]);
      (Add 5 2, mkobs None 0 [] [mkcb CRem 1 5 true; mkcb CAdd 2 5 true]
                 [QExists 5 false; QIsH 1 false; QIsH 2 true; QComps 5 [3; 2]]);
      (Delete 9 false, mkobs None 0 [] [] [QExists 9 false]);
      (Process, mkobs (Some 9) 1 [5] [mkcb CRem 2 5 true] [QComps 5 []; QIsH 2 false]);
      (Process, mkobs None 0 [] [mkcb CProc 0 0 true] [QExists 5 false; QEntities []]);
      (Create (Some 5) [1], mkobs (Some 5) 0 [] [mkcb CAdd 1 5 true] [QExists 5 true; QEntities [5]]) ] |}.
Example C05_nonvacuous_atomic : wf_b ex_ok = true /\ known_b ex_ok = false /\ accepts ex_ok = true.
Proof. vm_compute. auto. Qed.

(* violations are rejected by the property: the entity still exists right after
   delete_entity; process() raising although every deleted entity existed;
   notifications after the processor *)
Example C05_still_visible_rejected :
  holds_b {| c_p := ex_p; c_tr :=
    [ (Create (Some 5) [1], mkobs (Some 5) 0 [] [mkcb CAdd 1 5 true] []);
      (Delete 5 false, mkobs None 0 [] [] [QExists 5 true]) ] |} = false.
Proof. vm_compute. reflexivity. Qed.
Example C05_components_hidden_rejected :
  holds_b {| c_p := ex_p; c_tr :=
    [ (Create (Some 5) [1], mkobs (Some 5) 0 [] [mkcb CAdd 1 5 true] [QHas 5 1 true]);
      (Delete 5 false, mkobs None 0 [] [] [QExists 5 false; QGetC 5 1 (Some 1); QGet 1 [(5, 1)];
                                           QHas 5 1 false]) ] |} = false.
Proof. vm_compute. reflexivity. Qed.
Example C05_poisoned_frame_rejected :
  holds_b {| c_p := ex_p; c_tr :=
    [ (Create (Some 5) [3], mkobs (Some 5) 0 [] [] []);
      (Delete 5 false, mkobs None 0 [] [] []);
      (Remove 5 2, mkobs (Some 3) 0 [] [] []);
      (Process, mkobs (Some 5) 1 [] [] []) ] |} = false.
Proof. vm_compute. reflexivity. Qed.
Example C05_processor_first_rejected :
  holds_b {| c_p := ex_p; c_tr :=
    [ (Create (Some 5) [1], mkobs (Some 5) 0 [] [mkcb CAdd 1 5 true] []);
      (Delete 5 false, mkobs None 0 [] [] []);
      (Process, mkobs None 0 [] [mkcb CProc 0 0 true; mkcb CRem 1 5 true] []) ] |} = false.
Proof. vm_compute. reflexivity. Qed.

(* re-entrant: the on_remove of class 1 deletes entity 2 at once; both entities
   are marked; the frame deletes 1, whose notification deletes 2 (whose own
   notification tries again and gets the KeyError of a missing entity), and the
   frame must then be over: the processor runs, nothing is raised *)
Definition exr_p : params :=
  {| p_cls := [(1, 1); (2, 1)];
     p_kinds := [(1, {| k_h := true; k_add := false; k_rem := true; k_probe := false |})] |}.
Definition exr_scr : scripts := [(1, ([], [Delete 2 true]))].
Definition exr_prefix : list (op * robs) :=
  [ (Create (Some 1) [1], mkrobs (Some 1) 0 [] [] [QExists 1 true]);
    (Create (Some 2) [2], mkrobs (Some 2) 0 [] [] []);
    (Delete 1 false, mkrobs None 0 [] [] [QExists 1 false; QComps 1 [1]]);
    (Delete 2 false, mkrobs None 0 [] [] [QEntities []]) ].
Definition exr_drain : list lent :=
  [ LCall CRem 1 1 true; LAct (Delete 2 true);
      LCall CRem 2 2 true; LAct (Delete 2 true); LRet None 1; LEnd;
    LRet None 0; LEnd ].
Definition exr_ok : C05x_case :=
  Re {| r_p := exr_p; r_scr := exr_scr; r_tr := exr_prefix ++
    [ (Process, mkrobs None 0 [] (exr_drain ++ [LProc]) [QExists 1 false; QExists 2 false; QComps 2 []]);
      (Create (Some 2) [2], mkrobs (Some 2) 0 [] [] [QExists 2 true]) ] |}.
Example C05_nonvacuous : xwf_b exr_ok = true /\ xknown_b exr_ok = false /\ xaccepts exr_ok = true.
Proof. vm_compute. auto. Qed.
(* an implementation that walks a snapshot of the marks reaches entity 2 again
   and raises: rejected by the property (2 existed when it was marked) *)
Example C05_snapshot_drain_rejected :
  xholds_b (Re {| r_p := exr_p; r_scr := exr_scr; r_tr := exr_prefix ++
    [ (Process, mkrobs (Some 2) 1 [] exr_drain []) ] |}) = false.
Proof. vm_compute. reflexivity. Qed.
