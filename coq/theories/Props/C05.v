(* C05 - Deferred entity deletion is applied at the next process(), safely.
   Statement file: theorems only, each closed by [exact]. *)
From Coq Require Import ZArith List Bool Permutation.
From Desper Require Import Lib.Alist World.LLib World.LModel World.LC05 World.LC05Proofs.
Import ListNotations.
Open Scope Z_scope.

(* Every history (any length, any classes, entities, instances, toggles) whose
   observations the model of World accepts satisfies the property machine of
   World/LC05.v: the two-step visibility of delete_entity, removal and
   notification at the start of the next process() before the processor,
   process() total unless a deletion was requested for an entity that owned
   nothing, and every failing frame consuming the mark that caused it. *)
Theorem C05_deferred_delete :
  forall c : C05_case, wf_b c = true -> known_b c = false -> accepts c = true -> holds c.
Proof. intros c _ _. exact (accepts_holds c). Qed.
Print Assumptions C05_deferred_delete.

(* Readings of [holds] on raw observations (s, s' are states of the property
   machine, which only records who owns what and which entities are marked). *)

(* right after delete_entity(e) of an entity owning components: entity_exists(e)
   is False, e is not in entities, get_components(e) is unchanged *)
Theorem C05_hidden_at_once : forall p s e ob s',
  step5 p s (Delete e false) ob = Some s' ->
  towns (att s) e = true -> zmem e (bad s) = false ->
  (forall r, In (QExists e r) (o_qs ob) -> r = false) /\
  (forall l, In (QEntities l) (o_qs ob) -> ~ In e l) /\
  (forall l, In (QComps e l) (o_qs ob) -> Permutation l (map snd (trow (att s) e))).
Proof. exact deferred_delete_hides. Qed.
Print Assumptions C05_hidden_at_once.

(* a frame without an error-path mark returns normally; its log is the on_remove
   calls of the marked entities' components, then the processor; afterwards no
   mark is left and no marked entity owns anything (its id is free again) *)
Theorem C05_process_total : forall p s ob s',
  step5 p s Process ob = Some s' -> bad s = [] ->
  o_exc ob = 0 /\ pend s' = [] /\ bad s' = [] /\
  (forall e, In e (pend s) -> towns (att s') e = false) /\
  exists cs, snd (apply_deletes p (en s) (att s) (pend s)) = cs /\
    Permutation (firstn (length cs) (o_log ob)) cs /\
    Permutation (skipn (length cs) (o_log ob)) (if prc s then [call CProc 0 0] else []).
Proof. exact process_total. Qed.
Print Assumptions C05_process_total.

(* a frame that raises is a KeyError naming an entity marked while it owned
   nothing, and that mark is consumed: failures cannot repeat for ever *)
Theorem C05_failure_consumed : forall p s ob s',
  step5 p s Process ob = Some s' -> o_exc ob <> 0 ->
  o_exc ob = 1 /\ exists f, o_ret ob = Some f /\ In f (bad s) /\
  (length (bad s') < length (bad s))%nat.
Proof. exact process_failure_consumed. Qed.
Print Assumptions C05_failure_consumed.

(* ... and such marks only come from delete_entity(e) on an entity owning nothing *)
Theorem C05_marks_only_from_error_path : forall p s o ob s',
  step5 p s o ob = Some s' ->
  (forall e, o = Delete e false -> towns (att s) e = true) ->
  forall x, In x (bad s') -> In x (bad s).
Proof. exact bad_only_from_delete. Qed.
Print Assumptions C05_marks_only_from_error_path.

(* non-vacuity: delete, replace the only handler component before the frame,
   error-path delete of entity 9, failing frame, clean frame, id reused *)
Definition ex_p : params :=
  {| p_cls := [(1, 1); (2, 1); (3, 2)];
     p_kinds := [(1, {| k_h := true; k_add := true; k_rem := true; k_probe := true |});
                 (2, {| k_h := false; k_add := false; k_rem := false; k_probe := false |})] |}.
Definition ex_ok : C05_case :=
  {| c_p := ex_p; c_tr :=
    [ (Create (Some 5) [1; 3], mkobs (Some 5) 0 [] [mkcb CAdd 1 5 true] [QExists 5 true; QComps 5 [3; 1]]);
      (Delete 5 false, mkobs None 0 [] [] [QExists 5 false; QEntities []; QComps 5 [1; 3]]);
      (Add 5 2, mkobs None 0 [] [mkcb CRem 1 5 true; mkcb CAdd 2 5 true]
                 [QExists 5 false; QIsH 1 false; QIsH 2 true; QComps 5 [3; 2]]);
      (Delete 9 false, mkobs None 0 [] [] [QExists 9 false]);
      (Process, mkobs (Some 9) 1 [5] [mkcb CRem 2 5 true] [QComps 5 []; QIsH 2 false]);
      (Process, mkobs None 0 [] [mkcb CProc 0 0 true] [QExists 5 false; QEntities []]);
      (Create (Some 5) [1], mkobs (Some 5) 0 [] [mkcb CAdd 1 5 true] [QExists 5 true; QEntities [5]]) ] |}.
Example C05_nonvacuous : wf_b ex_ok = true /\ known_b ex_ok = false /\ accepts ex_ok = true.
Proof. vm_compute. auto. Qed.

(* violations are rejected by the property: the entity still exists right after
   delete_entity; process() raising although every deleted entity existed;
   notifications after the processor *)
Example C05_still_visible_rejected :
  holds_b {| c_p := ex_p; c_tr :=
    [ (Create (Some 5) [1], mkobs (Some 5) 0 [] [mkcb CAdd 1 5 true] []);
      (Delete 5 false, mkobs None 0 [] [] [QExists 5 true]) ] |} = false.
Proof. vm_compute. reflexivity. Qed.
Example C05_poisoned_frame_rejected :
  holds_b {| c_p := ex_p; c_tr :=
    [ (Create (Some 5) [3], mkobs (Some 5) 0 [] [] []);
      (Delete 5 false, mkobs None 0 [] [] []);
      (Remove 5 2, mkobs (Some 3) 0 [] [] []);
      (Process, mkobs (Some 5) 1 [] [] []) ] |} = false.
Proof. vm_compute. reflexivity. Qed.
Example C05_processor_first_rejected :
  holds_b {| c_p := ex_p; c_tr :=
    [ (Create (Some 5) [1], mkobs (Some 5) 0 [] [mkcb CAdd 1 5 true] []);
      (Delete 5 false, mkobs None 0 [] [] []);
      (Process, mkobs None 0 [] [mkcb CProc 0 0 true; mkcb CRem 1 5 true] []) ] |} = false.
Proof. vm_compute. reflexivity. Qed.
