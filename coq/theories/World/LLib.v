(* World lifecycle family (C05, C02): small library.
   - membership / removal on lists of Z (Python set as duplicate-free list)
   - perm_b : executable multiset equality, sound and complete for Permutation
   - the entity table  eid -> (type -> instance)  with "free the empty row"  *)
From Coq Require Import ZArith List Bool Lia Permutation.
From Desper Require Import Lib.Alist.
Import ListNotations.
Open Scope Z_scope.

(* ---- sets of Z as lists ------------------------------------------------ *)
Fixpoint zmem (x : Z) (l : list Z) : bool :=
  match l with [] => false | y :: l => (x =? y) || zmem x l end.
Definition zadd (x : Z) (l : list Z) : list Z := if zmem x l then l else l ++ [x].
Fixpoint zrem (x : Z) (l : list Z) : list Z :=
  match l with [] => [] | y :: l => if x =? y then zrem x l else y :: zrem x l end.

Lemma zmem_In x l : zmem x l = true <-> In x l.
Proof.
  induction l as [|y l IH]; cbn [zmem In]; [split; [discriminate|tauto]|].
  rewrite orb_true_iff, IH, Z.eqb_eq. split; intros [H|H]; auto.
Qed.
Lemma zmem_false x l : zmem x l = false <-> ~ In x l.
Proof. rewrite <- zmem_In. destruct (zmem x l); split; congruence. Qed.
Lemma In_zadd y x l : In y (zadd x l) <-> y = x \/ In y l.
Proof.
  unfold zadd. destruct (zmem x l) eqn:E.
  - apply zmem_In in E. split; [auto|]. intros [->|H]; auto.
  - rewrite in_app_iff. cbn [In]. split; [intros [H|[H|[]]]|intros [H|H]]; auto.
Qed.
Lemma In_zrem y x l : In y (zrem x l) <-> y <> x /\ In y l.
Proof.
  induction l as [|z l IH]; cbn [zrem In]; [tauto|].
  destruct (x =? z) eqn:E.
  - apply Z.eqb_eq in E; subst z. rewrite IH. split; [tauto|]. intros [N [H|H]]; [congruence|tauto].
  - apply Z.eqb_neq in E. cbn [In]. rewrite IH. split.
    + intros [->|[N H]]; split; auto.
    + intros [N [H|H]]; auto.
Qed.

(* ---- executable multiset equality -------------------------------------- *)
Section Perm.
  Context {A : Type} (eqb : A -> A -> bool).
  Hypothesis eqb_spec : forall x y, eqb x y = true <-> x = y.

  Fixpoint remove1 (x : A) (l : list A) : option (list A) :=
    match l with
    | [] => None
    | y :: l => if eqb x y then Some l
                else match remove1 x l with Some l' => Some (y :: l') | None => None end
    end.

  Fixpoint perm_b (l1 l2 : list A) : bool :=
    match l1 with
    | [] => match l2 with [] => true | _ => false end
    | x :: l1 => match remove1 x l2 with Some l2' => perm_b l1 l2' | None => false end
    end.

  Lemma remove1_perm x l l' : remove1 x l = Some l' -> Permutation l (x :: l').
  Proof.
    revert l'. induction l as [|y l IH]; cbn [remove1]; [discriminate|]. intros l'.
    destruct (eqb x y) eqn:E.
    - apply eqb_spec in E; subst. intros [= ->]. apply Permutation_refl.
    - destruct (remove1 x l) as [l0|]; [|discriminate]. intros [= <-].
      eapply perm_trans; [apply perm_skip, IH; reflexivity|apply perm_swap].
  Qed.

  Lemma remove1_In x l : In x l -> exists l', remove1 x l = Some l'.
  Proof.
    induction l as [|y l IH]; cbn [remove1 In]; [tauto|]. intros H.
    destruct (eqb x y) eqn:E; [eauto|].
    destruct H as [H|H].
    { subst. assert (X : eqb x x = true) by (now apply eqb_spec). congruence. }
    destruct (IH H) as [l' ->]. eauto.
  Qed.

  Lemma perm_b_sound l1 l2 : perm_b l1 l2 = true -> Permutation l1 l2.
  Proof.
    revert l2. induction l1 as [|x l1 IH]; cbn [perm_b]; intros l2.
    - destruct l2; [constructor|discriminate].
    - destruct (remove1 x l2) as [l2'|] eqn:E; [|discriminate]. intros H.
      apply remove1_perm in E. apply Permutation_sym.
      eapply perm_trans; [exact E|]. apply perm_skip, Permutation_sym, IH, H.
  Qed.

  Lemma perm_b_complete l1 l2 : Permutation l1 l2 -> perm_b l1 l2 = true.
  Proof.
    revert l2. induction l1 as [|x l1 IH]; cbn [perm_b]; intros l2 P.
    - apply Permutation_nil in P. now subst.
    - assert (I : In x l2) by (eapply Permutation_in; [exact P|now left]).
      destruct (remove1_In _ _ I) as [l2' E]. rewrite E. apply IH.
      apply remove1_perm in E. eapply Permutation_cons_inv.
      eapply perm_trans; [exact P|exact E].
  Qed.

  Lemma perm_b_refl l : perm_b l l = true.
  Proof. apply perm_b_complete, Permutation_refl. Qed.
End Perm.

Definition zperm_b := perm_b Z.eqb.
Lemma zperm_b_sound l1 l2 : zperm_b l1 l2 = true -> Permutation l1 l2.
Proof. apply perm_b_sound. intros; apply Z.eqb_eq. Qed.

(* ---- the entity table: _entities : dict[eid, dict[type, instance]] ------ *)
Definition row := list (Z * Z).
Definition table := list (Z * row).

Definition trow (t : table) (e : Z) : row :=
  match alookup e t with Some r => r | None => [] end.
Definition tget (t : table) (e ty : Z) : option Z := alookup ty (trow t e).
(* self._entities.setdefault(e, {})[ty] = i *)
Definition tset (t : table) (e ty i : Z) : table := aset e (aset ty i (trow t e)) t.
(* del self._entities[e][ty]; if not self._entities[e]: del self._entities[e] *)
Definition tdel (t : table) (e ty : Z) : table :=
  match adel ty (trow t e) with
  | [] => adel e t
  | r => aset e r t
  end.
Definition towns (t : table) (e : Z) : bool := amem e t.
(* all attached instances, with their slot *)
Definition tinsts (t : table) : list Z := flat_map (fun er => map snd (snd er)) t.

(* get(ty): every (entity, component) whose slot of exact type ty is occupied *)
Definition tall (t : table) (ty : Z) : list (Z * Z) :=
  flat_map (fun er => match alookup ty (snd er) with Some i => [(fst er, i)] | None => [] end) t.
Definition pz_eqb (a b : Z * Z) : bool := (fst a =? fst b) && (snd a =? snd b).
Definition pperm_b := perm_b pz_eqb.
Lemma pz_eqb_spec a b : pz_eqb a b = true <-> a = b.
Proof.
  destruct a as [a1 a2], b as [b1 b2]. unfold pz_eqb. cbn.
  rewrite andb_true_iff, !Z.eqb_eq. split; [intros [-> ->]; reflexivity|now intros [= -> ->]].
Qed.
